#!/bin/sh
# tools_mutc.sh '<python snippet editing files under cwd>' PROP...  -- scratch copy incl. girepository
D=$(mktemp -d /tmp/givc-mut.XXXXXX)
cp -r /repo/giscanner "$D/"; cp -r /repo/girepository "$D/"
( cd "$D" && python3 -c "$1" ) || { rm -rf "$D"; exit 9; }
shift
for p in "$@"; do GIVC_REPO="$D" /verif/check "$p" | grep -E "^(VIOLATION|UNDECIDED|CHECKER|C[0-9]+:)" ; done
rm -rf "$D"
