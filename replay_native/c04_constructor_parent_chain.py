import sys; sys.path.insert(0,'/verif')
from givc import harness; harness.install()
from giscanner import ast, maintransformer, transformer, message
import io
message.MessageLogger._instance = None
message.MessageLogger.get(namespace=None, output=io.StringIO())
ns = ast.Namespace('Foo', '1.0', identifier_prefixes=['Foo'], symbol_prefixes=['foo'])
t = transformer.Transformer.__new__(transformer.Transformer)
t._namespace = ns; t._symbol_filter_cmd = None; t._accept_unprefixed = False; t._parsed_includes = {}; t._includepaths = []
obj = ast.Class('Obj', None, ctype='FooObj', gtype_name='FooObj', get_type='foo_obj_get_type', c_symbol_prefix='obj')
rec = ast.Record('Rec', 'FooRec', gtype_name='FooRec', get_type='foo_rec_get_type', c_symbol_prefix='rec')
ns.append(obj); ns.append(rec)
mt = maintransformer.MainTransformer(t, {})
mt._uscore_type_names = {'obj': obj, 'rec': rec}
ret = ast.Return(ast.Type(target_giname='Foo.Obj', ctype='FooObj*'))
f = ast.Function('rec_new_obj', ret, [], False, 'foo_rec_new_obj')
ns.append(f)
try:
    print('is_constructor ->', mt._is_constructor(f, 'rec_new_obj'))
except Exception as e:
    print('CRASH', type(e).__name__, e)
