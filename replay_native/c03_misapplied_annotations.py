"""Native reproduction of the two C03 findings repaired by /repo commits 63076e1 and 3f401a8 (run with python3-vt; exits 1 if either
crash is back).  (a) (rename-to SYMBOL) naming an enumeration member; (b) (virtual SLOT) on a method of a record."""
import io
import sys
sys.path.insert(0, '/verif')
from givc import harness; harness.install()      # noqa
from giscanner import ast, maintransformer as MT, annotationparser as AP, message

message.MessageLogger._instance = None
message.MessageLogger.get(namespace=None, output=io.StringIO())
parser = AP.GtkDocCommentBlockParser()
bad = 0

mt = object.__new__(MT.MainTransformer)
ns = ast.Namespace('Foo', '1.0')
mt._namespace = ns
ns.append(ast.Enum('Mode', 'FooMode', members=[ast.Member('a', 0, 'FOO_MODE_A', 'a')]))
f = ast.Function('do', ast.Return(ast.TYPE_NONE, None), [], False, 'foo_do')
block = parser.parse_comment_block('/**\n * foo_do: (rename-to FOO_MODE_A)\n */', 't.c', 1)
try:
    mt._apply_annotation_rename_to(f, [], block)
    print('(a) ok: no exception, shadows =', f.shadows)
except AttributeError as e:
    print('(a) DEFECT: AttributeError', e)
    bad = 1

mt2 = object.__new__(MT.MainTransformer)
mt2._namespace = ns
mt2._blocks = {'foo_rec_do': parser.parse_comment_block('/**\n * foo_rec_do: (virtual do_it)\n */', 't.c', 1)}
g = ast.Function('do', ast.Return(ast.TYPE_NONE, None), [], False, 'foo_rec_do')
try:
    mt2._pass_read_annotations2(g, [ast.Record('Rec', 'FooRec')])
    print('(b) ok: no exception')
except AttributeError as e:
    print('(b) DEFECT: AttributeError', e)
    bad = 1
sys.exit(bad)
