"""C19 - library names resolve to the right shared objects or fail loudly (shlibs.py, utils.py)."""
from givc.contracts import contract, inline
from . import schema   # noqa
import os
S = 'giscanner.shlibs.'

contract('posixpath.basename', params={'p': 'str'}, returns='str', pure_keys=['p'], trusted=True,
         ensures={'no_slash': "'/' not in result", 'suffix': "p.endswith(result)",
                  'whole_if_no_slash': "implies('/' not in p, result == p)"})
contract('posixpath.isabs', params={'s': 'str'}, returns='bool', pure_keys=['s'], trusted=True)


def off_darwin():
    import sys
    return sys.platform != 'darwin'


contract(S + 'sanitize_shlib_path', params={'lib': 'str'}, returns='str', props=('C19',),
         ensures={'C19.sanitize.basename_off_darwin': "implies(off_darwin(), result == os.path.basename(lib))",
                  'C19.sanitize.no_directory_off_darwin': "implies(off_darwin(), '/' not in result)"})

import re as _re
from givc.model import UNIVERSE, schema as _schema, add_spec_namespace as _asn
UNIVERSE.register(_re.Pattern)
UNIVERSE.register(_re.Match)
_asn(_re)
contract('genericpath.isfile', params={'path': 'str'}, returns='bool', pure_keys=['path'], trusted=True)
contract(S + '_ldd_library_pattern', params={'library_name': 'str'}, returns='Pattern', pure_keys=['library_name'], trusted=True,
         note='the pattern language is decided by the regular-language lemmas C19.pattern.* (contracts/extra/c19_regex.py)')
contract('re.Pattern.match', params={'self': 'Pattern', 'string': 'str'}, returns='Match?', pure_keys=['self', 'string'], trusted=True)
contract('re.Match.group', params={'self': 'Match'}, returns='str', pure_keys=['self'], trusted=True)

COLON = ':'
INV = ['len(shlibs) + len(patterns) == NP', 'len(patterns) >= 0']
contract(S + 'resolve_from_ldd_output',
         params={'libraries': 'list[str]', 'output': 'str'}, returns='list[str]', props=('C19',),
         raises={'SystemExit': 'True'},
         local_modes={},
         loops={1: {'invariant': ['len(patterns) >= 0'], 'modifies': ['patterns{}'], 'ghost_exit': {'NP': 'len(patterns)'}},
                2: {'invariant': INV, 'modifies': ['patterns{}', 'shlibs[]'],
                    'var_types': {'word': 'str', 'line': 'str', 'library': 'str'}},
                3: {'invariant': INV, 'modifies': ['patterns{}', 'shlibs[]'], 'var_types': {'word': 'str', 'library': 'str'}},
                4: {'invariant': INV, 'modifies': ['patterns{}', 'shlibs[]'], 'var_types': {'library': 'str', 'pattern': 'Pattern'}}},
         ensures={'C19.resolve.every_request_resolved_once': "len(result) == NP",
                  'C19.resolve.header_lines_are_ignored': "all_calls('re.Pattern.match', 'not local_line.endswith(COLON)')",
                  'C19.resolve.resolved_names_are_matched_words': "all_calls('re.Match.group', 'True') and "
                                                                  "each_call_preceded('re.Match.group', 're.Pattern.match')"},
         note='normal return only when every requested (non-file) library name was matched; otherwise SystemExit (loud failure)')


def ghost_defined(name):
    return True
