"""C19 - library names resolve to the right shared objects or fail loudly (shlibs.py, utils.py)."""
from givc.contracts import contract, inline
from . import schema   # noqa
import os
S = 'giscanner.shlibs.'

contract('posixpath.basename', params={'p': 'str'}, returns='str', pure_keys=['p'], trusted=True,
         ensures={'no_slash': "'/' not in result", 'suffix': "p.endswith(result)",
                  'whole_if_no_slash': "implies('/' not in p, result == p)"})
contract('posixpath.isabs', params={'s': 'str'}, returns='bool', pure_keys=['s'], trusted=True)


def off_darwin():
    import sys
    return sys.platform != 'darwin'


contract(S + 'sanitize_shlib_path', params={'lib': 'str'}, returns='str', props=('C19',),
         ensures={'C19.sanitize.basename_off_darwin': "implies(off_darwin(), result == os.path.basename(lib))",
                  'C19.sanitize.no_directory_off_darwin': "implies(off_darwin(), '/' not in result)"})

import re as _re
from givc.model import UNIVERSE, schema as _schema, add_spec_namespace as _asn
UNIVERSE.register(_re.Pattern)
UNIVERSE.register(_re.Match)
_asn(_re)
contract('genericpath.isfile', params={'path': 'str'}, returns='bool', pure_keys=['path'], trusted=True)
contract(S + '_ldd_library_pattern', params={'library_name': 'str'}, returns='Pattern', pure_keys=['library_name'], trusted=True,
         note='the pattern language is decided by the regular-language lemmas C19.pattern.* (contracts/extra/c19_regex.py)')
contract('re.Pattern.match', params={'self': 'Pattern', 'string': 'str'}, returns='Match?', pure_keys=['self', 'string'], trusted=True)
contract('re.Match.group', params={'self': 'Match'}, returns='str', pure_keys=['self'], trusted=True)

COLON = ':'
INV = ['len(shlibs) + len(patterns) == NP', 'len(patterns) >= 0']
contract(S + 'resolve_from_ldd_output',
         params={'libraries': 'list[str]', 'output': 'str'}, returns='list[str]', props=('C19',),
         raises={'SystemExit': 'True'},
         local_modes={},
         loops={1: {'invariant': ['len(patterns) >= 0'], 'modifies': ['patterns{}'], 'ghost_exit': {'NP': 'len(patterns)'}},
                2: {'invariant': INV, 'modifies': ['patterns{}', 'shlibs[]'],
                    'var_types': {'word': 'str', 'line': 'str', 'library': 'str'}},
                3: {'invariant': INV, 'modifies': ['patterns{}', 'shlibs[]'], 'var_types': {'word': 'str', 'library': 'str'}},
                4: {'invariant': INV, 'modifies': ['patterns{}', 'shlibs[]'], 'var_types': {'library': 'str', 'pattern': 'Pattern'}}},
         ensures={'C19.resolve.every_request_resolved_once': "len(result) == NP",
                  'C19.resolve.header_lines_are_ignored': "all_calls('re.Pattern.match', 'not local_line.endswith(COLON)')",
                  'C19.resolve.resolved_names_are_matched_words': "all_calls('re.Match.group', 'True') and "
                                                                  "each_call_preceded('re.Match.group', 're.Pattern.match')"},
         note='normal return only when every requested (non-file) library name was matched; otherwise SystemExit (loud failure)')


def ghost_defined(name):
    return True


# ---- libtool archives: the dlname field names the shared object -----------------------------------------------------------
U = 'giscanner.utils.'
contract(U + '_extract_dlname_field', params={'la_file': 'str'}, returns='str?', pure_keys=['la_file'], trusted=True,
         raises={'OSError': 'maybe'}, note="dlname='...' field of the .la file (file contents and the regular expression not modelled)")
contract(U + '_extract_libdir_field', params={'la_file': 'str'}, returns='str?', pure_keys=['la_file'], trusted=True,
         raises={'OSError': 'maybe'})
contract('platform.system', params={}, returns='str', pure_keys=[], trusted=True)
import giscanner.utils as _gu   # noqa
import os as _os, platform as _platform   # noqa
basename = _os.path.basename
system = _platform.system
dlname_of = _gu._extract_dlname_field
libdir_of = _gu._extract_libdir_field
contract(U + 'extract_libtool_shlib', params={'la_file': 'str'}, returns='str?', props=('C19',), raises={'OSError': 'True'},
         ensures={
             'C19.libtool.no_dlname_no_library': 'implies(dlname_of(la_file) is None, result is None)',
             'C19.libtool.basename_of_the_dlname': "implies(dlname_of(la_file) is not None and system() != 'Darwin', "
                                                  "result == basename(dlname_of(la_file)))",
             'C19.libtool.darwin_uses_the_libdir': "implies(dlname_of(la_file) is not None and system() == 'Darwin', result == "
                                                   "(libdir_of(la_file) + '/' + basename(dlname_of(la_file)) if libdir_of(la_file) is not None "
                                                   "else basename(dlname_of(la_file))))",
         })
