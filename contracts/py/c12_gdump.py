"""C12 - runtime GObject type data is merged faithfully (gdumpparser.py)."""
import xml.etree.ElementTree as _ET
from givc.contracts import contract, inline
from givc.model import UNIVERSE, schema as _schema, add_spec_namespace as _asn
from . import schema   # noqa
from . import c11_message, c03_identifier_annotations  # noqa
from giscanner import ast, gdumpparser

UNIVERSE.register(_ET.Element)
_asn(_ET)
_schema(_ET.Element, tag='str', attrib='dict[str]', text='str?')
_schema(gdumpparser.GDumpParser, _transformer='Transformer', _namespace='Namespace', _boxed_types='dict[Boxed]',
        _pointer_types='dict[Pointer]', _private_internal_types='dict', _get_type_functions='list[str]',
        _error_quark_functions='list[str]')

GD = 'giscanner.gdumpparser.GDumpParser.'

from givc.model import named_spec as _nsx, TypeSpec as _TSx, parse_spec as _psx   # noqa
_nsx('ElementList', _TSx('list', (), False, _psx('Element'), region='xml.findall'))
contract('xml.etree.ElementTree.Element.findall', params={'self': 'Element', 'path': 'str'}, returns='ElementList',
         pure_keys=['self', 'path'], trusted=True, note='children with that tag, in document order')
FUNDAMENTAL_GTYPES = ('gchar', 'guchar', 'gboolean', 'gint', 'guint', 'glong', 'gulong', 'gint64', 'guint64', 'gfloat', 'gdouble',
                      'gchararray', 'gpointer', 'GType', 'void')


def elem_is(t, fundamental):
    return isinstance(t, ast.Type) and t.target_fundamental == fundamental


contract('giscanner.ast.Type.create_from_gtype_name', params={'cls': 'class:Type', 'gtype_name': 'str'}, returns='Type',
         props=('C12',), raises={'AssertionError': 'True'},
         ensures={
             'names_the_reported_type': "result.gtype_name == gtype_name or result.target_fundamental is not None",
             'C12.gtype.byte_array_of_guint8': "implies(gtype_name == 'GByteArray', isinstance(result, ast.Array) and "
                                               "result.array_type == 'GLib.ByteArray' and elem_is(result.element_type, 'guint8'))",
             'C12.gtype.arrays_of_pointers': "implies(gtype_name in ('GArray', 'GPtrArray'), isinstance(result, ast.Array) and "
                                             "result.array_type == 'GLib.' + gtype_name[1:] and elem_is(result.element_type, 'gpointer'))",
             'C12.gtype.hash_table': "implies(gtype_name == 'GHashTable', isinstance(result, ast.Map) and "
                                     "elem_is(result.key_type, 'gpointer') and elem_is(result.value_type, 'gpointer'))",
             'C12.gtype.strv_is_array_of_utf8': "implies(gtype_name == 'GStrv', isinstance(result, ast.Array) and "
                                                "result.array_type == '<c>' and elem_is(result.element_type, 'utf8'))",
             'C12.gtype.fundamentals': "implies(gtype_name in ('gint', 'guint', 'gboolean', 'gdouble', 'gfloat', 'gint64', 'guint64', 'glong', 'gulong'), "
                                       "result.target_fundamental == gtype_name)",
             'C12.gtype.strings': "implies(gtype_name == 'gchararray', result.target_fundamental == 'utf8')",
             'C12.gtype.other_names_unresolved_by_name': "implies(gtype_name not in ast.type_names and gtype_name not in "
                                                         "('GHashTable', 'GByteArray', 'GArray', 'GPtrArray', 'GStrv'), "
                                                         "result.gtype_name == gtype_name and not result.target_fundamental and not result.target_giname)",
         })
inline('giscanner.ast.Type.clone')

def bit(word, k):
    return (word // (2 ** k)) % 2 == 1


PS = "xmlnode.findall('property')"
contract(GD + '_introspect_properties',
         params={'self': 'GDumpParser', 'node': 'Class|Interface', 'xmlnode': 'Element'},
         ghost={'J': 'int'}, props=('C12',),
         modifies=['node.properties[]', 'node.properties'], raises={'KeyError': 'True', 'ValueError': 'True', 'AssertionError': 'True'},
         requires=["node.properties is not xmlnode.findall('property')"],
         loops={1: {'invariant': [
             'len(node.properties) == old(len(node.properties)) + I1',
             'implies(0 <= J and J < I1, prop_matches(node.properties[old(len(node.properties)) + J], %s[J]))' % PS],
             'modifies': ['node.properties[]']}},
         ensures={
             'C12.properties.one_per_reported': 'len(node.properties) == old(len(node.properties)) + len(%s)' % PS,
             'C12.properties.flags_name_default': 'implies(0 <= J and J < len(%s), '
                                                  'prop_matches(node.properties[old(len(node.properties)) + J], %s[J]))' % (PS, PS),
         })


def prop_matches(prop, pspec):
    flags = int(pspec.attrib['flags'])
    return prop.name == pspec.attrib['name'] and prop.readable == bit(flags, 0) and prop.writable == bit(flags, 1) \
        and prop.construct == bit(flags, 2) and prop.construct_only == bit(flags, 3) \
        and prop.default_value == pspec.attrib.get('default-value')


contract('giscanner.ast.Node.create_type', params={'self': 'Node'}, returns='Type', fresh_result=True, trusted=True,
         raises={'AssertionError': 'self.namespace is None'},
         ensures={'names_this_node': "result.target_giname == self.namespace.name + '.' + self.name"})
contract('giscanner.ast.Node.inherit_file_positions', params={'self': 'Node', 'node': 'Node'}, trusted=True,
         modifies=['self.file_positions{}'])

contract(GD + '_find_class_record',
         params={'self': 'GDumpParser', 'cls': 'Class|Interface'}, props=('C12',),
         modifies=['cls.glib_type_struct', 'cls.file_positions{}', '*.is_gtype_struct_for'],
         raises={'AssertionError': 'True'},
         requires=['cls.name is not None', 'cls.namespace is not None'],
         let={'rec': "self._namespace.names.get(cls.name + 'Class') if isinstance(cls, ast.Class) else "
                     "(self._namespace.names.get(cls.name + 'Iface') if self._namespace.names.get(cls.name + 'Iface') "
                     "else self._namespace.names.get(cls.name + 'Interface'))"},
         ensures={
             'C12.class_struct.linked_both_ways': "implies(isinstance(rec, ast.Record) and rec.namespace is not None, "
                                                  "cls.glib_type_struct.target_giname == rec.namespace.name + '.' + rec.name and "
                                                  "rec.is_gtype_struct_for.target_giname == cls.namespace.name + '.' + cls.name)",
             'C12.class_struct.none_without_record': "implies(not isinstance(rec, ast.Record), cls.glib_type_struct is old(cls.glib_type_struct))",
         })

contract(GD + '_add_record_fields',
         params={'self': 'GDumpParser', 'node': 'Class'}, ghost={'J': 'int'}, props=('C12',),
         modifies=['node.ctype', 'node.fields', '*.writable'],
         requires=['node.name is not None'],
         let={'rec': "self._namespace.names.get(node.name)"},
         loops={1: {'invariant': ['node.fields is rec.fields', 'node.ctype == rec.ctype',
                                  'implies(0 <= J and J < I1 and isinstance(node.fields[J], ast.Field), not node.fields[J].writable)'],
                    'modifies': ['*.writable']}},
         ensures={
             'C12.instance.takes_ctype_and_fields': "implies(isinstance(rec, ast.Record), node.ctype == rec.ctype and node.fields is rec.fields)",
             'C12.instance.fields_read_only': "implies(isinstance(rec, ast.Record) and 0 <= J and J < len(node.fields) and "
                                              "isinstance(node.fields[J], ast.Field), not node.fields[J].writable)",
             'C12.instance.untouched_without_record': "implies(not isinstance(rec, ast.Record), node.ctype == old(node.ctype) and node.fields is old(node.fields))",
         })


# ---- interface / prerequisite lists: entries that do not resolve are dropped, the others keep their order -----------------
MT = 'giscanner.maintransformer.MainTransformer.'
contract('giscanner.transformer.Transformer.resolve_type', params={'self': 'Transformer', 'typeval': 'Type'}, returns='bool',
         trusted=True, modifies=['typeval.target_giname', 'typeval.target_fundamental', 'typeval.target_foreign'],
         raises={'ValueError': 'maybe', 'KeyError': 'maybe'},
         note='resolves the type in place (namespace tables not modelled)')
contract(MT + '_resolve_and_filter_type_list', params={'self': 'MainTransformer', 'typelist': 'list[Type]'}, returns='list[Type]',
         props=('C12',), modifies=['*.target_giname', '*.target_fundamental', '*.target_foreign'],
         raises={'ValueError': 'True', 'KeyError': 'True'},
         loops={1: {'index': 'I1', 'modifies': ['new_typelist[]', '*.target_giname', '*.target_fundamental', '*.target_foreign'],
                    'var_types': {'typeval': 'Type', 'resolved': 'bool'},
                    'invariant': ['len(typelist) == old(len(typelist))']}},
         ensures={
             'C12.interfaces.the_given_list_is_not_changed': 'len(typelist) == old(len(typelist))',
             'C12.interfaces.result_is_a_new_list': 'is_fresh(result)',
             'C12.interfaces.every_entry_is_resolved_once_in_order':
                 "all_calls('resolve_type', 'arg_typeval is typelist[local_I1]')",
         },
         note='the loop runs over the given list while entries are removed from a copy: `loop1.iter_unchanged` and the frame '
              'obligations on the list arrays are what forbid filtering the list in place')


# ---- signals reported by the type system ---------------------------------------------------------------------------------
SG = "xmlnode.findall('signal')"


def flag01(el, name):
    return el.attrib.get(name, '0') == '1'


def signal_matches(sig, el):
    """name, run stage and the four flags as reported; one parameter per <param>, the first one being the instance"""
    params = el.findall('param')
    return sig.name == el.attrib['name'] and sig.when == el.attrib.get('when') and sig.no_recurse == flag01(el, 'no-recurse') \
        and sig.detailed == flag01(el, 'detailed') and sig.action == flag01(el, 'action') and sig.no_hooks == flag01(el, 'no-hooks') \
        and len(sig.parameters) == len(params) \
        and (len(params) == 0 or sig.parameters[0].argname == 'object')


contract(GD + '_introspect_signals',
         params={'self': 'GDumpParser', 'node': 'Class|Interface', 'xmlnode': 'Element'},
         ghost={'J': 'int'}, props=('C12',),
         modifies=['node.signals[]', 'node.signals', '*.parent', '*.transfer'],
         raises={'KeyError': 'True', 'ValueError': 'True', 'AssertionError': 'True'},
         loops={1: {'index': 'I1', 'modifies': ['node.signals[]', '*.parent', '*.transfer'],
                    'var_types': {'signal_info': 'Element'},
                    'invariant': [
                        'len(node.signals) == old(len(node.signals)) + I1',
                        'implies(0 <= J and J < I1, is_fresh(node.signals[old(len(node.signals)) + J].parameters))',
                        'implies(0 <= J and J < I1, signal_matches(node.signals[old(len(node.signals)) + J], %s[J]))' % SG]},
                2: {'index': 'I2', 'modifies': ['parameters[]'], 'var_types': {'parameter': 'Element', 'parameters': 'list[Parameter]'},
                    'invariant': ['is_fresh(parameters)', 'len(parameters) == I2',
                                  "implies(I2 >= 1, parameters[0].argname == 'object')"]}},
         ensures={
             'C12.signals.one_per_reported': 'len(node.signals) == old(len(node.signals)) + len(%s)' % SG,
             'C12.signals.name_stage_flags_parameters': 'implies(0 <= J and J < len(%s), '
                                                        'signal_matches(node.signals[old(len(node.signals)) + J], %s[J]))' % (SG, SG),
         })


# ---- GDumpParser.parse: the get-type functions of all registered types leave the namespace ---------------------------------------
from . import c04_symbols   # noqa  (split_csymbol, Namespace.remove)
inline('giscanner.ast.Namespace.values', 'giscanner.ast.Namespace.items')
UNIVERSE.register(_ET.ElementTree)
contract(GD + '_execute_binary_get_tree', params={'self': 'GDumpParser'}, returns='ElementTree', fresh_result=True, trusted=True,
         raises={'SystemExit': 'maybe', 'OSError': 'maybe'}, note='runs the dump binary and parses its XML output')
contract('xml.etree.ElementTree.ElementTree.getroot', params={'self': 'ElementTree'}, returns='Element', pure_keys=['self'], trusted=True)
contract('xml.etree.ElementTree.Element.__iter__', params={'self': 'Element'}, returns='ElementList', pure_keys=['self'], trusted=True,
         note='the children of an element in document order')
THIS_NS = ['self._namespace.names{}', 'self._namespace.aliases{}', 'self._namespace.type_names{}', 'self._namespace.symbols{}',
           'self._namespace.ctypes{}']
PAIR_MODS = THIS_NS + ['*.namespace', '*.gtype_name', '*.get_type', '*.c_symbol_prefix', '*.disguised', 'LOGGER._warning_count']
NODE_FIELDS = ['namespace', 'gtype_name', 'get_type', 'glib_type_struct', 'is_gtype_struct_for', 'error_domain', 'parent_type',
               'c_symbol_prefix', 'fundamental', 'is_abstract', 'is_final', 'parent_chain', 'ref_func', 'unref_func', 'set_value_func',
               'get_value_func', 'ctype', 'copy_func', 'free_func', 'opaque', 'disguised', 'pointer', 'name', 'doc', 'moved_to',
               'is_method', 'is_constructor', 'interfaces', 'prerequisites', 'properties', 'signals', 'methods', 'static_methods',
               'constructors', 'fields', 'members']
TYPE_MODS = ['*[]', '*{}', 'LOGGER._warning_count'] + ['*.%s' % f for f in NODE_FIELDS]
for _name, _params in (('_introspect_error_quark', {'self': 'GDumpParser', 'xmlnode': 'Element'}),
                       ('_introspect_type', {'self': 'GDumpParser', 'xmlnode': 'Element'}),
                       ('_pair_boxed_type', {'self': 'GDumpParser', 'boxed': 'Boxed'}),
                       ('_pair_pointer_type', {'self': 'GDumpParser', 'pointer': 'Pointer'})):
    contract(GD + _name, params=_params, trusted=True, modifies=TYPE_MODS if _name.startswith('_introspect') else PAIR_MODS,
             raises={'KeyError': 'maybe', 'ValueError': 'maybe', 'AssertionError': 'maybe', 'SystemExit': 'maybe'},
             ensures={'symbol_filter_kept': 'self._transformer._symbol_filter_cmd is old(self._transformer._symbol_filter_cmd)',
                      'same_namespace': 'self._transformer._namespace is old(self._transformer._namespace)'},
             note='merging of one dumped type into the namespace: coarse frame only (the pieces under contract are '
                  '_introspect_properties / _introspect_signals / _resolve_and_filter_type_list / _find_class_record / _add_record_fields)')


def gives_up_get_type(node):
    """a registered type (class, interface, boxed, enumeration, flags, and records / unions paired with a boxed or pointer GType)
    whose get-type function is a real symbol"""
    return isinstance(node, ast.Registered) and node.get_type is not None and node.get_type != 'intern'


NODE = 'self._namespace.names.get(ITER5[%s])'     # ITER5: the order in which loop 5 visits the names of the namespace
GT_FOLD = {'NP': {'type': 'int', 'init': '0', 'step': "ACC + (1 if gives_up_get_type(%s) else 0)" % (NODE % 'I5')}}
contract(GD + 'parse', params={'self': 'GDumpParser'}, ghost={'G': 'int'}, props=('C12',), budget=3,
         requires=['self._transformer._symbol_filter_cmd is None', 'self._transformer._namespace is self._namespace'],
         modifies=TYPE_MODS, raises={'KeyError': 'True', 'ValueError': 'True', 'AssertionError': 'True', 'SystemExit': 'True', 'OSError': 'True'},
         var_types={'to_remove': 'list[Node]'},
         loops={
             1: {'invariant': ['self._transformer._symbol_filter_cmd is None'], 'modifies': TYPE_MODS, 'var_types': {'child': 'Element'},
                 'assume_iter_unchanged': 'the introspection functions build namespace nodes and never touch the XML tree of the dump'},
             2: {'invariant': ['True'], 'modifies': PAIR_MODS, 'var_types': {'boxed': 'Boxed', 'name': 'str'}},
             3: {'invariant': ['True'], 'modifies': PAIR_MODS, 'var_types': {'pointer': 'Pointer', 'name': 'str'}},
             4: {'invariant': ['True'], 'modifies': ['*.glib_type_struct', '*.is_gtype_struct_for', 'node.file_positions{}'],
                 'var_types': {'node': 'Node'},
                 'assume_item': ['node.name is not None and node.namespace is not None']},
             5: {'index': 'I5', 'modifies': ['to_remove[]'], 'folds': GT_FOLD,
                 'invariant': ['is_fresh(to_remove)', "len(to_remove) == FOLD('NP', I5)",
                               "implies(0 <= G and G < I5 and gives_up_get_type(%s), 0 <= FOLD('NP', G) and "
                               "FOLD('NP', G) < len(to_remove) and to_remove[FOLD('NP', G)] is "
                               "self._namespace.names.get(self._transformer.split_csymbol(%s.get_type)[1]))" % (NODE % 'G', NODE % 'G')],
                 'post': ["implies(0 <= G and G < len(ITER5) and gives_up_get_type(%s), 0 <= FOLD('NP', G) and "
                          "FOLD('NP', G) < len(to_remove) and to_remove[FOLD('NP', G)] is "
                          "self._namespace.names.get(self._transformer.split_csymbol(%s.get_type)[1]))" % (NODE % 'G', NODE % 'G')],
                 'var_types': {'node': 'Node', 'name': 'str', 'get_type_func': 'Node', 'ns': 'Namespace'}},
             6: {'index': 'I6', 'invariant': ['True'], 'modifies': THIS_NS + ['*.namespace'], 'var_types': {'node': 'Node'}},
         },
         ensures={
             'C12.get_type.exactly_the_listed_functions_are_removed': "all_calls('remove', 'arg_node is local_to_remove[local_I6]')",
         },
         note='loop 5 (invariant): the function named by the get-type symbol of EVERY registered type - also of records and unions '
              'paired with a boxed / pointer GType - is put on the removal list, in namespace order; loop 6 removes the listed nodes')


# ---- type resolution pass: the parent of a class is the nearest KNOWN type of the chain the type system reported -----------------------
RES_MODS = ['*.target_giname', '*.target_fundamental', '*.target_foreign']
CH = 'node.parent_chain'
contract(MT + '_pass_type_resolution', params={'self': 'MainTransformer', 'node': 'Node', 'chain': 'any'}, returns='bool',
         props=('C12',), modifies=RES_MODS + ['node.parent_type', 'node.interfaces', 'node.prerequisites'],
         raises={'ValueError': 'True', 'KeyError': 'True'},
         loops={
             1: {'invariant': ['True'], 'modifies': RES_MODS, 'var_types': {'parameter': 'Parameter'}},
             2: {'invariant': ['True'], 'modifies': RES_MODS, 'var_types': {'field': 'Field'},
                 'assume_item': ['field.anonymous_node is not None or field.type is not None']},
             3: {'index': 'I3', 'modifies': RES_MODS + ['node.parent_type'], 'var_types': {'parent': 'Type', 'target': 'Node?'},
                 'invariant': ['node.parent_type is old(node.parent_type)'],
                 'post': [
                     'implies(I3 < len(%s), node.parent_type is %s[I3] and bool(self._transformer.lookup_typenode(%s[I3])))' % (CH, CH, CH),
                     'implies(I3 >= len(%s) and isinstance(node, ast.Class), node.parent_type is old(node.parent_type))' % CH,
                     "implies(I3 >= len(%s) and isinstance(node, ast.Interface), node.parent_type.target_giname == 'GObject.Object')" % CH]},
             4: {'invariant': ['True'], 'modifies': RES_MODS, 'var_types': {'prop': 'Property'}},
             5: {'invariant': ['True'], 'modifies': RES_MODS, 'var_types': {'sig': 'Signal'}},
             6: {'invariant': ['True'], 'modifies': RES_MODS, 'var_types': {'param': 'Parameter'}},
         },
         ensures={'C12.parent.pass_continues': 'result == True',
                  'C12.parent.other_nodes_keep_their_parent':
                      'implies(not isinstance(node, (ast.Class, ast.Interface)), True)'},
         note='loop3.post0-2: the parent type is an entry of the reported chain whose target is known to the scanner (the first one '
              'that resolves), a class with no known entry keeps its parent (none is invented), an interface falls back to '
              'GObject.Object; "nearest" is by the order of the loop, entries that fail to resolve (ValueError) are skipped')


# ---- enumerations and flags registered with the type system ---------------------------------------------------------------------------
from . import c13_constants   # noqa  (strip_identifier, invariants of the Enum / Bitfield constructors)
contract(GD + '_split_type_and_symbol_prefix', params={'self': 'GDumpParser', 'xmlnode': 'Element'}, returns='tuple[str,str]', trusted=True,
         raises={'AssertionError': 'maybe', 'SystemExit': 'maybe', 'KeyError': 'maybe', 'ValueError': 'maybe'},
         modifies=['LOGGER._warning_count'], note='get-type symbol and the symbol prefix inferred from it')
MS = "xmlnode.findall('member')"
contract(GD + '_introspect_enum', params={'self': 'GDumpParser', 'xmlnode': 'Element'}, ghost={'J': 'int'}, props=('C12',),
         requires=['not self._transformer._symbol_filter_cmd'],
         modifies=['*.namespace', 'self._namespace.names{}', 'self._namespace.aliases{}', 'self._namespace.type_names{}',
                   'self._namespace.symbols{}', 'self._namespace.ctypes{}', '*.parent', 'LOGGER._warning_count'],
         raises={'KeyError': 'True', 'ValueError': 'True', 'AssertionError': 'True', 'SystemExit': 'True', 'TransformerException': 'True'},
         var_types={'previous_values': 'dict[int|str]', 'previous_symbols': 'dict[str]'},
         loops={1: {'index': 'I1', 'modifies': ['previous_values{}', 'previous_symbols{}'],
                    'var_types': {'member': 'Member', 'previous_values': 'dict[int|str]', 'previous_symbols': 'dict[str]'},
                    'invariant': ['is_fresh(previous_values)', 'is_fresh(previous_symbols)']},
                2: {'index': 'I2', 'modifies': ['members[]'], 'var_types': {'member': 'Element', 'members': 'list[Member]'},
                    'invariant': ['is_fresh(members)', 'len(members) == I2',
                                  "implies(0 <= J and J < I2, members[J].nick == %s[J].attrib['nick'] and "
                                  "members[J].dump_name == %s[J].attrib['name'] and "
                                  "members[J].name == %s[J].attrib['nick'].replace('-', '_'))" % (MS, MS, MS)],
                    'post': ['len(members) == len(%s)' % MS,
                             "implies(0 <= J and J < len(members), members[J].nick == %s[J].attrib['nick'] and "
                             "members[J].dump_name == %s[J].attrib['name'])" % (MS, MS)]}},
         ensures={
             'C12.enum.kind_is_the_one_the_type_system_reports':
                 "all_calls('append', 'isinstance(arg_node, ast.Bitfield) == (xmlnode.tag == \\'flags\\') and "
                 "isinstance(arg_node, (ast.Enum, ast.Bitfield)) and arg_replace == True')",
             'C12.enum.registered_names': "all_calls('append', 'arg_node.gtype_name == local_type_name and arg_node.ctype == local_type_name')",
             'C12.enum.members_are_the_reported_ones': "all_calls('append', 'arg_node.members is local_members')",
         },
         note='whether the type is an enumeration or a bitfield is decided by the runtime registration (<enum> / <flags>) alone, '
              'not by what the scanner guessed from the C declaration; loop2.post0-1: one member per reported value, in order, with its nick and registered name; values and C identifiers of members are taken from the '
              'scanned declaration when a member of that name exists (not claimed here)')
