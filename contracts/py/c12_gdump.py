"""C12 - runtime GObject type data is merged faithfully (gdumpparser.py)."""
import xml.etree.ElementTree as _ET
from givc.contracts import contract, inline
from givc.model import UNIVERSE, schema as _schema, add_spec_namespace as _asn
from . import schema   # noqa
from . import c11_message, c03_identifier_annotations  # noqa
from giscanner import ast, gdumpparser

UNIVERSE.register(_ET.Element)
_asn(_ET)
_schema(_ET.Element, tag='str', attrib='dict[str]', text='str?')
_schema(gdumpparser.GDumpParser, _transformer='Transformer', _namespace='Namespace', _boxed_types='dict[Boxed]',
        _pointer_types='dict[Pointer]', _private_internal_types='dict', _get_type_functions='list[str]',
        _error_quark_functions='list[str]')

GD = 'giscanner.gdumpparser.GDumpParser.'

from givc.model import named_spec as _nsx, TypeSpec as _TSx, parse_spec as _psx   # noqa
_nsx('ElementList', _TSx('list', (), False, _psx('Element'), region='xml.findall'))
contract('xml.etree.ElementTree.Element.findall', params={'self': 'Element', 'path': 'str'}, returns='ElementList',
         pure_keys=['self', 'path'], trusted=True, note='children with that tag, in document order')
FUNDAMENTAL_GTYPES = ('gchar', 'guchar', 'gboolean', 'gint', 'guint', 'glong', 'gulong', 'gint64', 'guint64', 'gfloat', 'gdouble',
                      'gchararray', 'gpointer', 'GType', 'void')


def elem_is(t, fundamental):
    return isinstance(t, ast.Type) and t.target_fundamental == fundamental


contract('giscanner.ast.Type.create_from_gtype_name', params={'cls': 'class:Type', 'gtype_name': 'str'}, returns='Type',
         props=('C12',), raises={'AssertionError': 'True'},
         ensures={
             'names_the_reported_type': "result.gtype_name == gtype_name or result.target_fundamental is not None",
             'C12.gtype.byte_array_of_guint8': "implies(gtype_name == 'GByteArray', isinstance(result, ast.Array) and "
                                               "result.array_type == 'GLib.ByteArray' and elem_is(result.element_type, 'guint8'))",
             'C12.gtype.arrays_of_pointers': "implies(gtype_name in ('GArray', 'GPtrArray'), isinstance(result, ast.Array) and "
                                             "result.array_type == 'GLib.' + gtype_name[1:] and elem_is(result.element_type, 'gpointer'))",
             'C12.gtype.hash_table': "implies(gtype_name == 'GHashTable', isinstance(result, ast.Map) and "
                                     "elem_is(result.key_type, 'gpointer') and elem_is(result.value_type, 'gpointer'))",
             'C12.gtype.strv_is_array_of_utf8': "implies(gtype_name == 'GStrv', isinstance(result, ast.Array) and "
                                                "result.array_type == '<c>' and elem_is(result.element_type, 'utf8'))",
             'C12.gtype.fundamentals': "implies(gtype_name in ('gint', 'guint', 'gboolean', 'gdouble', 'gfloat', 'gint64', 'guint64', 'glong', 'gulong'), "
                                       "result.target_fundamental == gtype_name)",
             'C12.gtype.strings': "implies(gtype_name == 'gchararray', result.target_fundamental == 'utf8')",
             'C12.gtype.other_names_unresolved_by_name': "implies(gtype_name not in ast.type_names and gtype_name not in "
                                                         "('GHashTable', 'GByteArray', 'GArray', 'GPtrArray', 'GStrv'), "
                                                         "result.gtype_name == gtype_name and not result.target_fundamental and not result.target_giname)",
         })
inline('giscanner.ast.Type.clone')

def bit(word, k):
    return (word // (2 ** k)) % 2 == 1


PS = "xmlnode.findall('property')"
contract(GD + '_introspect_properties',
         params={'self': 'GDumpParser', 'node': 'Class|Interface', 'xmlnode': 'Element'},
         ghost={'J': 'int'}, props=('C12',),
         modifies=['node.properties[]', 'node.properties'], raises={'KeyError': 'True', 'ValueError': 'True', 'AssertionError': 'True'},
         requires=["node.properties is not xmlnode.findall('property')"],
         loops={1: {'invariant': [
             'len(node.properties) == old(len(node.properties)) + I1',
             'implies(0 <= J and J < I1, prop_matches(node.properties[old(len(node.properties)) + J], %s[J]))' % PS],
             'modifies': ['node.properties[]']}},
         ensures={
             'C12.properties.one_per_reported': 'len(node.properties) == old(len(node.properties)) + len(%s)' % PS,
             'C12.properties.flags_name_default': 'implies(0 <= J and J < len(%s), '
                                                  'prop_matches(node.properties[old(len(node.properties)) + J], %s[J]))' % (PS, PS),
         })


def prop_matches(prop, pspec):
    flags = int(pspec.attrib['flags'])
    return prop.name == pspec.attrib['name'] and prop.readable == bit(flags, 0) and prop.writable == bit(flags, 1) \
        and prop.construct == bit(flags, 2) and prop.construct_only == bit(flags, 3) \
        and prop.default_value == pspec.attrib.get('default-value')


contract('giscanner.ast.Node.create_type', params={'self': 'Node'}, returns='Type', fresh_result=True, trusted=True,
         raises={'AssertionError': 'self.namespace is None'},
         ensures={'names_this_node': "result.target_giname == self.namespace.name + '.' + self.name"})
contract('giscanner.ast.Node.inherit_file_positions', params={'self': 'Node', 'node': 'Node'}, trusted=True,
         modifies=['self.file_positions{}'])

contract(GD + '_find_class_record',
         params={'self': 'GDumpParser', 'cls': 'Class|Interface'}, props=('C12',),
         modifies=['cls.glib_type_struct', 'cls.file_positions{}', '*.is_gtype_struct_for'],
         raises={'AssertionError': 'True'},
         requires=['cls.name is not None', 'cls.namespace is not None'],
         let={'rec': "self._namespace.names.get(cls.name + 'Class') if isinstance(cls, ast.Class) else "
                     "(self._namespace.names.get(cls.name + 'Iface') if self._namespace.names.get(cls.name + 'Iface') "
                     "else self._namespace.names.get(cls.name + 'Interface'))"},
         ensures={
             'C12.class_struct.linked_both_ways': "implies(isinstance(rec, ast.Record) and rec.namespace is not None, "
                                                  "cls.glib_type_struct.target_giname == rec.namespace.name + '.' + rec.name and "
                                                  "rec.is_gtype_struct_for.target_giname == cls.namespace.name + '.' + cls.name)",
             'C12.class_struct.none_without_record': "implies(not isinstance(rec, ast.Record), cls.glib_type_struct is old(cls.glib_type_struct))",
         })

contract(GD + '_add_record_fields',
         params={'self': 'GDumpParser', 'node': 'Class'}, ghost={'J': 'int'}, props=('C12',),
         modifies=['node.ctype', 'node.fields', '*.writable'],
         requires=['node.name is not None'],
         let={'rec': "self._namespace.names.get(node.name)"},
         loops={1: {'invariant': ['node.fields is rec.fields', 'node.ctype == rec.ctype',
                                  'implies(0 <= J and J < I1 and isinstance(node.fields[J], ast.Field), not node.fields[J].writable)'],
                    'modifies': ['*.writable']}},
         ensures={
             'C12.instance.takes_ctype_and_fields': "implies(isinstance(rec, ast.Record), node.ctype == rec.ctype and node.fields is rec.fields)",
             'C12.instance.fields_read_only': "implies(isinstance(rec, ast.Record) and 0 <= J and J < len(node.fields) and "
                                              "isinstance(node.fields[J], ast.Field), not node.fields[J].writable)",
             'C12.instance.untouched_without_record': "implies(not isinstance(rec, ast.Record), node.ctype == old(node.ctype) and node.fields is old(node.fields))",
         })


# ---- interface / prerequisite lists: entries that do not resolve are dropped, the others keep their order -----------------
MT = 'giscanner.maintransformer.MainTransformer.'
contract('giscanner.transformer.Transformer.resolve_type', params={'self': 'Transformer', 'typeval': 'Type'}, returns='bool',
         trusted=True, modifies=['typeval.target_giname', 'typeval.target_fundamental', 'typeval.target_foreign'],
         raises={'ValueError': 'maybe', 'KeyError': 'maybe'},
         note='resolves the type in place (namespace tables not modelled)')
contract(MT + '_resolve_and_filter_type_list', params={'self': 'MainTransformer', 'typelist': 'list[Type]'}, returns='list[Type]',
         props=('C12',), modifies=['*.target_giname', '*.target_fundamental', '*.target_foreign'],
         raises={'ValueError': 'True', 'KeyError': 'True'},
         loops={1: {'index': 'I1', 'modifies': ['new_typelist[]', '*.target_giname', '*.target_fundamental', '*.target_foreign'],
                    'var_types': {'typeval': 'Type', 'resolved': 'bool'},
                    'invariant': ['len(typelist) == old(len(typelist))']}},
         ensures={
             'C12.interfaces.the_given_list_is_not_changed': 'len(typelist) == old(len(typelist))',
             'C12.interfaces.result_is_a_new_list': 'is_fresh(result)',
             'C12.interfaces.every_entry_is_resolved_once_in_order':
                 "all_calls('resolve_type', 'arg_typeval is typelist[local_I1]')",
         },
         note='the loop runs over the given list while entries are removed from a copy: `loop1.iter_unchanged` and the frame '
              'obligations on the list arrays are what forbid filtering the list in place')


# ---- signals reported by the type system ---------------------------------------------------------------------------------
SG = "xmlnode.findall('signal')"


def flag01(el, name):
    return el.attrib.get(name, '0') == '1'


def signal_matches(sig, el):
    """name, run stage and the four flags as reported; one parameter per <param>, the first one being the instance"""
    params = el.findall('param')
    return sig.name == el.attrib['name'] and sig.when == el.attrib.get('when') and sig.no_recurse == flag01(el, 'no-recurse') \
        and sig.detailed == flag01(el, 'detailed') and sig.action == flag01(el, 'action') and sig.no_hooks == flag01(el, 'no-hooks') \
        and len(sig.parameters) == len(params) \
        and (len(params) == 0 or sig.parameters[0].argname == 'object')


contract(GD + '_introspect_signals',
         params={'self': 'GDumpParser', 'node': 'Class|Interface', 'xmlnode': 'Element'},
         ghost={'J': 'int'}, props=('C12',),
         modifies=['node.signals[]', 'node.signals', '*.parent', '*.transfer'],
         raises={'KeyError': 'True', 'ValueError': 'True', 'AssertionError': 'True'},
         loops={1: {'index': 'I1', 'modifies': ['node.signals[]', '*.parent', '*.transfer'],
                    'var_types': {'signal_info': 'Element'},
                    'invariant': [
                        'len(node.signals) == old(len(node.signals)) + I1',
                        'implies(0 <= J and J < I1, is_fresh(node.signals[old(len(node.signals)) + J].parameters))',
                        'implies(0 <= J and J < I1, signal_matches(node.signals[old(len(node.signals)) + J], %s[J]))' % SG]},
                2: {'index': 'I2', 'modifies': ['parameters[]'], 'var_types': {'parameter': 'Element', 'parameters': 'list[Parameter]'},
                    'invariant': ['is_fresh(parameters)', 'len(parameters) == I2',
                                  "implies(I2 >= 1, parameters[0].argname == 'object')"]}},
         ensures={
             'C12.signals.one_per_reported': 'len(node.signals) == old(len(node.signals)) + len(%s)' % SG,
             'C12.signals.name_stage_flags_parameters': 'implies(0 <= J and J < len(%s), '
                                                        'signal_matches(node.signals[old(len(node.signals)) + J], %s[J]))' % (SG, SG),
         })
