"""C02 - defaults for undocumented APIs: transfer defaults (maintransformer)."""
from givc.contracts import contract, inline
from . import schema   # noqa
from . import c00_index  # noqa
from giscanner import ast

MT = 'giscanner.maintransformer.MainTransformer.'

inline('giscanner.ast.Type.clone', 'giscanner.ast.Type.is_equiv', 'giscanner.ast.Type.__eq__', 'giscanner.ast.Type._compare',
       'giscanner.ast.Type.__ne__', 'giscanner.ast.Type.resolved')

contract(MT + '_get_transfer_default_param',
         params={'self': 'MainTransformer', 'parent': 'Node', 'node': 'Parameter'},
         returns='str',
         props=('C02',),
         ensures={
             'C02.param.in_none': "implies(node.direction not in ('out', 'inout'), result == 'none')",
             'C02.param.out_full': "implies(node.direction in ('out', 'inout') and not node.caller_allocates, result == 'full')",
             'C02.param.out_caller_allocates_none': "implies(node.direction in ('out', 'inout') and node.caller_allocates, result == 'none')",
         })

# ------------------------------------------------------------------------------------------------
# frozen oracle, transcribed from docs/website/annotations/giannotations.rst ("Default Annotations")
# and the property statement; NOT re-derived from the code.
BASIC_NAMES = ('gboolean', 'gint8', 'guint8', 'gint16', 'guint16', 'gint32', 'guint32', 'gint64', 'guint64',
               'gchar', 'gshort', 'gushort', 'gint', 'guint', 'glong', 'gulong', 'gsize', 'gssize',
               'gintptr', 'guintptr', 'long long', 'unsigned long long', 'time_t', 'off_t', 'gfloat', 'gdouble',
               'long double', 'gunichar', 'GType', 'dev_t', 'gid_t', 'pid_t', 'socklen_t', 'uid_t')


def denotes(t, names, ctypes=None):
    """Type t denotes one of the fundamental types `names` (resolved by target, else by C spelling)."""
    if t.target_fundamental:
        return t.target_fundamental in names
    if t.target_giname or t.target_foreign:
        return False
    return t.ctype in (names if ctypes is None else ctypes)


def denotes_string(t):
    if t.target_fundamental:
        return t.target_fundamental == 'utf8'
    if t.target_giname or t.target_foreign:
        return False
    return t.ctype == 'gchar*'


def returns_untransferred(t):
    """basic types, const values, void and untyped pointers are not transferred when returned."""
    return denotes(t, BASIC_NAMES) or bool(t.is_const) or denotes(t, ('gpointer', 'none'), ('gpointer', 'void'))


contract(MT + '_get_transfer_default_returntype_basic',
         params={'self': 'MainTransformer', 'typeval': 'Type'},
         returns='str?',
         props=('C02',),
         ensures={
             'C02.retbasic.none': "implies(returns_untransferred(typeval), result == 'none')",
             'C02.retbasic.string_full': "implies(not returns_untransferred(typeval) and denotes_string(typeval), result == 'full')",
             'C02.retbasic.other_undecided': "implies(not returns_untransferred(typeval) and not denotes_string(typeval), result is None)",
         })

# Transformer lookups: assumed (trusted) contracts - results are functions of the type's target name.
T = 'giscanner.transformer.Transformer.'
contract(T + 'lookup_typenode',
         params={'self': 'Transformer', 'typeobj': 'Type'},
         returns='Node?', pure_keys=['typeobj.target_giname'], trusted=True,
         raises={'KeyError': 'maybe'},
         ensures={'no_giname_none': "implies(not typeobj.target_giname, result is None)",
                  'registered': "result is None or result.namespace is not None",
                  'same_as_by_name': "implies(bool(typeobj.target_giname), result is self.lookup_giname(typeobj.target_giname))",
                  'a_namespace_member': "not isinstance(result, (ast.Property, ast.Signal, ast.VFunction))"},
         note='namespace tables are not modelled: result is an uninterpreted function of target_giname')
contract(T + 'lookup_giname',
         params={'self': 'Transformer', 'name': 'str'},
         returns='Node?', pure_keys=['name'], trusted=True, raises={'KeyError': 'maybe'},
         ensures={'registered': "result is None or result.namespace is not None",
                  'a_namespace_member': "not isinstance(result, (ast.Property, ast.Signal, ast.VFunction))"},
         note='same uninterpreted function family as lookup_typenode; properties, signals and virtual functions live inside '
              'classes and are never found by a namespace lookup')
contract(T + 'resolve_aliases',
         params={'self': 'Transformer', 'typenode': 'Node|Type?'},
         returns='Node|Type?', pure_keys=['typenode'], trusted=True,
         ensures={'not_alias': "not isinstance(result, ast.Alias) or isinstance(typenode, ast.Alias)",
                  'identity': "implies(not isinstance(typenode, ast.Alias), result is typenode)",
                  'registered': "implies(isinstance(result, ast.Node) and isinstance(typenode, ast.Alias), result.namespace is not None)",
                  'fundamental_has_ctype': "implies(isinstance(result, ast.Type) and isinstance(typenode, ast.Alias), result.ctype is not None)"},
         note='alias chains are not modelled')

contract(MT + '_get_transfer_default_param', params={}, trusted=True) if False else None

# ------------------------------------------------------------------------------------------------
contract(MT + '_is_gi_subclass', params={'self': 'MainTransformer', 'typeval': 'Type', 'supercls_type': 'Type'},
         returns='bool', pure_keys=['typeval.target_giname', 'supercls_type.target_giname'], trusted=True,
         raises={'AssertionError': 'maybe', 'KeyError': 'maybe'},
         note='class hierarchy walk (recursive); not modelled')


def is_void_or_varargs(t):
    return isinstance(t, ast.Varargs) or denotes(t, ('none',), ('void',))


def spec_return_default(self, parent, node):
    """documented default ownership of a return value; None = no default (annotation required)"""
    t = node.type
    if returns_untransferred(t):
        return 'none'
    if denotes_string(t):
        return 'full'
    if not t.target_giname:
        return None
    target = self._transformer.lookup_typenode(t)
    if isinstance(target, ast.Alias):
        if returns_untransferred(target.target):
            return 'none'
        if denotes_string(target.target):
            return 'full'
        return None
    if isinstance(target, ast.Boxed):
        return 'full'
    if isinstance(target, (ast.Record, ast.Union)) and (target.gtype_name is not None or target.foreign):
        return 'full'
    if isinstance(target, (ast.Enum, ast.Bitfield)):
        return 'none'
    return 'CTOR'


contract(MT + '_get_transfer_default_return',
         params={'self': 'MainTransformer', 'parent': 'Node', 'node': 'Return'},
         returns='str?', props=('C02',),
         modifies=['LOGGER._warning_count'],
         raises={'KeyError': 'True', 'AssertionError': 'True'},
         ensures={
             'count_monotone': 'LOGGER._warning_count >= old(LOGGER._warning_count)',
             'C02.return.documented_default': "implies(spec_return_default(self, parent, node) != 'CTOR', "
                                              "result == spec_return_default(self, parent, node))",
             'C02.return.plain_object_no_default': "implies(spec_return_default(self, parent, node) == 'CTOR' and "
                                                   "not (isinstance(parent, ast.Function) and parent.is_constructor), result is None)",
             'C02.return.constructor_record_full': "implies(spec_return_default(self, parent, node) == 'CTOR' and "
                                                   "isinstance(parent, ast.Function) and parent.is_constructor and "
                                                   "isinstance(self._transformer.lookup_typenode(node.type), (ast.Record, ast.Union)), result == 'full')",
             'C02.return.constructor_object': "implies(spec_return_default(self, parent, node) == 'CTOR' and "
                                              "isinstance(parent, ast.Function) and parent.is_constructor and "
                                              "isinstance(self._transformer.lookup_typenode(node.type), ast.Class), result in ('full', 'none', None))",
         })

contract(MT + '_get_transfer_default',
         params={'self': 'MainTransformer', 'parent': 'Node', 'node': 'Parameter|Return|Field|Property'},
         returns='str?', props=('C02',), requires=['node.type is not None'],
         modifies=['LOGGER._warning_count'],
         raises={'KeyError': 'True', 'AssertionError': 'True'},
         ensures={
             'count_monotone': 'LOGGER._warning_count >= old(LOGGER._warning_count)',
             'quiet_unless_return': 'implies(not isinstance(node, ast.Return), LOGGER._warning_count == old(LOGGER._warning_count))',
             'C02.default.void_and_varargs_none': "implies(is_void_or_varargs(node.type), result == 'none')",
             'C02.default.in_param_none': "implies(not is_void_or_varargs(node.type) and isinstance(node, ast.Parameter) "
                                          "and node.direction not in ('out', 'inout'), result == 'none')",
             'C02.default.out_param_full': "implies(not is_void_or_varargs(node.type) and isinstance(node, ast.Parameter) "
                                           "and node.direction in ('out', 'inout') and not node.caller_allocates, result == 'full')",
             'C02.default.out_caller_allocates_none': "implies(not is_void_or_varargs(node.type) and isinstance(node, ast.Parameter) "
                                                      "and node.direction in ('out', 'inout') and node.caller_allocates, result == 'none')",
             'C02.default.field_property_none': "implies(isinstance(node, (ast.Field, ast.Property)), result == 'none')",
             'C02.default.return_documented': "implies(not is_void_or_varargs(node.type) and isinstance(node, ast.Return) and "
                                              "spec_return_default(self, parent, node) != 'CTOR', "
                                              "result == spec_return_default(self, parent, node))",
         })


# ------------------------------------------------------------------------------------------------
# A trailing GError** parameter is removed and the callable marked as throwing
contract(MT + '_pass3_callable_throws', params={'self': 'MainTransformer', 'node': 'Callable'}, props=('C02',),
         ghost={'J': 'int'},
         let={'n0': 'len(node.parameters)',
              'trailing_gerror': "len(node.parameters) > 0 and node.parameters[-1].type.ctype == 'GError**'"},
         modifies=['node._parameters[]', 'node.throws'],
         ensures={
             'C02.throws.trailing_gerror_removed': 'implies(trailing_gerror, len(node.parameters) == n0 - 1 and node.throws is True)',
             'C02.throws.otherwise_untouched': 'implies(not trailing_gerror, len(node.parameters) == n0 and node.throws == old(node.throws))',
             'C02.throws.other_parameters_kept': 'implies(0 <= J and J < len(node.parameters), node.parameters[J] is old(node.parameters[J]))',
         })


# ------------------------------------------------------------------------------------------------
# callback / user_data / destroy-notify groups and well-known callback types
def target_of(self, p):
    return self._transformer.resolve_aliases(self._transformer.lookup_typenode(p.type))


def is_callback(self, p):
    return isinstance(target_of(self, p), ast.Callback)


def is_destroy(self, p):
    return is_callback(self, p) and target_of(self, p).gi_name == 'GLib.DestroyNotify'


def is_plain_callback(self, p):
    return is_callback(self, p) and target_of(self, p).gi_name != 'GLib.DestroyNotify'


def is_wellknown(self, p):
    return is_callback(self, p) and target_of(self, p).gi_name in ('Gio.AsyncReadyCallback', 'GLib.DestroyNotify')


def looks_like_user_data(p):
    """an untyped pointer whose name ends in `data`"""
    return p.type.is_equiv(ast.TYPE_ANY) and p.argname is not None and p.argname.endswith('data')


PS = 'node.parameters'
CB_FOLDS = {
    # index of the callback the current parameter belongs to (-1: none yet), after the first k parameters
    'CUR': {'type': 'int', 'init': '-1', 'step': '(I2 if is_plain_callback(self, %s[I2]) else ACC)' % PS},
    # fields of the ghost-chosen parameter K after the first k parameters have been looked at
    'DN': {'type': 'str?', 'init': '%s[K].destroy_name' % PS,
           'step': "(%s[I2].argname if is_destroy(self, %s[I2]) and FOLD('CUR', I2) == K else ACC)" % (PS, PS)},
    'SC': {'type': 'str?', 'init': '%s[K].scope' % PS,
           'step': "('notified' if is_destroy(self, %s[I2]) and FOLD('CUR', I2) == K else ACC)" % PS},
    'TR': {'type': 'str?', 'init': '%s[K].transfer' % PS,
           'step': "('none' if is_destroy(self, %s[I2]) and FOLD('CUR', I2) == K else ACC)" % PS},
    'CL': {'type': 'str?', 'init': '%s[K].closure_name' % PS,
           'step': "(%s[I2].argname if not is_callback(self, %s[I2]) and FOLD('CUR', I2) == K and "
                   "looks_like_user_data(%s[I2]) else ACC)" % (PS, PS, PS)},
}
NUL_FOLDS = {
    'NUL': {'type': 'bool', 'init': '%s[K].nullable' % PS,
            'step': "(True if %s[I3].closure_name is not None and node.get_parameter_index(%s[I3].closure_name) == K "
                    "and not %s[K].not_nullable else ACC)" % (PS, PS, PS)},
}
INRANGE = '0 <= K and K < len(%s)' % PS
contract(MT + '_pass3_callable_callbacks', params={'self': 'MainTransformer', 'node': 'Callable'}, props=('C02',),
         ghost={'K': 'int'},
         requires=['all_distinct(node.parameters)'],
         modifies=['*.scope', '*.transfer', '*.destroy_name', '*.closure_name', '*.nullable'],
         raises={'KeyError': 'True', 'ValueError': 'True', 'AssertionError': 'True'},
         loops={
             1: {'index': 'I1', 'modifies': ['*.scope', '*.transfer'],
                 'var_types': {'param': 'Parameter', 'argnode': 'Node|Type?'},
                 'invariant': [
                     "implies(%s and K < I1 and is_wellknown(self, %s[K]), %s[K].scope == 'async' and %s[K].transfer == 'none')" % (INRANGE, PS, PS, PS),
                     "implies(%s and (K >= I1 or not is_wellknown(self, %s[K])), %s[K].scope == old(%s[K].scope) and "
                     "%s[K].transfer == old(%s[K].transfer))" % (INRANGE, PS, PS, PS, PS, PS)]},
             2: {'index': 'I2', 'folds': CB_FOLDS, 'modifies': ['*.scope', '*.transfer', '*.destroy_name', '*.closure_name'],
                 'var_types': {'param': 'Parameter', 'argnode': 'Node|Type?', 'callback_param': 'Parameter?', 'is_destroynotify': 'bool'},
                 'invariant': [
                     "-1 <= FOLD('CUR', I2) and FOLD('CUR', I2) < I2",
                     "callback_param is (%s[FOLD('CUR', I2)] if FOLD('CUR', I2) >= 0 else None)" % PS,
                     "implies(%s, %s[K].destroy_name == FOLD('DN', I2) and %s[K].scope == FOLD('SC', I2) and "
                     "%s[K].transfer == FOLD('TR', I2) and %s[K].closure_name == FOLD('CL', I2))" % (INRANGE, PS, PS, PS, PS)]},
             3: {'index': 'I3', 'folds': NUL_FOLDS, 'modifies': ['*.nullable'],
                 'var_types': {'param': 'Parameter', 'closure_param': 'Parameter', 'idx': 'int'},
                 'invariant': ["implies(%s, %s[K].nullable == FOLD('NUL', I3))" % (INRANGE, PS)]},
         },
         ensures={
             'C02.callbacks.wellknown_types_get_async_scope_first':
                 "implies(%s and not is_plain_callback(self, %s[K]) and FOLD('SC', 0) == FOLD('SC', len(%s)), "
                 "%s[K].scope == ('async' if is_wellknown(self, %s[K]) else old(%s[K].scope)))" % (INRANGE, PS, PS, PS, PS, PS),
             'C02.callbacks.destroy_scope_closure_are_the_group_folds':
                 "implies(%s, %s[K].destroy_name == FOLD('DN', len(%s)) and %s[K].scope == FOLD('SC', len(%s)) and "
                 "%s[K].transfer == FOLD('TR', len(%s)) and %s[K].closure_name == FOLD('CL', len(%s)))"
                 % (INRANGE, PS, PS, PS, PS, PS, PS, PS, PS),
             'C02.callbacks.user_data_is_nullable': "implies(%s, %s[K].nullable == FOLD('NUL', len(%s)))" % (INRANGE, PS, PS),
         },
         note='DN/SC/TR/CL: destroy name, scope, transfer and closure name of parameter K as a left fold over the parameter '
              'list: a destroy notify sets destroy/notified/none on the most recent plain callback before it, an untyped '
              '`...data` pointer sets its closure; NUL: a parameter named as a closure becomes nullable unless (not nullable)')


# ------------------------------------------------------------------------------------------------
# C type spellings -> canonical introspection types (the table ast.type_names is the real dictionary, read at verification time)
TR = 'giscanner.transformer.Transformer.'
TABLE = 'ast.type_names'


def table_entry(ctype):
    return ast.type_names.get(ctype)


contract(TR + '_canonicalize_ctype', params={'self': 'Transformer', 'ctype': 'str'}, returns='str', props=('C02',),
         pure_keys=['ctype'],
         ensures={
             'C02.canon.known_spelling_maps_to_its_fundamental':
                 "implies(table_entry(ctype) is not None, result == table_entry(ctype).target_fundamental)",
             'C02.canon.unknown_non_pointer_is_kept': "implies(table_entry(ctype) is None and not ctype.endswith('*'), result == ctype)",
             'C02.canon.pointers_are_canonicalised_under_the_star':
                 "implies(table_entry(ctype) is None and ctype.endswith('*'), result == self._canonicalize_ctype(ctype[:-1]) + '*')",
         },
         note='recursive: the call on the pointee goes by this contract')
contract(TR + '_create_bare_container_type', params={'self': 'Transformer', 'base': 'str', 'ctype': 'str?', 'is_const': 'bool|int',
                                                     'complete_ctype': 'str?'}, returns='Type?', fresh_result=True, trusted=True,
         ensures={'keeps_ctype': 'implies(result is not None, result.ctype == ctype and result.complete_ctype == complete_ctype)',
                  'a_container': 'result is None or isinstance(result, (ast.Array, ast.List, ast.Map))'},
         note='GList / GSList / GHashTable / GArray ... recognised by name')

CANON = 'self._canonicalize_ctype(ctype)'
contract(TR + 'create_type_from_ctype_string',
         params={'self': 'Transformer', 'ctype': 'str', 'is_const': 'bool|int', 'is_parameter': 'bool', 'is_return': 'bool',
                 'complete_ctype': 'str?'}, returns='Type', props=('C02',),
         let={'canon': CANON, 'base': "('gboolean' if %s in ('_Bool', 'bool') else %s.replace('*', ''))" % (CANON, CANON),
              'strv': "(is_return and %s == 'utf8*') or %s.replace('*', '') == 'GStrv'" % (CANON, CANON)},
         ensures={
             'C02.ctype.original_spelling_is_kept_as_c_type': 'result.ctype == ctype and result.complete_ctype == complete_ctype',
             'C02.ctype.bool_is_gboolean': "implies(canon in ('_Bool', 'bool'), result.target_fundamental == 'gboolean')",
             'C02.ctype.returned_string_vector_is_an_array_of_utf8':
                 "implies(strv, isinstance(result, ast.Array) and result.element_type.target_fundamental == 'utf8' and "
                 "result.element_type.ctype is None)",
             'C02.ctype.table_types_become_their_fundamental':
                 "implies(not strv and table_entry(base) is not None, not isinstance(result, ast.Array) and "
                 "result.target_fundamental == table_entry(base).target_fundamental)",
             'C02.ctype.unknown_types_stay_unresolved':
                 "implies(not strv and table_entry(base) is None and not isinstance(result, (ast.Array, ast.List, ast.Map)), "
                 "result.target_fundamental is None and result.target_giname is None)",
         })



# ---- from the C lexer's type to the introspection type: spelling, complete spelling, const-ness of the pointee --------------------
from giscanner import sourcescanner as _ss   # noqa
for _n in ('_create_source_type', '_create_complete_source_type'):
    contract(TR + _n, params={'self': 'Transformer', 'source_type': 'SourceType', 'is_parameter': 'bool'}, returns='str',
             pure_keys=['self', 'source_type._stype', 'is_parameter'], trusted=True,
             note='C spelling of a lexer type (recursive descent over pointer / array levels); assumed')


def pointee_is_const(source_type):
    """the C type is a pointer whose POINTEE carries the const qualifier (`const char *`, not `char * const`, not `const T **`)"""
    return source_type._stype.type == _ss.CTYPE_POINTER and source_type._stype.base_type is not None and \
        (source_type._stype.base_type.type_qualifier // _ss.TYPE_QUALIFIER_CONST) % 2 == 1


contract(TR + '_create_type_from_base',
         params={'self': 'Transformer', 'source_type': 'SourceType', 'is_parameter': 'bool', 'is_return': 'bool'},
         returns='Type', props=('C02',), fresh_result=True,
         raises={'AttributeError': 'source_type._stype.type == _ss.CTYPE_POINTER and source_type._stype.base_type is None'},
         ensures={
             'has_ctype': 'result.ctype is not None',
             'C02.base.constness_is_that_of_the_pointee':
                 "all_calls('create_type_from_ctype_string', 'bool(arg_is_const) == pointee_is_const(source_type) and "
                 "arg_is_parameter == is_parameter and arg_is_return == is_return')",
             'C02.base.spellings_come_from_the_lexer_type':
                 "all_calls('create_type_from_ctype_string', 'arg_ctype == self._create_source_type(source_type, is_parameter) and "
                 "arg_complete_ctype == self._create_complete_source_type(source_type, is_parameter)')",
         },
         note='is_const feeds the transfer defaults (a returned `const char *` is transfer none); it is read from the qualifier bits of '
              'the pointee, never from the spelled type. fresh_result (the returned Type is a new object, as '
              'create_type_from_ctype_string builds or clones one) is assumed at call sites, not proved')
