"""C02 - defaults for undocumented APIs: transfer defaults (maintransformer)."""
from givc.contracts import contract, inline
from . import schema   # noqa
from giscanner import ast

MT = 'giscanner.maintransformer.MainTransformer.'

inline('giscanner.ast.Type.is_equiv', 'giscanner.ast.Type.__eq__', 'giscanner.ast.Type._compare',
       'giscanner.ast.Type.__ne__', 'giscanner.ast.Type.resolved')

contract(MT + '_get_transfer_default_param',
         params={'self': 'MainTransformer', 'parent': 'Node', 'node': 'Parameter'},
         returns='str',
         props=('C02',),
         ensures={
             'C02.param.in_none': "implies(node.direction not in ('out', 'inout'), result == 'none')",
             'C02.param.out_full': "implies(node.direction in ('out', 'inout') and not node.caller_allocates, result == 'full')",
             'C02.param.out_caller_allocates_none': "implies(node.direction in ('out', 'inout') and node.caller_allocates, result == 'none')",
         })

# ------------------------------------------------------------------------------------------------
# frozen oracle, transcribed from docs/website/annotations/giannotations.rst ("Default Annotations")
# and the property statement; NOT re-derived from the code.
BASIC_NAMES = ('gboolean', 'gint8', 'guint8', 'gint16', 'guint16', 'gint32', 'guint32', 'gint64', 'guint64',
               'gchar', 'gshort', 'gushort', 'gint', 'guint', 'glong', 'gulong', 'gsize', 'gssize',
               'gintptr', 'guintptr', 'long long', 'unsigned long long', 'time_t', 'off_t', 'gfloat', 'gdouble',
               'long double', 'gunichar', 'GType', 'dev_t', 'gid_t', 'pid_t', 'socklen_t', 'uid_t')


def denotes(t, names, ctypes=None):
    """Type t denotes one of the fundamental types `names` (resolved by target, else by C spelling)."""
    if t.target_fundamental:
        return t.target_fundamental in names
    if t.target_giname or t.target_foreign:
        return False
    return t.ctype in (names if ctypes is None else ctypes)


def denotes_string(t):
    if t.target_fundamental:
        return t.target_fundamental == 'utf8'
    if t.target_giname or t.target_foreign:
        return False
    return t.ctype == 'gchar*'


def returns_untransferred(t):
    """basic types, const values, void and untyped pointers are not transferred when returned."""
    return denotes(t, BASIC_NAMES) or bool(t.is_const) or denotes(t, ('gpointer', 'none'), ('gpointer', 'void'))


contract(MT + '_get_transfer_default_returntype_basic',
         params={'self': 'MainTransformer', 'typeval': 'Type'},
         returns='str?',
         props=('C02',),
         ensures={
             'C02.retbasic.none': "implies(returns_untransferred(typeval), result == 'none')",
             'C02.retbasic.string_full': "implies(not returns_untransferred(typeval) and denotes_string(typeval), result == 'full')",
             'C02.retbasic.other_undecided': "implies(not returns_untransferred(typeval) and not denotes_string(typeval), result is None)",
         })

# Transformer lookups: assumed (trusted) contracts - results are functions of the type's target name.
T = 'giscanner.transformer.Transformer.'
contract(T + 'lookup_typenode',
         params={'self': 'Transformer', 'typeobj': 'Type'},
         returns='Node?', pure_keys=['typeobj.target_giname'], trusted=True,
         raises={'KeyError': 'maybe'},
         ensures={'no_giname_none': "implies(not typeobj.target_giname, result is None)",
                  'registered': "result is None or result.namespace is not None",
                  'same_as_by_name': "implies(bool(typeobj.target_giname), result is self.lookup_giname(typeobj.target_giname))"},
         note='namespace tables are not modelled: result is an uninterpreted function of target_giname')
contract(T + 'lookup_giname',
         params={'self': 'Transformer', 'name': 'str'},
         returns='Node?', pure_keys=['name'], trusted=True, raises={'KeyError': 'maybe'},
         ensures={'registered': "result is None or result.namespace is not None"},
         note='same uninterpreted function family as lookup_typenode')
contract(T + 'resolve_aliases',
         params={'self': 'Transformer', 'typenode': 'Node|Type?'},
         returns='Node|Type?', pure_keys=['typenode'], trusted=True,
         ensures={'not_alias': "not isinstance(result, ast.Alias) or isinstance(typenode, ast.Alias)",
                  'identity': "implies(not isinstance(typenode, ast.Alias), result is typenode)",
                  'registered': "implies(isinstance(result, ast.Node) and isinstance(typenode, ast.Alias), result.namespace is not None)",
                  'fundamental_has_ctype': "implies(isinstance(result, ast.Type) and isinstance(typenode, ast.Alias), result.ctype is not None)"},
         note='alias chains are not modelled')

contract(MT + '_get_transfer_default_param', params={}, trusted=True) if False else None

# ------------------------------------------------------------------------------------------------
contract(MT + '_is_gi_subclass', params={'self': 'MainTransformer', 'typeval': 'Type', 'supercls_type': 'Type'},
         returns='bool', pure_keys=['typeval.target_giname', 'supercls_type.target_giname'], trusted=True,
         raises={'AssertionError': 'maybe', 'KeyError': 'maybe'},
         note='class hierarchy walk (recursive); not modelled')


def is_void_or_varargs(t):
    return isinstance(t, ast.Varargs) or denotes(t, ('none',), ('void',))


def spec_return_default(self, parent, node):
    """documented default ownership of a return value; None = no default (annotation required)"""
    t = node.type
    if returns_untransferred(t):
        return 'none'
    if denotes_string(t):
        return 'full'
    if not t.target_giname:
        return None
    target = self._transformer.lookup_typenode(t)
    if isinstance(target, ast.Alias):
        if returns_untransferred(target.target):
            return 'none'
        if denotes_string(target.target):
            return 'full'
        return None
    if isinstance(target, ast.Boxed):
        return 'full'
    if isinstance(target, (ast.Record, ast.Union)) and (target.gtype_name is not None or target.foreign):
        return 'full'
    if isinstance(target, (ast.Enum, ast.Bitfield)):
        return 'none'
    return 'CTOR'


contract(MT + '_get_transfer_default_return',
         params={'self': 'MainTransformer', 'parent': 'Node', 'node': 'Return'},
         returns='str?', props=('C02',),
         modifies=['LOGGER._warning_count'],
         raises={'KeyError': 'True', 'AssertionError': 'True'},
         ensures={
             'count_monotone': 'LOGGER._warning_count >= old(LOGGER._warning_count)',
             'C02.return.documented_default': "implies(spec_return_default(self, parent, node) != 'CTOR', "
                                              "result == spec_return_default(self, parent, node))",
             'C02.return.plain_object_no_default': "implies(spec_return_default(self, parent, node) == 'CTOR' and "
                                                   "not (isinstance(parent, ast.Function) and parent.is_constructor), result is None)",
             'C02.return.constructor_record_full': "implies(spec_return_default(self, parent, node) == 'CTOR' and "
                                                   "isinstance(parent, ast.Function) and parent.is_constructor and "
                                                   "isinstance(self._transformer.lookup_typenode(node.type), (ast.Record, ast.Union)), result == 'full')",
             'C02.return.constructor_object': "implies(spec_return_default(self, parent, node) == 'CTOR' and "
                                              "isinstance(parent, ast.Function) and parent.is_constructor and "
                                              "isinstance(self._transformer.lookup_typenode(node.type), ast.Class), result in ('full', 'none', None))",
         })

contract(MT + '_get_transfer_default',
         params={'self': 'MainTransformer', 'parent': 'Node', 'node': 'Parameter|Return|Field|Property'},
         returns='str?', props=('C02',), requires=['node.type is not None'],
         modifies=['LOGGER._warning_count'],
         raises={'KeyError': 'True', 'AssertionError': 'True'},
         ensures={
             'count_monotone': 'LOGGER._warning_count >= old(LOGGER._warning_count)',
             'quiet_unless_return': 'implies(not isinstance(node, ast.Return), LOGGER._warning_count == old(LOGGER._warning_count))',
             'C02.default.void_and_varargs_none': "implies(is_void_or_varargs(node.type), result == 'none')",
             'C02.default.in_param_none': "implies(not is_void_or_varargs(node.type) and isinstance(node, ast.Parameter) "
                                          "and node.direction not in ('out', 'inout'), result == 'none')",
             'C02.default.out_param_full': "implies(not is_void_or_varargs(node.type) and isinstance(node, ast.Parameter) "
                                           "and node.direction in ('out', 'inout') and not node.caller_allocates, result == 'full')",
             'C02.default.out_caller_allocates_none': "implies(not is_void_or_varargs(node.type) and isinstance(node, ast.Parameter) "
                                                      "and node.direction in ('out', 'inout') and node.caller_allocates, result == 'none')",
             'C02.default.field_property_none': "implies(isinstance(node, (ast.Field, ast.Property)), result == 'none')",
             'C02.default.return_documented': "implies(not is_void_or_varargs(node.type) and isinstance(node, ast.Return) and "
                                              "spec_return_default(self, parent, node) != 'CTOR', "
                                              "result == spec_return_default(self, parent, node))",
         })
