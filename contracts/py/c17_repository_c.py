"""C17 - requiring a namespace loads the right typelib version (girepository/girepository.c, version election)."""
from givc.contracts import contract
from givc.model import UNIVERSE, schema as _schema, add_spec_namespace as _asn
from givc.cruntime import Cell, __elemref, __ptrint
from . import schema   # noqa
from . import c08_offsets_c, c14_typelib_lookup_c   # noqa
from .c14_typelib_lookup_c import CSTR, GITypelib, Header
import sys as _sys

CF = 'girepository/girepository.c'


class Candidate(object): pass        # struct NamespaceVersionCandidadate
class GMappedFile(object): pass
NamespaceVersionCandidadate = Candidate


UNIVERSE.register(Candidate)
UNIVERSE.register(GMappedFile)
_asn(_sys.modules[__name__])
_schema(Candidate, mfile='GMappedFile?', path_index='int', path='any', version='any')
_schema(Header, nsversion='int')


def MAJOR(v):
    """major number of a version string (as parsed by parse_version)"""


def MINOR(v):
    """minor number of a version string"""


contract('contracts.py.c17_repository_c.MAJOR', params={'v': 'str'}, returns='int', pure_keys=['v'], trusted=True)
contract('contracts.py.c17_repository_c.MINOR', params={'v': 'str'}, returns='int', pure_keys=['v'], trusted=True)
contract('c:parse_version', params={'version': 'any', 'major': 'Cell', 'minor': 'Cell'}, returns='int', trusted=True,
         modifies=['major.val', 'minor.val'],
         ensures={'numbers': 'implies(result != 0, major.val == MAJOR(CSTR(version)) and minor.val == MINOR(CSTR(version)))'},
         note='strtol/strchr scanning of "major.minor": bounded stand-in only (see evidence), numeric by construction')


def version_cmp(a, b):
    """numeric (major, minor) order: 1.10 is newer than 1.9"""
    if MAJOR(a) != MAJOR(b):
        return 1 if MAJOR(a) > MAJOR(b) else -1
    if MINOR(a) != MINOR(b):
        return 1 if MINOR(a) > MINOR(b) else -1
    return 0


contract('c:compare_version', cfile=CF, params={'v1': 'any', 'v2': 'any'}, returns='int', props=('C17',),
         raises={'AssertionError': 'True'},
         ensures={'C17.compare_version.numeric_major_minor': 'result == version_cmp(CSTR(v1), CSTR(v2))'})


def cand_cmp(c1, c2):
    """election order: higher version first; among equal versions the earlier search-path directory first"""
    v = version_cmp(CSTR(c1.version), CSTR(c2.version))
    if v != 0:
        return -v
    if c1.path_index == c2.path_index:
        return 0
    return 1 if c1.path_index > c2.path_index else -1


contract('c:compare_candidate_reverse', cfile=CF, params={'c1': 'Candidate', 'c2': 'Candidate'}, returns='int', props=('C17',),
         raises={'AssertionError': 'True'},
         ensures={'C17.candidate_order.definition': 'result == cand_cmp(c1, c2)'})


# ---- order lemmas about the election order (needed for "head of the sorted list is a maximum") ----------------
def lemma_antisymmetric(a, b):
    return cand_cmp(a, b) + cand_cmp(b, a)


def lemma_transitive(a, b, c):
    return (cand_cmp(a, b) <= 0 and cand_cmp(b, c) <= 0, cand_cmp(a, c))


def lemma_reflexive(a):
    return cand_cmp(a, a)


L = 'contracts.py.c17_repository_c.'
contract(L + 'lemma_antisymmetric', params={'a': 'Candidate', 'b': 'Candidate'}, returns='int', props=('C17',),
         ensures={'C17.candidate_order.antisymmetric': 'result == 0'})
contract(L + 'lemma_reflexive', params={'a': 'Candidate'}, returns='int', props=('C17',),
         ensures={'C17.candidate_order.reflexive': 'result == 0'})
contract(L + 'lemma_transitive', params={'a': 'Candidate', 'b': 'Candidate', 'c': 'Candidate'}, returns='any', props=('C17',),
         ensures={'C17.candidate_order.transitive': 'implies(cand_cmp(a, b) <= 0 and cand_cmp(b, c) <= 0, cand_cmp(a, c) <= 0)',
                  'C17.candidate_order.ties_only_for_same_version_and_directory':
                      'implies(cand_cmp(a, b) == 0, MAJOR(CSTR(a.version)) == MAJOR(CSTR(b.version)) and '
                      'MINOR(CSTR(a.version)) == MINOR(CSTR(b.version)) and a.path_index == b.path_index)'})

# ---- version conflict ----------------------------------------------------------------------------------------
contract('c:check_version_conflict', cfile=CF,
         params={'typelib': 'GITypelib', 'namespace': 'any', 'expected_version': 'any', 'version_conflict': 'Cell?'},
         returns='GITypelib?', props=('C17',), modifies=['version_conflict.val'],
         requires=['isinstance(typelib.data, Header)'], raises={'AssertionError': 'True'},
         let={'loaded': 'CSTR(__elemref(typelib.data, typelib.data.nsversion))'},
         ensures={
             'C17.conflict.no_version_requested': 'implies(expected_version is None, result is typelib)',
             'C17.conflict.same_version_returned': 'implies(expected_version is not None and CSTR(expected_version) == loaded, result is typelib)',
             'C17.conflict.other_version_refused': 'implies(expected_version is not None and CSTR(expected_version) != loaded, result is None)',
             'C17.conflict.reports_loaded_version': 'implies(version_conflict is not None, implies(result is None, '
                                                    'CSTR(version_conflict.val) == loaded) and implies(result is not None, version_conflict.val is None))',
         })


# ---- GLib (assumed contracts) ----------------------------------------------------------------------------------
def EXISTS(path):
    """a mappable file exists at that path"""


def FILE(path):
    """the mapped file at that path"""


def PATH(directory, fname):
    """g_build_filename(directory, fname)"""


contract(L + 'EXISTS', params={'path': 'any'}, returns='bool', pure_keys=['path'], trusted=True)
contract(L + 'FILE', params={'path': 'any'}, returns='GMappedFile', pure_keys=['path'], trusted=True)
contract(L + 'PATH', params={'directory': 'any', 'fname': 'any'}, returns='any', pure_keys=['directory', 'fname'], trusted=True)
contract('c:g_str_equal', params={'a': 'any', 'b': 'any'}, returns='int', trusted=True,
         ensures={'equal': '(result != 0) == (CSTR(a) == CSTR(b))'})
contract('c:g_strdup_printf', params={'format': 'any', 'a1': 'any', 'a2': 'any', 'a3': 'any'}, returns='any',
         pure_keys=['format', 'a1', 'a2', 'a3'], trusted=True)
contract('c:g_build_filename', params={'directory': 'any', 'fname': 'any', 'end': 'any'}, returns='any', trusted=True,
         ensures={'is_path': 'result is PATH(directory, fname)'})
contract('c:g_mapped_file_new', params={'filename': 'any', 'writable': 'int', 'error': 'Cell'}, returns='GMappedFile?', trusted=True,
         modifies=['error.val'],
         ensures={'maps_existing': 'implies(EXISTS(filename), result is FILE(filename) and error.val is None)',
                  'fails_otherwise': 'implies(not EXISTS(filename), result is None and error.val is not None)'})
contract('c:g_clear_error', params={'err': 'Cell'}, trusted=True, modifies=['err.val'], ensures={'cleared': 'err.val is None'})
contract('c:g_free', params={'p': 'any'}, trusted=True)

FNAME = "c_g_strdup_printf('%s-%s.typelib', namespace, version, None)"
SPECIAL = "CSTR(namespace) == CSTR('GIRepository') and CSTR(version) != CSTR('2.0')"

contract('c:find_namespace_version', cfile=CF,
         params={'namespace': 'any', 'version': 'any', 'search_path': 'list', 'path_ret': 'Cell'},
         returns='GMappedFile?', ghost={'J': 'int'}, props=('C17',),
         modifies=['path_ret.val', '*.val'],
         loops={1: {'invariant': ['mfile is None', 'error.val is None', 'error is not path_ret',
                                  'implies(0 <= J and J < I1, not EXISTS(PATH(search_path[J], fname)))',
                                  'fname is %s' % FNAME],
                    'modifies': ['*.val'], 'var_types': {'mfile': 'GMappedFile?', 'path': 'any'}}},
         ensures={
             'C17.exact_version.first_directory_wins': "implies(not (%s) and 0 <= J and J < len(search_path) and "
                                                       "EXISTS(PATH(search_path[J], %s)) and "
                                                       "forall_range(0, J, lambda k: not EXISTS(PATH(search_path[k], %s))), "
                                                       "result is FILE(PATH(search_path[J], %s)) and path_ret.val is PATH(search_path[J], %s))"
                                                       % (SPECIAL, FNAME, FNAME, FNAME, FNAME),
             'C17.exact_version.not_found_is_null': "implies(not (%s) and result is None and 0 <= J and J < len(search_path), "
                                                    "not EXISTS(PATH(search_path[J], %s)))" % (SPECIAL, FNAME),
             'C17.exact_version.found_is_that_file': "implies(result is not None, result is FILE(path_ret.val))",
         })


def CANDIDATES(namespace, search_path):
    """the candidates enumerate_namespace_versions finds (one per version, first directory wins)"""


contract(L + 'CANDIDATES', params={'namespace': 'any', 'search_path': 'list'}, returns='list[Candidate]',
         pure_keys=['namespace', 'search_path'], trusted=True)
# ---- directory enumeration: which files become candidates ---------------------------------------------------------------
class GDir(object): pass


UNIVERSE.register(GDir)
_asn(_sys.modules[__name__])
for _n, _p in (('g_hash_table_new', {'hash_func': 'any', 'key_equal_func': 'any'}), ('g_hash_table_lookup', {'table': 'any', 'key': 'any'}),
               ('g_hash_table_add', {'table': 'any', 'key': 'any'}), ('g_hash_table_destroy', {'table': 'any'}),
               ('g_dir_close', {'dir': 'any'}), ('g_str_hash', {'v': 'any'})):
    contract('c:' + _n, params=_p, returns='any', trusted=True)
contract('c:g_dir_open', params={'path': 'any', 'flags': 'int', 'error': 'any'}, returns='GDir?', fresh_result=True, trusted=True,
         note='NULL when the directory cannot be opened')
contract('c:g_dir_read_name', params={'dir': 'GDir'}, returns='any', trusted=True,
         note='the next entry name of the directory, NULL at the end (the set and order of entries are not modelled)')
contract('c:g_str_has_suffix', params={'str': 'any', 'suffix': 'any'}, returns='int', trusted=True,
         ensures={'suffix': '(result != 0) == CSTR(str).endswith(CSTR(suffix))'})
contract('c:g_str_has_prefix', params={'str': 'any', 'prefix': 'any'}, returns='int', trusted=True,
         ensures={'prefix': '(result != 0) == CSTR(str).startswith(CSTR(prefix))'})

contract('c:strrchr', params={'s': 'any', 'c': 'int'}, returns='int', pure_keys=['s', 'c'], trusted=True,
         note='address of the last occurrence (an integer; only used in pointer arithmetic handed to g_strndup)')
contract('c:strchr', params={'s': 'any', 'c': 'int'}, returns='int', pure_keys=['s', 'c'], trusted=True)
contract('c:strncmp', params={'a': 'any', 'b': 'any', 'n': 'int'}, returns='int', pure_keys=['a', 'b', 'n'], trusted=True)
contract('c:strlen', params={'s': 'any'}, returns='int', pure_keys=['s'], trusted=True, ensures={'len': 'result == len(CSTR(s))'})
contract('c:g_strndup', params={'str': 'any', 'n': 'int'}, returns='any', pure_keys=['str', 'n'], trusted=True)
contract('c:g_slist_prepend', params={'list': 'any', 'data': 'any'}, returns='any', trusted=True,
         note='a GSList with data in front (list structure not needed for the clauses below)')
from givc.contracts import REGISTRY as _R17   # noqa
_R17.get('c:g_strdup_printf').ensures['dash'] = "implies(format == '%s-', CSTR(result) == CSTR(a1) + CSTR('-'))"
_R17.get('c:g_strdup_printf').ensures['typelib'] = "implies(format == '%s.typelib', CSTR(result) == CSTR(a1) + '.typelib')"

CAND_SITE = ("CSTR(local_entry).startswith(CSTR(namespace) + CSTR('-')) and CSTR(local_entry).endswith(CSTR('.typelib'))")
contract('c:enumerate_namespace_versions', cfile=CF, params={'namespace': 'any', 'search_path': 'list'}, returns='any',
         props=('C17',), modifies=[],
         loops={1: {'index': 'I1', 'modifies': ['error.val'],
                    'var_types': {'index': 'int', 'dirname': 'any', 'dir': 'GDir?', 'entry': 'any', 'candidates': 'any'},
                    'invariant': ['index >= 0']},
                2: {'modifies': ['error.val'],
                    'var_types': {'entry': 'any', 'candidates': 'any', 'mfile': 'GMappedFile?', 'path': 'any', 'version': 'any',
                                  'candidate': 'Candidate', 'last_dash': 'int', 'name_end': 'int'},
                    'invariant': ['index >= 0']}},
         ensures={
             'C17.enumerate.only_files_named_namespace_dash_version_typelib_are_candidates':
                 "all_calls('c:g_slist_prepend', '%s')" % CAND_SITE.replace("'", "\\'"),
             'C17.enumerate.only_such_files_are_mapped':
                 "all_calls('c:g_mapped_file_new', '%s')" % CAND_SITE.replace("'", "\\'"),
             'C17.enumerate.candidate_is_the_mapped_file_of_that_directory_entry':
                 "all_calls('c:g_slist_prepend', 'arg_data is local_candidate and local_path is PATH(local_dirname, local_entry) and "
                 "local_mfile is FILE(local_path)')",
         },
         assume_ensures={'is_candidates': 'implies(len(CANDIDATES(namespace, search_path)) > 0, result is CANDIDATES(namespace, search_path))',
                         'null_when_none': 'implies(len(CANDIDATES(namespace, search_path)) == 0, result is None)'},
         note='which directory entries become candidates is proved (call discipline); the resulting GSList is only named '
              '(CANDIDATES): the set and order of directory entries, the version text cut out by strrchr / g_strndup and the '
              'hash table of versions already seen are not modelled')
contract('c:g_slist_sort', params={'list': 'list[Candidate]', 'compare_func': 'any'}, returns='list[Candidate]', trusted=True,
         fresh_result=False,
         ensures={'same_length': 'len(result) == len(list)',
                  'head_is_minimal': 'forall_range(0, len(list), lambda k: cand_cmp(result[0], list[k]) <= 0)',
                  'head_is_an_element': 'len(list) == 0 or exists_in(result[0], list)'},
         note='g_slist_sort with compare_candidate_reverse: a sorted permutation (only the head facts are used)')
contract('c:g_slist_delete_link', params={'list': 'list[Candidate]', 'link': 'any'}, returns='list[Candidate]?', trusted=True)
contract('c:g_slist_foreach', params={'list': 'any', 'func': 'any', 'user_data': 'any'}, trusted=True)
contract('c:g_slist_free', params={'list': 'any'}, trusted=True)


def exists_in(x, lst):
    return True


contract('c:find_namespace_latest', cfile=CF,
         params={'namespace': 'any', 'search_path': 'list', 'version_ret': 'Cell', 'path_ret': 'Cell'},
         returns='GMappedFile?', ghost={'J': 'int'}, props=('C17',),
         requires=['version_ret is not path_ret'],
         modifies=['version_ret.val', 'path_ret.val'],
         let={'cands': 'CANDIDATES(namespace, search_path)'},
         ensures={
             'C17.latest.none_available': "implies(len(cands) == 0, result is None and version_ret.val is None and path_ret.val is None)",
             'C17.latest.highest_version_earliest_directory': "implies(0 <= J and J < len(cands), "
                                                              "elected_le(version_ret.val, path_ret.val, result, cands[J]))",
         })


def elected_le(version, path, mfile, other):
    """the elected (version, path, file) triple belongs to a candidate that precedes-or-ties `other` in election order"""
    return version_cmp(CSTR(version), CSTR(other.version)) >= 0


# ---- dependencies: every namespace-version recorded in a typelib is required in exactly that version ----------------------------------
class GIRepository(object): pass
UNIVERSE.register(GIRepository)
_schema(GIRepository, required='dict')          # ghost: namespace (as handed to g_irepository_require) -> version it is loaded in


def FIRST_NULL(strv):
    """index of the terminating NULL of a string vector"""


def DEP_NS(dep):
    """the namespace part of 'Namespace-Version' as load_dependencies_recurse cuts it: everything before the LAST dash"""
    return c_g_strndup(dep, c_strrchr(dep, 45) - dep)


def DEP_VERSION(dep):
    """the version part: the text after the last dash (an address inside dep)"""
    return c_strrchr(dep, 45) + 1


contract('contracts.py.c17_repository_c.FIRST_NULL', params={'strv': 'list'}, returns='int', pure_keys=['strv'], trusted=True)
contract('c:get_typelib_dependencies', params={'typelib': 'GITypelib'}, returns='list?', pure_keys=['typelib'], trusted=True,
         ghost={'G': 'int'},
         ensures={'null_terminated': 'result is None or (0 <= FIRST_NULL(result) and FIRST_NULL(result) < len(result) and '
                                     'result[FIRST_NULL(result)] is None)',
                  'strings_before': 'implies(result is not None and 0 <= G and G < FIRST_NULL(result), result[G] is not None)'},
         note='g_strsplit of the dependencies string of the header: a NULL-terminated vector')
contract('c:g_strfreev', params={'v': 'any'}, trusted=True)
contract('c:g_irepository_require', params={'repository': 'GIRepository', 'namespace': 'any', 'version': 'any', 'flags': 'int',
                                            'error': 'any'}, returns='any', trusted=True, ghost={'G': 'any'},
         modifies=['repository.required{}'],
         ensures={'loaded_in_that_version': 'implies(result is not None, repository.required.get(namespace) == version)',
                  'a_loaded_namespace_keeps_its_version':
                      'implies(old(repository.required.get(G)) is not None, repository.required.get(G) == old(repository.required.get(G)))'},
         note='assumed (the function itself, with search path, version election and conflict check, is covered piecewise by the other '
              'C17 contracts): on success the namespace is loaded in the requested version; a namespace once loaded keeps its version')
contract('c:load_dependencies_recurse', cfile=CF, params={'repository': 'GIRepository', 'typelib': 'GITypelib', 'error': 'any'},
         returns='int', ghost={'K': 'int'}, props=('C17',), modifies=['repository.required{}'],
         ghost_args={'c:get_typelib_dependencies': [{'G': 'K'}],
                     'c:g_irepository_require': [{'G': 'DEP_NS(caller_dependencies[K])'}]},
         loops={1: {'modifies': ['repository.required{}'],
                    'var_types': {'i': 'int', 'dependency': 'any', 'last_dash': 'int', 'dependency_namespace': 'any',
                                  'dependency_version': 'int'},
                    'invariant': ['0 <= i and i <= FIRST_NULL(dependencies)',
                                  'implies(0 <= K and K < i, dependencies[K] is not None)',
                                  'implies(0 <= K and K < i, repository.required.get(DEP_NS(dependencies[K])) == DEP_VERSION(dependencies[K]))'],
                    'post': ['dependencies[i] is None',
                             'implies(0 <= K and K < i, dependencies[K] is not None and '
                             'repository.required.get(DEP_NS(dependencies[K])) == DEP_VERSION(dependencies[K]))']}},
         ensures={'C17.dependencies.boolean_result': 'result == 0 or result == 1'},
         note='loop1.post0-1 (the loop is left only at the terminating NULL; an entry that fails returns FALSE at once): each `Namespace-Version` entry of the typelib went through g_irepository_require with exactly that '
              'namespace and version (so that an already loaded namespace is checked for a version conflict)')
contract('c:get_registered', params={'repository': 'GIRepository', 'namespace': 'any', 'version': 'any'}, returns='any', trusted=True,
         note='lookup in the tables of loaded typelibs (not modelled: nothing is assumed about its result)')
