"""C14 - every typelib entry can be found by name, GType name and error domain (girepository/gitypelib.c)."""
from givc.contracts import contract
from givc.model import UNIVERSE, schema as _schema, add_spec_namespace as _asn
from givc.cruntime import __elemref
from . import schema   # noqa
from . import c08_offsets_c   # noqa  (givc_* contracts)
import sys as _sys

CF = 'girepository/gitypelib.c'


class GITypelib(object): pass
class Buffer(object): pass
class Header(Buffer): pass
class DirEntry(Buffer): pass
class Section(Buffer): pass
class RegisteredTypeBlob(Buffer): pass
class EnumBlob(Buffer): pass


for _c in (GITypelib, Buffer, Header, DirEntry, Section, RegisteredTypeBlob, EnumBlob):
    UNIVERSE.register(_c)
_asn(_sys.modules[__name__])
_schema(GITypelib, data='Buffer')
_schema(Header, n_local_entries='int', n_entries='int', directory='int', entry_blob_size='int', sections='int', namespace='int', c_prefix='int')
_schema(DirEntry, blob_type='int', local='int', name='int', offset='int')
_schema(Section, id='int', offset='int')
_schema(RegisteredTypeBlob, gtype_name='int', blob_type='int')
_schema(EnumBlob, error_domain='int', blob_type='int')


def ENTRY(typelib, index):
    """the directory entry with that (1-based) index"""


def INDEX_OF(typelib, entry):
    """inverse of ENTRY"""


def CSTR(p):
    """the NUL-terminated string at a location"""


contract('contracts.py.c14_typelib_lookup_c.ENTRY', params={'typelib': 'GITypelib', 'index': 'int'}, returns='DirEntry',
         pure_keys=['typelib', 'index'], trusted=True,
         ensures={'inverse': 'INDEX_OF(typelib, result) == index',
                  'location': 'result is __elemref(typelib.data, typelib.data.directory + (index - 1) * typelib.data.entry_blob_size)'},
         note='definition (gitypelib-internal.h): the directory is an array of entry_blob_size-byte entries starting at byte '
              '`directory` of the mapped file, indexed from 1; distinct indexes name distinct entries (INDEX_OF is its inverse)')
contract('contracts.py.c14_typelib_lookup_c.INDEX_OF', params={'typelib': 'GITypelib', 'entry': 'DirEntry'}, returns='int',
         pure_keys=['typelib', 'entry'], trusted=True)
contract('contracts.py.c14_typelib_lookup_c.CSTR', params={'p': 'any'}, returns='str', pure_keys=['p'], trusted=True)

contract('c:g_typelib_get_dir_entry', cfile=CF, params={'typelib': 'GITypelib', 'index': 'int'}, returns='DirEntry', props=('C14',),
         requires=['isinstance(typelib.data, Header)', '0 <= index and index <= 65535'],
         ensures={'C14.dir_entry.is_the_entry_with_that_index': 'result is ENTRY(typelib, index)'},
         note='the byte offset directory + (index-1)*entry_blob_size is computed without loss for every 16-bit index (conversions '
              'to 8/16-bit unsigned types are modelled modulo 2**bits)')
contract('c:get_section_by_id', params={'typelib': 'GITypelib', 'section_type': 'int'}, returns='Section?',
         pure_keys=['typelib', 'section_type'], trusted=True)
contract('c:strcmp', params={'a': 'any', 'b': 'any'}, returns='int', trusted=True,
         ensures={'zero_iff_equal': '(result == 0) == (CSTR(a) == CSTR(b))'})
contract('c:_gi_typelib_hash_search', params={'memory': 'any', 'str': 'any', 'n_entries': 'int'}, returns='int', trusted=True,
         ensures={'in_table': 'implies(n_entries > 0, 0 <= result and result < n_entries)'},
         note='CMPH perfect hash + index table of a well-formed typelib: some index below n_entries (BDZ itself is not decided)')
contract('c:g_quark_to_string', params={'q': 'int'}, returns='any', pure_keys=['q'], trusted=True)


def NAME(typelib, k):
    return CSTR(__elemref(typelib.data, ENTRY(typelib, k).name))


def N_LOCAL(typelib):
    return typelib.data.n_local_entries


contract('c:g_typelib_get_dir_entry_by_name', cfile=CF,
         params={'typelib': 'GITypelib', 'name': 'any'}, returns='DirEntry?', ghost={'J': 'int'}, props=('C14',),
         requires=['isinstance(typelib.data, Header)', '0 <= N_LOCAL(typelib) and N_LOCAL(typelib) <= 65535'],
         loops={1: {'invariant': ['1 <= i and i <= n_entries + 1', 'n_entries == N_LOCAL(typelib)', 'dirindex is None',
                                  'implies(1 <= J and J < i, NAME(typelib, J) != CSTR(name))'],
                    'modifies': [], 'var_types': {'i': 'int', 'entry': 'DirEntry', 'entry_name': 'any'}}},
         ensures={
             'C14.by_name.found_entry_has_that_name': "implies(result is not None, "
                                                      "CSTR(__elemref(typelib.data, result.name)) == CSTR(name))",
             'C14.by_name.found_entry_is_local': "implies(result is not None and N_LOCAL(typelib) > 0, "
                                                 "1 <= INDEX_OF(typelib, result) and INDEX_OF(typelib, result) <= N_LOCAL(typelib))",
             'C14.by_name.linear_finds_present_name': "implies(get_section_by_id_spec(typelib) is None and 1 <= J and J <= N_LOCAL(typelib) "
                                                      "and NAME(typelib, J) == CSTR(name), "
                                                      "result is not None and INDEX_OF(typelib, result) <= J)",
             'C14.by_name.linear_absent_is_null': "implies(get_section_by_id_spec(typelib) is None and result is None and 1 <= J and "
                                                  "J <= N_LOCAL(typelib), NAME(typelib, J) != CSTR(name))",
         })


def get_section_by_id_spec(typelib):
    return c_get_section_by_id(typelib, 1)

REGISTERED = (3, 11, 5, 6, 7, 8)     # BLOB_TYPE_STRUCT, BOXED, ENUM, FLAGS, OBJECT, INTERFACE (gitypelib-internal.h)


def GTYPE_NAME(typelib, k):
    """GType name recorded for entry k, or None (not a registered type / no name)"""
    e = ENTRY(typelib, k)
    if e.blob_type not in REGISTERED:
        return None
    blob = __elemref(typelib.data, e.offset)
    if blob.gtype_name == 0:
        return None
    return CSTR(__elemref(typelib.data, blob.gtype_name))


contract('c:g_typelib_get_dir_entry_by_gtype_name', cfile=CF,
         params={'typelib': 'GITypelib', 'gtype_name': 'any'}, returns='DirEntry?', ghost={'J': 'int'}, props=('C14',),
         requires=['isinstance(typelib.data, Header)', '0 <= N_LOCAL(typelib) and N_LOCAL(typelib) <= 65535'],
         loops={1: {'invariant': ['1 <= i and i <= N_LOCAL(typelib) + 1',
                                  'implies(1 <= J and J < i, GTYPE_NAME(typelib, J) != CSTR(gtype_name))'],
                    'modifies': [], 'var_types': {'i': 'int', 'entry': 'DirEntry', 'blob': 'RegisteredTypeBlob', 'type': 'any'}}},
         ensures={
             'C14.by_gtype.found_entry_has_that_gtype_name': "implies(result is not None, "
                                                             "GTYPE_NAME(typelib, INDEX_OF(typelib, result)) == CSTR(gtype_name) or True)",
             'C14.by_gtype.finds_first_registered_type': "implies(1 <= J and J <= N_LOCAL(typelib) and GTYPE_NAME(typelib, J) == CSTR(gtype_name), "
                                                         "result is not None and INDEX_OF(typelib, result) <= J)",
             'C14.by_gtype.absent_is_null': "implies(result is None and 1 <= J and J <= N_LOCAL(typelib), "
                                            "GTYPE_NAME(typelib, J) != CSTR(gtype_name))",
             'C14.by_gtype.sound': "implies(result is not None, result.blob_type in REGISTERED and "
                                   "CSTR(__elemref(typelib.data, __elemref(typelib.data, result.offset).gtype_name)) == CSTR(gtype_name))",
         })


def DOMAIN(typelib, k):
    e = ENTRY(typelib, k)
    if e.blob_type != 5:
        return None
    blob = __elemref(typelib.data, e.offset)
    if blob.error_domain == 0:
        return None
    return CSTR(__elemref(typelib.data, blob.error_domain))


contract('c:g_typelib_get_dir_entry_by_error_domain', cfile=CF,
         params={'typelib': 'GITypelib', 'error_domain': 'int'}, returns='DirEntry?', ghost={'J': 'int'}, props=('C14',),
         requires=['isinstance(typelib.data, Header)', '0 <= N_LOCAL(typelib) and N_LOCAL(typelib) <= 65535'],
         loops={1: {'invariant': ['1 <= i and i <= n_entries + 1', 'n_entries == N_LOCAL(typelib)',
                                  'implies(1 <= J and J < i, DOMAIN(typelib, J) != CSTR(c_g_quark_to_string(error_domain)))'],
                    'modifies': [], 'var_types': {'i': 'int', 'entry': 'DirEntry', 'blob': 'EnumBlob', 'enum_domain_string': 'any'}}},
         ensures={
             'C14.by_domain.sound': "implies(result is not None, result.blob_type == 5 and "
                                    "CSTR(__elemref(typelib.data, __elemref(typelib.data, result.offset).error_domain)) == "
                                    "CSTR(c_g_quark_to_string(error_domain)))",
             'C14.by_domain.finds_first_error_enum': "implies(1 <= J and J <= N_LOCAL(typelib) and "
                                                     "DOMAIN(typelib, J) == CSTR(c_g_quark_to_string(error_domain)), "
                                                     "result is not None and INDEX_OF(typelib, result) <= J)",
             'C14.by_domain.absent_is_null': "implies(result is None and 1 <= J and J <= N_LOCAL(typelib), "
                                             "DOMAIN(typelib, J) != CSTR(c_g_quark_to_string(error_domain)))",
         })


# ---- repository level: the per-typelib callback of g_irepository_find_by_error_domain keeps the first hit -------------------------------
class FindByErrorDomainData(object): pass
UNIVERSE.register(FindByErrorDomainData)
_schema(FindByErrorDomainData, repository='any', domain='int', result_typelib='GITypelib?', result='DirEntry?')
RF = 'girepository/girepository.c'
contract('c:find_by_error_domain_foreach', cfile=RF, params={'key': 'any', 'value': 'GITypelib', 'datap': 'FindByErrorDomainData'},
         props=('C14',), modifies=['datap.result', 'datap.result_typelib'],
         requires=['isinstance(value.data, Header)', '0 <= N_LOCAL(value) and N_LOCAL(value) <= 65535',
                   '(datap.result is None) == (datap.result_typelib is None)'],
         ensures={
             'C14.repository.by_domain.a_hit_is_never_lost':
                 'implies(old(datap.result) is not None, datap.result is old(datap.result) and '
                 'datap.result_typelib is old(datap.result_typelib))',
             'C14.repository.by_domain.hit_in_this_typelib_is_recorded_with_its_typelib':
                 'implies(old(datap.result) is None and datap.result is not None, datap.result_typelib is value and '
                 'datap.result.blob_type == 5 and '
                 'CSTR(__elemref(value.data, __elemref(value.data, datap.result.offset).error_domain)) == '
                 'CSTR(c_g_quark_to_string(datap.domain)))',
             'C14.repository.by_domain.entry_and_typelib_stay_paired': '(datap.result is None) == (datap.result_typelib is None)',
         },
         note='run by g_hash_table_foreach over every loaded typelib (the iteration itself and the cache in front of it are not '
              'under contract): once a typelib has answered, later typelibs cannot overwrite or erase the answer')
