"""C03 - identifier-level annotations and tags land on the right GIR element (application half)."""
from givc.contracts import contract, inline
from . import schema   # noqa
from . import c11_message, c02_defaults   # noqa
from giscanner import ast

MT = 'giscanner.maintransformer.MainTransformer.'
inline('giscanner.ast.Namespace.get_by_symbol', 'giscanner.ast.Namespace.get', 'giscanner.ast.Namespace.get_by_ctype',
       'giscanner.ast.Node.c_name')


def tag_value(block, name):
    t = block.tags.get(name)
    return t.value if t is not None and t.value else None


def tag_text(block, name):
    t = block.tags.get(name)
    return t.description if t is not None and t.description else None


def ann(block, name):
    return block is not None and name in block.annotations


def first_option(block, name):
    opts = block.annotations.get(name)
    return opts[0] if opts is not None else None


def options_ok(block):
    """validated comment block: (set-property) / (get-property) carry their one option"""
    return block is None or ((not ann(block, 'set-property') or len(block.annotations.get('set-property')) >= 1) and
                             (not ann(block, 'get-property') or len(block.annotations.get('get-property')) >= 1))


def keep_or(new, old_value):
    return new if new is not None else old_value


GENERIC_FIELDS = ['node.doc', 'node.doc_position', 'node.version', 'node.version_doc', 'node.deprecated',
                  'node.deprecated_doc', 'node.stability', 'node.stability_doc', 'node.skip', 'node.foreign',
                  'node.is_constructor', 'node.is_method', 'node.set_property', 'node.get_property', 'node.attributes{}']

contract(MT + '_apply_annotations_annotated',
         params={'self': 'MainTransformer', 'node': 'Annotated', 'block': 'GtkDocCommentBlock?'},
         props=('C03',), modifies=GENERIC_FIELDS, chunks=3,
         requires=["implies(ann(block, 'set-property'), len(block.annotations.get('set-property')) >= 1)",
                   "implies(ann(block, 'get-property'), len(block.annotations.get('get-property')) >= 1)"],
         loops={1: {'invariant': ['True'], 'modifies': ['node.attributes{}']}},
         ensures={
             'C03.generic.no_block_no_change': "implies(block is None, node.skip == old(node.skip) and node.version == old(node.version) "
                                               "and node.deprecated == old(node.deprecated) and node.doc == old(node.doc) "
                                               "and node.stability == old(node.stability))",
             'C03.generic.doc': "implies(block is not None, node.doc == (block.description if block.description else old(node.doc)))",
             'C03.generic.doc_position': "implies(block is not None and bool(block.description), node.doc_position is block.position)",
             'C03.generic.since': "implies(block is not None, node.version == keep_or(tag_value(block, 'since'), old(node.version)) "
                                  "and node.version_doc == keep_or(tag_text(block, 'since'), old(node.version_doc)))",
             'C03.generic.deprecated': "implies(block is not None, node.deprecated == keep_or(tag_value(block, 'deprecated'), old(node.deprecated)) "
                                       "and node.deprecated_doc == keep_or(tag_text(block, 'deprecated'), old(node.deprecated_doc)))",
             'C03.generic.stability': "implies(block is not None, node.stability == keep_or(tag_value(block, 'stability'), old(node.stability)) "
                                      "and node.stability_doc == keep_or(tag_text(block, 'stability'), old(node.stability_doc)))",
             'C03.generic.skip': "node.skip == (old(node.skip) or ann(block, 'skip'))",
             'C03.generic.foreign': "implies(ann(block, 'foreign'), node.foreign == True)",
             'C03.generic.foreign_only_if_annotated': "implies(not ann(block, 'foreign') and isinstance(node, ast.Node), node.foreign == old(node.foreign))",
             'C03.generic.constructor_only_on_functions': "implies(isinstance(node, ast.Function), node.is_constructor == "
                                                          "(old(node.is_constructor) or ann(block, 'constructor')))",
             'C03.generic.method': "implies(isinstance(node, ast.Function), node.is_method == (old(node.is_method) or ann(block, 'method')))",
             'C03.generic.set_property': "implies(isinstance(node, ast.Function), node.set_property == "
                                         "(first_option(block, 'set-property') if ann(block, 'set-property') else old(node.set_property)))",
             'C03.generic.get_property': "implies(isinstance(node, ast.Function), node.get_property == "
                                         "(first_option(block, 'get-property') if ann(block, 'get-property') else old(node.get_property)))",
         })

contract(MT + '_get_annotation_name',
         params={'self': 'MainTransformer', 'node': 'Node'}, returns='str?', props=('C03',), pure_keys=['node'],
         raises={'AssertionError': 'not isinstance(node, (ast.Class, ast.Interface, ast.Record, ast.Union, ast.Enum, '
                                   'ast.Bitfield, ast.Callback, ast.Alias, ast.Constant))'},
         ensures={'C03.name.c_type_first': "implies(node.ctype is not None, result == node.ctype)",
                  'C03.name.gtype_name_next': "implies(node.ctype is None and isinstance(node, ast.Registered) and node.gtype_name is not None, "
                                              "result == node.gtype_name)",
                  'C03.name.c_name_last': "implies(node.ctype is None and not (isinstance(node, ast.Registered) and node.gtype_name is not None), "
                                          "result == node.c_name)"})

contract(MT + '_apply_annotation_rename_to',
         params={'self': 'MainTransformer', 'node': 'Function', 'chain': 'any', 'block': 'GtkDocCommentBlock?'},
         props=('C03',),
         modifies=['*.shadowed_by', '*.shadows', 'LOGGER._warning_count'],
         let={'found': "self._namespace.symbols.get(first_option(block, 'rename-to')) if ann(block, 'rename-to') and "
                       "bool(block.annotations.get('rename-to')) else None",
              'target': "(self._namespace.symbols.get(first_option(block, 'rename-to')) if ann(block, 'rename-to') and "
                        "bool(block.annotations.get('rename-to')) and "
                        "isinstance(self._namespace.symbols.get(first_option(block, 'rename-to')), ast.Function) else None)"},
         ensures={
             'C03.rename.pair_is_mutual': "implies(target is not None and not old(target.shadowed_by) and not old(target.shadows) "
                                          "and target is not node, "
                                          "target.shadowed_by == node.name and node.shadows == target.name "
                                          "and LOGGER._warning_count == old(LOGGER._warning_count))",
             'C03.rename.no_multiple_shadowing': "implies(target is not None and (bool(old(target.shadowed_by)) or bool(old(target.shadows))), "
                                                 "target.shadowed_by == old(target.shadowed_by) and node.shadows == old(node.shadows) "
                                                 "and LOGGER._warning_count == old(LOGGER._warning_count) + 1)",
             'C03.rename.unknown_symbol_or_not_a_function_warns':
                 "implies(ann(block, 'rename-to') and bool(block.annotations.get('rename-to')) and target is None, "
                 "node.shadows == old(node.shadows) and LOGGER._warning_count == old(LOGGER._warning_count) + 1)",
             'C03.rename.absent_is_noop': "implies(not (ann(block, 'rename-to') and bool(block.annotations.get('rename-to'))), "
                                          "node.shadows == old(node.shadows) and LOGGER._warning_count == old(LOGGER._warning_count))",
         })


# ---- block targeting: a Struct.field block documents exactly that field -----------------------------------------
from . import c01_param_annotations   # noqa  (_adjust_container_type contract)
contract('giscanner.transformer.Transformer.create_type_from_user_string', params={'self': 'Transformer', 'typestr': 'str'},
         returns='Type', fresh_result=True, trusted=True, raises={'KeyError': 'maybe'}, modifies=['LOGGER._warning_count'],
         note='type-string parsing / resolution: not under contract')

DOT = '.'
FIELD_KEY = "self._get_annotation_name(parent) + DOT + field.name"


def field_annotations(self, parent, parent_block, field):
    """the annotations that apply to a field: its own `Struct.field:` block, else its @field line in the parent block"""
    block = self._blocks.get(self._get_annotation_name(parent) + '.' + field.name)
    if block:
        return block.annotations
    if not parent_block:
        return None
    tag = parent_block.params.get(field.name)
    if not tag:
        return None
    return tag.annotations


def field_site_ok(self, parent, parent_block, field):
    """the field has a type (or gets one from a (type) annotation) and an (array length=...) annotation stands on a field of
    a record or union; on a field of a class the length lookup raises AttributeError, which the function prints and drops"""
    fa = field_annotations(self, parent, parent_block, field)
    if fa is None:
        return True
    if not fa.get('type') and field.type is None:
        return False
    if 'array' in fa and fa['array'].get('length'):
        return isinstance(parent, ast.Compound)
    return True


contract(MT + '_apply_annotations_field',
         params={'self': 'MainTransformer', 'parent': 'Class|Interface|Record|Union', 'parent_block': 'GtkDocCommentBlock?', 'field': 'Field'},
         props=('C03',), requires=['field.name is not None', 'self._get_annotation_name(parent) is not None',
                                   'options_ok(self._blocks.get(%s))' % FIELD_KEY,
                                   'field_site_ok(self, parent, parent_block, field)'],
         modifies=['*.doc', '*.doc_position', '*.version', '*.version_doc', '*.deprecated', '*.deprecated_doc', '*.stability',
                        '*.stability_doc', '*.skip', '*.foreign', '*.is_constructor', '*.is_method', '*.set_property', '*.get_property',
                        'field.attributes{}', '*.type', '*.direction', '*.transfer', '*.element_type', '*.key_type', '*.value_type',
                        'LOGGER._warning_count'],
         raises={'KeyError': 'True', 'SystemExit': 'True', 'AssertionError': 'True', 'ValueError': 'True'},
         local_modes={},
         ensures={
             'C03.field.block_is_the_one_named_Struct.field': "all_calls('_apply_annotations_annotated', "
                                                              "'arg_node is field and arg_block is self._blocks.get(%s)')" % FIELD_KEY,
             'C03.field.own_block_applied_when_present': "implies(bool(self._blocks.get(%s)), "
                                                         "each_call_preceded('_adjust_container_type', '_apply_annotations_annotated'))" % FIELD_KEY,
             'C03.field.container_annotations_from_that_block': "implies(bool(self._blocks.get(%s)), all_calls('_adjust_container_type', "
                                                                "'arg_node is field and arg_annotations is self._blocks.get(%s).annotations'))"
                                                                % (FIELD_KEY, FIELD_KEY),
         })


# ---- "Class:property" blocks -----------------------------------------------------------------------------------------
from . import c01_param_annotations   # noqa  (_resolve_toplevel)


def prop_block(self, parent, prop):
    """the comment block of a property is looked up as  <C name of the owner>:<property name>"""
    return self._blocks.get('%s:%s' % (self._get_annotation_name(parent), prop.name))


def first_of(block, name):
    opts = block.annotations.get(name)
    return opts[0] if opts else None


PB = 'prop_block(self, parent, prop)'
contract(MT + '_apply_annotations_property',
         params={'self': 'MainTransformer', 'parent': 'Class|Interface', 'prop': 'Property'}, props=('C03',),
         requires=['prop.type is not None', 'options_ok(%s)' % PB,
                   "implies(%s is not None and 'transfer' in %s.annotations, len(%s.annotations['transfer']) >= 1)" % (PB, PB, PB)],
         let={'block': PB},
         modifies=[f.replace('node.', 'prop.') for f in GENERIC_FIELDS] +
                  ['prop.transfer', 'prop.type', 'prop.setter', 'prop.getter', 'prop.default_value', 'LOGGER._warning_count'],
         raises={'KeyError': 'True', 'AssertionError': 'True'},
         ensures={
             'C03.property.block_is_looked_up_by_owner_colon_name':
                 "all_calls('_apply_annotations_annotated', 'arg_node is prop and arg_block is block')",
             'C03.property.no_block_no_change':
                 "implies(block is None, prop.transfer == old(prop.transfer) and prop.type is old(prop.type) and "
                 "prop.setter == old(prop.setter) and prop.getter == old(prop.getter) and prop.default_value == old(prop.default_value))",
             'C03.property.transfer_as_written_floating_means_none':
                 "implies(block is not None and 'transfer' in block.annotations, prop.transfer == "
                 "('none' if block.annotations['transfer'][0] == 'floating' else block.annotations['transfer'][0]))",
             'C03.property.setter_getter_default_value':
                 "implies(block is not None, prop.setter == keep_or(first_of(block, 'setter'), old(prop.setter)) and "
                 "prop.getter == keep_or(first_of(block, 'getter'), old(prop.getter)) and "
                 "prop.default_value == keep_or(first_of(block, 'default-value'), old(prop.default_value)))",
             'C03.property.type_kept_without_type_annotation':
                 "implies(block is None or not block.annotations.get('type'), prop.type is old(prop.type))",
         })


# ---- block lookup -----------------------------------------------------------------------------------------------------
contract(MT + '_get_block', params={'self': 'MainTransformer', 'node': 'Node'}, returns='GtkDocCommentBlock?', props=('C03',),
         raises={'AssertionError': 'True'},
         ensures={'C03.block.looked_up_by_annotation_name': 'result is self._blocks.get(self._get_annotation_name(node))'})


# ---- callables: finish / sync / async functions, then generic metadata, parameters and the return value -------------------------------
from .c01_param_annotations import DISPATCH_MODS as _DM   # noqa
CALLABLE_MODS = sorted(set(GENERIC_FIELDS + ['node.finish_func', 'node.sync_func', 'node.async_func', 'LOGGER._warning_count']
                           + [m.replace('node.', '*.') for m in _DM if m.startswith('node.') and not m.endswith('{}')]
                           + [m for m in _DM if m.startswith('*.')] + ['*.destroy_name', '*.closure_name',
                                                                        'node._retval.attributes{}']))
contract(MT + '_apply_annotations_params',
         params={'self': 'MainTransformer', 'parent': 'Callable', 'params': 'list[Parameter]', 'block': 'GtkDocCommentBlock?'},
         trusted=True, modifies=[m for m in CALLABLE_MODS if not m.startswith('node.')],
         raises={'KeyError': 'maybe', 'AssertionError': 'maybe', 'SystemExit': 'maybe', 'ValueError': 'maybe'},
         ensures={'return_value_untouched': 'parent._retval.type is old(parent._retval.type)'},
         note='matches the @param tags of the block with the parameters by name and applies each (the per-parameter functions '
              '_apply_annotations_param ... are under contract in C01); the matching loop itself is assumed. ASSUMED FRAME IS '
              'INCOMPLETE: the (attributes) dictionaries of the parameters change as well - a set of containers this frame '
              'language cannot name; no clause of a caller under contract reads them after the call')


def one_option(block, name):
    """the single option of an annotation like (finish-func NAME), None when the annotation is absent"""
    return block.annotations.get(name)[0] if block is not None and block.annotations.get(name) is not None else None


contract(MT + '_apply_annotations_callable',
         params={'self': 'MainTransformer', 'node': 'Callable', 'chain': 'any', 'block': 'GtkDocCommentBlock?'},
         props=('C03',),
         requires=['options_ok(block)', 'node.retval.type is not None', 'node.retval.type.ctype is not None',
                   "implies(ann(block, 'finish-func'), len(block.annotations.get('finish-func')) >= 1)",
                   "implies(ann(block, 'sync-func'), len(block.annotations.get('sync-func')) >= 1)",
                   "implies(ann(block, 'async-func'), len(block.annotations.get('async-func')) >= 1)"],
         modifies=CALLABLE_MODS, raises={'KeyError': 'True', 'AssertionError': 'True', 'SystemExit': 'True', 'ValueError': 'True'},
         ensures={
             'C03.callable.finish_sync_async_functions':
                 "node.finish_func == keep_or(old(one_option(block, 'finish-func')), old(node.finish_func)) and "
                 "node.sync_func == keep_or(old(one_option(block, 'sync-func')), old(node.sync_func)) and "
                 "node.async_func == keep_or(old(one_option(block, 'async-func')), old(node.async_func))",
             'C03.callable.metadata_parameters_and_return_value_come_from_the_same_block':
                 "all_calls('_apply_annotations_annotated', 'arg_node is node and arg_block is block') and "
                 "all_calls('_apply_annotations_params', 'arg_parent is node and arg_params is node._parameters and arg_block is block') and "
                 "all_calls('_apply_annotations_return', 'arg_parent is node and arg_return_ is node._retval and arg_block is block')",
         })

contract(MT + '_check_instance_parameter', params={'self': 'MainTransformer', 'node': 'Function', 'block': 'GtkDocCommentBlock?'},
         trusted=True, modifies=['LOGGER._warning_count'], raises={'SystemExit': 'maybe'},
         note='strict-mode diagnostics about annotations on the instance parameter; changes nothing else')

# ---- (virtual SLOT): the named slot of the owning class gets this function as its invoker ------------------------------------------
VMS = 'chain[-1].virtual_methods'
PASS2_FIELDS = sorted(set([m.replace('node.', '*.') if m.startswith('node.') and not m.endswith('{}') else m
                           for m in CALLABLE_MODS if not m.endswith('{}')] + ['*.invoker', '*.shadowed_by', '*.shadows']))
PASS2_MODS = PASS2_FIELDS + ['*{}']
BLK = 'self._blocks.get(node.symbol)'
HAS_SLOTS = "(len(chain) > 0 and isinstance(chain[-1], (ast.Class, ast.Interface)))"
contract(MT + '_pass_read_annotations2',
         params={'self': 'MainTransformer', 'node': 'Node', 'chain': 'list[Node]'}, returns='bool', ghost={'K': 'int'},
         props=('C03',),
         requires=['implies(%s, all_distinct(chain[-1].virtual_methods))' % HAS_SLOTS,
                   "implies(isinstance(node, ast.Function) and self._blocks.get(node.symbol) is not None, "
                   "options_ok(self._blocks.get(node.symbol)))",
                   "implies(isinstance(node, ast.Function) and ann(self._blocks.get(node.symbol), 'virtual'), "
                   "len(self._blocks.get(node.symbol).annotations.get('virtual')) >= 1)"] +
                  ["implies(isinstance(node, ast.Function) and ann(%s, '%s'), len(%s.annotations.get('%s')) >= 1)" % (BLK, a, BLK, a)
                   for a in ('finish-func', 'sync-func', 'async-func')],
         modifies=PASS2_MODS,
         raises={'KeyError': 'True', 'AssertionError': 'True', 'SystemExit': 'True', 'ValueError': 'True'},
         loops={1: {'index': 'I1', 'modifies': PASS2_FIELDS + ['vfunc.attributes{}', 'vfunc._retval.attributes{}'],
                    'assume_item': ['vfunc.retval.type is not None and vfunc.retval.type.ctype is not None'],
                    'invariant': ['not matched',
                                  'implies(%s and 0 <= K and K < I1, %s[K].name != invoker_name)' % (HAS_SLOTS, VMS),
                                  'implies(%s and 0 <= K and K < len(%s), %s[K].invoker == old(%s[K].invoker))'
                                  % (HAS_SLOTS, VMS, VMS, VMS)],
                    'post': [
                        # on every way out of the loop (first match -> break, or exhaustion):
                        'implies(matched, %s and 0 <= I1 and I1 < len(%s) and %s[I1].name == invoker_name and '
                        '%s[I1].invoker == node.name)' % (HAS_SLOTS, VMS, VMS, VMS),
                        'implies(%s and 0 <= K and K < len(%s) and (not matched or K < I1), %s[K].name != invoker_name)'
                        % (HAS_SLOTS, VMS, VMS),
                        'implies(%s and 0 <= K and K < len(%s) and not (matched and K == I1), %s[K].invoker == old(%s[K].invoker))'
                        % (HAS_SLOTS, VMS, VMS, VMS)],
                    'var_types': {'vfunc': 'VFunction'}}},
         ensures={
             'C03.virtual.annotations_of_the_invoker_are_merged_into_its_slot':
                 "all_calls('_apply_annotations_callable', '%s and arg_node is %s[local_I1] and arg_node.name == local_invoker_name and "
                 "arg_block is self._blocks.get(node.symbol)')" % (HAS_SLOTS, VMS),
             'C03.virtual.always_continues': 'result == True',
         },
         note='loop1.post0-2: the FIRST slot named by (virtual SLOT) gets invoker = this function, whatever invoker it had before '
              '(an automatic pairing by name may have set one); every other slot keeps its invoker; if no slot has that name '
              'nothing is changed (and a warning is issued)')


# ---- enumeration members: a block named after the member wins over the @MEMBER line of the enumeration's block -------------------
MEM = 'node.members'
contract(MT + '_apply_annotations_enum_members',
         params={'self': 'MainTransformer', 'node': 'Enum|Bitfield', 'parent_block': 'GtkDocCommentBlock?'}, ghost={'K': 'int'},
         props=('C03',),
         requires=['all_distinct(node.members)',
                   'implies(0 <= K and K < len(node.members) and self._blocks.get(node.members[K].symbol) is not None, '
                   'options_ok(self._blocks.get(node.members[K].symbol)))'],
         modifies=['*.doc', '*.doc_position', '*.version', '*.version_doc', '*.deprecated', '*.deprecated_doc', '*.stability',
                   '*.stability_doc', '*.skip', '*.foreign', '*.is_constructor', '*.is_method', '*.set_property', '*.get_property',
                   '*{}'],
         loops={1: {'index': 'I1',
                    'modifies': ['*.doc', '*.doc_position', '*.version', '*.version_doc', '*.deprecated', '*.deprecated_doc',
                                 '*.stability', '*.stability_doc', '*.skip', '*.foreign', '*.is_constructor', '*.is_method',
                                 '*.set_property', '*.get_property', 'm.attributes{}'],
                    'var_types': {'m': 'Member'},
                    'assume_item': ['implies(self._blocks.get(m.symbol) is not None, options_ok(self._blocks.get(m.symbol)))'],
                    'invariant': ["implies(0 <= K and K < I1 and bool(self._blocks.get(%s[K].symbol)) and "
                                  "ann(self._blocks.get(%s[K].symbol), 'skip'), %s[K].skip)" % (MEM, MEM, MEM)]}},
         ensures={
             'C03.enum_member.skip_on_the_members_own_block_takes_effect':
                 "implies(0 <= K and K < len(%s) and bool(self._blocks.get(%s[K].symbol)) and "
                 "ann(self._blocks.get(%s[K].symbol), 'skip'), %s[K].skip)" % (MEM, MEM, MEM, MEM),
             'C03.enum_member.own_block_wins':
                 "all_calls('_apply_annotations_annotated', 'arg_node is %s[local_I1] and arg_block is self._blocks.get(arg_node.symbol) "
                 "and bool(arg_block)')" % MEM,
         },
         note='the generic metadata of a member comes from the block carrying its own C name '
              'whenever such a block exists; the @MEMBER line of the enumeration block is only a fallback for the description')


