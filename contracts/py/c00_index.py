"""Index cross references of callables and compounds (giscanner/ast.py): used by C01, C02, C05, C07."""
from givc.contracts import contract, inline
from . import schema   # noqa

# ------------------------------------------------------------------------------------------------
# index cross references: closure / destroy / length indices name existing parameters or fields
contract('giscanner.ast.Callable.get_parameter_index',
         params={'self': 'Callable', 'name': 'str?'}, returns='int', ghost={'J': 'int'}, props=('C05', 'C01'),
         pure_keys=['self', 'name'],
         raises={'ValueError': 'implies(0 <= J and J < len(self.parameters), self.parameters[J].argname != name)'},
         loops={1: {'invariant': ['implies(0 <= J and J < I1, self.parameters[J].argname != name)'], 'modifies': []}},
         ensures={
             'C05.index.param_in_range': '0 <= result and result < len(self.parameters)',
             'C05.index.param_names_it': 'self.parameters[result].argname == name',
             'C05.index.param_first': 'implies(0 <= J and J < result, self.parameters[J].argname != name)',
         })
contract('giscanner.ast.Compound.get_field_index',
         params={'self': 'Compound', 'name': 'str?'}, returns='int', ghost={'J': 'int'}, props=('C05', 'C01'),
         pure_keys=['self', 'name'],
         raises={'ValueError': 'implies(0 <= J and J < len(self.fields), self.fields[J].name != name)'},
         loops={1: {'invariant': ['implies(0 <= J and J < I1, self.fields[J].name != name)'], 'modifies': []}},
         ensures={
             'C05.index.field_in_range': '0 <= result and result < len(self.fields)',
             'C05.index.field_names_it': 'self.fields[result].name == name',
             'C05.index.field_first': 'implies(0 <= J and J < result, self.fields[J].name != name)',
         })
contract('giscanner.ast.Compound.get_field',
         params={'self': 'Compound', 'name': 'str?'}, returns='Field', ghost={'J': 'int'}, props=('C05', 'C01'),
         raises={'ValueError': 'implies(0 <= J and J < len(self.fields), self.fields[J].name != name)'},
         loops={1: {'invariant': ['implies(0 <= J and J < I1, self.fields[J].name != name)'], 'modifies': []}},
         ensures={'C05.index.get_field_names_it': 'result.name == name'})
inline('giscanner.ast.Callable.parameters', 'giscanner.ast.Callable._get_parameters', 'giscanner.ast.Callable._get_retval',
       'giscanner.ast.Callable._get_instance_parameter', 'giscanner.ast.Parameter.name')
