"""C08 - record and union layout equals the platform C ABI (girepository/giroffsets.c, translated from clang's AST).

Oracle: the System V x86-64 ABI layout rule, written as left folds over the member sequence:
    end_0 = 0 ;  off_k = align_up(end_k, a_k) ;  end_{k+1} = off_k + size_k ;  align = max(1, a_k ...) ;
    sizeof = align_up(end_n, align) ;   union: sizeof = align_up(max size_k, align)
The size / alignment of one member (FSIZE / FALIGN) is what get_field_size_alignment reports (separate contracts).
"""
from givc.contracts import contract, inline
from givc.model import UNIVERSE, schema as _schema, add_spec_namespace as _asn
from givc.cruntime import Cell
from . import schema   # noqa
import sys as _sys

CF = 'girepository/giroffsets.c'


# ---- stub classes for the C structs of girnode.h / ffi.h (field sorts = the C member types) ---------------
class GIrNode(object): pass
class GIrNodeField(GIrNode): pass
class GIrNodeType(GIrNode): pass
class GIrNodeEnum(GIrNode): pass
class GIrNodeValue(GIrNode): pass
class GIrNodeBoxed(GIrNode): pass
class GIrNodeStruct(GIrNode): pass
class GIrNodeInterface(GIrNode): pass
class GIrNodeUnion(GIrNode): pass
class GIrNodeFunction(GIrNode): pass
class GIrTypelibBuild(object): pass
class GIrModule(object): pass
class ffi_type(object):
    def __init__(self, size=0, alignment=0):
        self.size = size
        self.alignment = alignment


for _c in (GIrNode, GIrNodeField, GIrNodeType, GIrNodeEnum, GIrNodeValue, GIrNodeBoxed, GIrNodeStruct, GIrNodeInterface,
           GIrNodeUnion, GIrNodeFunction, GIrTypelibBuild, GIrModule, ffi_type, Cell):
    UNIVERSE.register(_c)
_asn(_sys.modules[__name__])
_schema(Cell, val='any')
_schema(GIrNode, type='int', name='str?', module='GIrModule?')
_schema(GIrNodeField, offset='int', callback='GIrNodeFunction?')
_schema(GIrNodeType, is_pointer='int', tag='int', has_size='int', size='int', parameter_type1='GIrNodeType', giinterface='str?')
_schema(GIrNodeEnum, storage_type='int', values='list[GIrNodeValue]')
_schema(GIrNodeValue, value='int')
for _c in (GIrNodeBoxed, GIrNodeStruct, GIrNodeInterface, GIrNodeUnion):
    _schema(_c, size='int', alignment='int', members='list[GIrNode]')
_schema(GIrTypelibBuild, module='GIrModule', stack='list[GIrNode]?')
_schema(GIrModule, name='str')
_schema(ffi_type, size='int', alignment='int')
# GIrNodeField.type is the *type node* of the field (shadows GIrNode.type, the node kind): C has both through casts
# ((GIrNode *)field)->type vs field->type; the translation keeps the member name, so the field's type node is `type`
# on GIrNodeField objects only when accessed through a GIrNodeField-typed expression.

# libffi's type descriptors on this platform (x86-64 SysV): size / alignment
G_ffi_type_pointer = ffi_type(8, 8)
G_ffi_type_void = ffi_type(1, 1)
G_ffi_type_uint8 = ffi_type(1, 1)
G_ffi_type_uint16 = ffi_type(2, 2)
G_ffi_type_uint32 = ffi_type(4, 4)
G_ffi_type_uint64 = ffi_type(8, 8)

NODE_FIELD = 18
NODE_CALLBACK = 2


def FSIZE(field):
    """size of the member as reported by get_field_size_alignment (uninterpreted)"""


def FALIGN(field):
    """alignment of the member as reported by get_field_size_alignment (uninterpreted)"""


def KNOWN(field):
    """the member's size is known"""


contract('contracts.py.c08_offsets_c.FSIZE', params={'field': 'GIrNode'}, returns='int', pure_keys=['field'], trusted=True,
         ensures={'nonneg': 'result >= 0'})
contract('contracts.py.c08_offsets_c.FALIGN', params={'field': 'GIrNode'}, returns='int', pure_keys=['field'], trusted=True,
         ensures={'pow2': 'result in (1, 2, 4, 8, 16)'})
contract('contracts.py.c08_offsets_c.KNOWN', params={'field': 'GIrNode'}, returns='bool', pure_keys=['field'], trusted=True)

contract('c:get_field_size_alignment', cfile=CF,
         params={'build': 'GIrTypelibBuild', 'field': 'GIrNodeField', 'parent_node': 'GIrNode', 'size': 'Cell', 'alignment': 'Cell'},
         returns='int', trusted=True, modifies=['size.val', 'alignment.val'],
         ensures={'known': 'implies(KNOWN(field), result == 1 and size.val == FSIZE(field) and alignment.val == FALIGN(field))',
                  'unknown': 'implies(not KNOWN(field), result == 0 and size.val == -1 and alignment.val == -1)'},
         note='size/alignment of one member: see get_type_size_alignment / get_interface_size_alignment contracts')


def align_up(n, a):
    return ((n + a - 1) // a) * a


def is_field(m):
    return m.type == NODE_FIELD


def step_err(acc, m):
    return acc or (is_field(m) and not KNOWN(m))


def step_end(acc, err_before, m):
    if is_field(m):
        if err_before or not KNOWN(m):
            return acc
        return align_up(acc, FALIGN(m)) + FSIZE(m)
    if m.type == NODE_CALLBACK:
        return align_up(acc, 8) + 8
    return acc


def step_align(acc, err_before, m):
    if is_field(m):
        if err_before or not KNOWN(m):
            return acc
        return acc if acc > FALIGN(m) else FALIGN(m)
    if m.type == NODE_CALLBACK:
        return acc if acc > 8 else 8
    return acc


FOLDS = {
    'ERR': {'type': 'bool', 'init': 'False', 'step': 'step_err(ACC, members[I1])'},
    'END': {'type': 'int', 'init': '0', 'step': "step_end(ACC, FOLD('ERR', I1), members[I1])"},
    'ALN': {'type': 'int', 'init': '1', 'step': "step_align(ACC, FOLD('ERR', I1), members[I1])"},
}

contract('c:compute_struct_field_offsets', cfile=CF,
         params={'build': 'GIrTypelibBuild', 'node': 'GIrNode', 'members': 'list[GIrNode]', 'size_out': 'Cell', 'alignment_out': 'Cell'},
         returns='bool|int', ghost={'J': 'int'}, props=('C08',),
         modifies=['size_out.val', 'alignment_out.val', '*.offset', '*.val'],
         requires=['size_out is not alignment_out', 'all_distinct(members)'],
         loops={1: {'folds': FOLDS, 'modifies': ['*.offset', '*.val'],
                    'var_types': {'size': 'int', 'alignment': 'int', 'have_error': 'int'},
                    'invariant': ["(have_error != 0) == FOLD('ERR', I1)",
                                  "have_error in (0, 1)", "size >= 0", "alignment in (1, 2, 4, 8, 16)",
                                  "implies(have_error == 0, size == FOLD('END', I1) and alignment == FOLD('ALN', I1))",
                                  "FOLD('ALN', I1) in (1, 2, 4, 8, 16) and FOLD('END', I1) >= 0",
                                  "implies(0 <= J and J < I1 and is_field(members[J]), members[J].offset == "
                                  "(-1 if FOLD('ERR', J + 1) else align_up(FOLD('END', J), FALIGN(members[J]))))"]}},
         ensures={
             'C08.struct.known_layout_is_abi': "implies(not FOLD('ERR', len(members)), bool(result) and "
                                               "size_out.val == align_up(FOLD('END', len(members)), FOLD('ALN', len(members))) and "
                                               "alignment_out.val == FOLD('ALN', len(members)))",
             'C08.struct.unknown_member_gives_unknown_layout': "implies(FOLD('ERR', len(members)), not bool(result) and "
                                                               "size_out.val == -1 and alignment_out.val == -1)",
             'C08.struct.member_offsets': "implies(0 <= J and J < len(members) and is_field(members[J]), members[J].offset == "
                                          "(-1 if FOLD('ERR', J + 1) else align_up(FOLD('END', J), FALIGN(members[J]))))",
         })


# ---- compile-time facts of this platform's C compiler: sizeof / signedness of the probe enumerations ----------
def _probe_enums():
    """The nine typedef'd test enumerations are extracted mechanically from giroffsets.c and compiled with gcc;
    the program prints sizeof(EnumN) and (gint64)(EnumN)(-1)."""
    import os, re, subprocess, tempfile
    from givc import harness
    src = open(os.path.join(harness.REPO, CF)).read()
    enums = re.findall(r'typedef enum \{[^}]*\} (Enum\d+);', src)
    blocks = re.findall(r'typedef enum \{[^}]*\} Enum\d+;', src)
    prog = ['#include <stdio.h>', '#include <limits.h>', '#include <stdint.h>', 'typedef unsigned int guint; typedef int64_t gint64;',
            '#define G_MAXSHORT SHRT_MAX', '#define G_MINSHORT SHRT_MIN', '#define G_MAXUSHORT USHRT_MAX', '#define G_MAXINT INT_MAX']
    prog += blocks
    prog.append('int main(void) {')
    for e in enums:
        prog.append('printf("%s %%zu %%lld\\n", sizeof(%s), (long long)(gint64)(%s)(-1));' % (e, e, e))
    prog.append('return 0; }')
    d = tempfile.mkdtemp(prefix='givc-enum-')
    try:
        cfile = os.path.join(d, 'p.c')
        open(cfile, 'w').write('\n'.join(prog))
        subprocess.run(['gcc', '-o', os.path.join(d, 'p'), cfile], check=True, capture_output=True)
        out = subprocess.run([os.path.join(d, 'p')], check=True, capture_output=True, text=True).stdout
    finally:
        import shutil
        shutil.rmtree(d, ignore_errors=True)
    consts = {'__enum_types__': tuple(enums)}
    for line in out.split('\n'):
        if line.strip():
            name, size, conv = line.split()
            consts['sizeof(%s)' % name] = int(size)
            consts['(%s)(-1)' % name] = int(conv)
    return consts


C_CONSTANTS = _probe_enums      # evaluated lazily when a C function of this file is translated

TAG = {'VOID': 0, 'INT8': 2, 'UINT8': 3, 'INT16': 4, 'UINT16': 5, 'INT32': 6, 'UINT32': 7, 'INT64': 8, 'UINT64': 9}


def gcc_enum_tag(lo, hi):
    """storage of an enumeration on this platform (GCC/Clang): unsigned int if no value is negative and all fit,
    int if all fit in int, otherwise a 64-bit type of the needed signedness"""
    if lo >= 0:
        if hi <= 4294967295:
            return TAG['UINT32']
        return TAG['UINT64']
    if lo >= -2147483648 and hi <= 2147483647:
        return TAG['INT32']
    return TAG['INT64']


def vmax(acc, v):
    return v.value if v.value > acc else acc


def vmin(acc, v):
    return v.value if v.value < acc else acc


contract('c:compute_enum_storage_type', cfile=CF, params={'enum_node': 'GIrNodeEnum'}, props=('C08',),
         modifies=['enum_node.storage_type'], raises={'SystemExit': 'True'},
         loops={1: {'folds': {'MAX': {'type': 'int', 'init': '0', 'step': 'vmax(ACC, enum_node.values[I1])'},
                              'MIN': {'type': 'int', 'init': '0', 'step': 'vmin(ACC, enum_node.values[I1])'}},
                    'modifies': [], 'var_types': {'max_value': 'int', 'min_value': 'int'},
                    'invariant': ["max_value == FOLD('MAX', I1) and min_value == FOLD('MIN', I1)",
                                  "FOLD('MAX', I1) >= 0 and FOLD('MIN', I1) <= 0"]}},
         ensures={
             'C08.enum.already_computed_kept': "implies(old(enum_node.storage_type) != 0, enum_node.storage_type == old(enum_node.storage_type))",
             'C08.enum.storage_is_the_compilers': "implies(old(enum_node.storage_type) == 0, enum_node.storage_type == "
                                                  "gcc_enum_tag(FOLD('MIN', len(enum_node.values)), FOLD('MAX', len(enum_node.values))))",
         })
contract('c:givc_fatal', params={}, trusted=True, raises={'SystemExit': 'True'}, no_return=True,
         ensures={'never_returns': 'False'}, note='g_error(): aborts')
contract('c:givc_message', params={}, trusted=True, note='g_warning / g_debug: logging only')
contract('c:givc_assert', params={'cond': 'any'}, trusted=True, raises={'AssertionError': 'not cond'},
         ensures={'holds': 'bool(cond)'})


# ---- union ----------------------------------------------------------------------------------------------------
def step_umax(acc, err_before, m):
    if is_field(m) and not err_before and KNOWN(m):
        return acc if acc > FSIZE(m) else FSIZE(m)
    return acc


def step_ualign(acc, err_before, m):
    if is_field(m) and not err_before and KNOWN(m):
        return acc if acc > FALIGN(m) else FALIGN(m)
    return acc


UFOLDS = {
    'ERR': {'type': 'bool', 'init': 'False', 'step': 'step_err(ACC, members[I1])'},
    'UMAX': {'type': 'int', 'init': '0', 'step': "step_umax(ACC, FOLD('ERR', I1), members[I1])"},
    'UALN': {'type': 'int', 'init': '1', 'step': "step_ualign(ACC, FOLD('ERR', I1), members[I1])"},
}
contract('c:compute_union_field_offsets', cfile=CF,
         params={'build': 'GIrTypelibBuild', 'node': 'GIrNode', 'members': 'list[GIrNode]', 'size_out': 'Cell', 'alignment_out': 'Cell'},
         returns='bool|int', props=('C08',),
         modifies=['size_out.val', 'alignment_out.val', '*.val'],
         requires=['size_out is not alignment_out'],
         loops={1: {'folds': UFOLDS, 'modifies': ['*.val'],
                    'var_types': {'size': 'int', 'alignment': 'int', 'have_error': 'int'},
                    'invariant': ["(have_error != 0) == FOLD('ERR', I1)", "have_error in (0, 1)", "size >= 0",
                                  "alignment in (1, 2, 4, 8, 16)",
                                  "implies(have_error == 0, size == FOLD('UMAX', I1) and alignment == FOLD('UALN', I1))"]}},
         ensures={
             'C08.union.known_layout_is_abi': "implies(not FOLD('ERR', len(members)), bool(result) and "
                                              "size_out.val == align_up(FOLD('UMAX', len(members)), FOLD('UALN', len(members))) and "
                                              "alignment_out.val == FOLD('UALN', len(members)))",
             'C08.union.unknown_member_gives_unknown_layout': "implies(FOLD('ERR', len(members)), not bool(result) and "
                                                              "size_out.val == -1 and alignment_out.val == -1)",
         })

# ---- one member ----------------------------------------------------------------------------------------------
TAG_ARRAY = 15
TAG_INTERFACE = 16

# ---- ABI size / alignment of a type node: specification functions with their defining equations --------------
def TKNOWN(t):
    """the type has a known size"""


def TSIZE(t):
    """sizeof for the type node (defined when TKNOWN)"""


def TALIGN(t):
    """alignment for the type node (defined when TKNOWN)"""


def IFACE_KNOWN(t):
    """an interface type (named struct/union/enum/callback) resolves to something of known layout"""


L8 = 'contracts.py.c08_offsets_c.'
ABI_EQ = {
    'pointer': 'implies(t.is_pointer != 0, TKNOWN(t) and TSIZE(t) == 8 and TALIGN(t) == 8)',
    'array_known': 'implies(t.is_pointer == 0 and t.tag == TAG_ARRAY, TKNOWN(t) == (t.has_size != 0 and TKNOWN(t.parameter_type1)))',
    'array_layout': 'implies(t.is_pointer == 0 and t.tag == TAG_ARRAY and t.has_size != 0 and TKNOWN(t.parameter_type1), '
                    'TSIZE(t) == t.size * TSIZE(t.parameter_type1) and TALIGN(t) == TALIGN(t.parameter_type1))',
    'interface': 'implies(t.is_pointer == 0 and t.tag == TAG_INTERFACE, TKNOWN(t) == IFACE_KNOWN(t))',
    'basic': 'implies(t.is_pointer == 0 and t.tag != TAG_ARRAY and t.tag != TAG_INTERFACE, '
             'TKNOWN(t) == (FFI(t.tag) is not G_ffi_type_void and FFI(t.tag) is not G_ffi_type_pointer) and '
             'implies(TKNOWN(t), TSIZE(t) == FFI(t.tag).size and TALIGN(t) == FFI(t.tag).alignment))',
    'sane': 'implies(TKNOWN(t) and (t.tag == TAG_INTERFACE and t.is_pointer == 0), TSIZE(t) >= 0 and TALIGN(t) in (1, 2, 4, 8, 16))',
}
ABI_AXIOMS = ' and '.join('(%s)' % v for v in ABI_EQ.values())
contract(L8 + 'TKNOWN', params={'t': 'GIrNodeType'}, returns='bool', pure_keys=['t'], trusted=True,
         ensures={'abi.' + k: v for k, v in ABI_EQ.items()},
         note='defining equations of the ABI specification functions (System V x86-64)')
contract(L8 + 'IFACE_KNOWN', params={'t': 'GIrNodeType'}, returns='bool', pure_keys=['t'], trusted=True)
contract(L8 + 'TSIZE', params={'t': 'GIrNodeType'}, returns='int', pure_keys=['t'], trusted=True)
contract(L8 + 'TALIGN', params={'t': 'GIrNodeType'}, returns='int', pure_keys=['t'], trusted=True)




contract('c:get_interface_size_alignment',
         params={'build': 'GIrTypelibBuild', 'type': 'GIrNodeType', 'size': 'Cell', 'alignment': 'Cell', 'who': 'any'},
         returns='int', trusted=True, modifies=['size.val', 'alignment.val', '*.offset', '*.storage_type'],
         ensures={'ok': 'implies(IFACE_KNOWN(type), result != 0 and size.val == TSIZE(type) and alignment.val == TALIGN(type))',
                  'fail': 'implies(not IFACE_KNOWN(type), result == 0 and size.val == -1 and alignment.val == -1)'},
         note='named types: layout computed by the recursion driver (assumed here)')

def FFI(tag):
    """libffi descriptor chosen for a basic type tag (uninterpreted here; table obligation in girffi.c)"""


contract('contracts.py.c08_offsets_c.FFI', params={'tag': 'int'}, returns='ffi_type', pure_keys=['tag'], trusted=True,
         ensures={'sane': 'result.size >= 0 and result.alignment in (1, 2, 4, 8, 16) or result is G_ffi_type_void'})
contract('c:gi_type_tag_get_ffi_type', params={'tag': 'int', 'is_pointer': 'int'}, returns='ffi_type', trusted=True,
         ensures={'table': 'result is (G_ffi_type_pointer if is_pointer else FFI(tag))'})

contract('c:get_type_size_alignment', cfile=CF,
         params={'build': 'GIrTypelibBuild', 'type': 'GIrNodeType', 'size': 'Cell', 'alignment': 'Cell', 'who': 'any'},
         returns='int', props=('C08',),
         modifies=['size.val', 'alignment.val', '*.val', '*.offset', '*.storage_type'],
         requires=['size is not alignment'],
         raises={'AssertionError': 'True'},
         ensures={
             'C08.type.known_iff_abi_known': "(result != 0) == TKNOWN(type)",
             'C08.type.size_and_alignment_are_the_abis': "implies(result != 0, size.val == TSIZE(type) and alignment.val == TALIGN(type))",
             'C08.type.unknown_is_marked': "implies(result == 0, size.val == -1 and alignment.val == -1)",
             'C08.type.pointer_is_pointer_sized': "implies(type.is_pointer != 0, result == 1 and size.val == 8 and alignment.val == 8)",
         })
