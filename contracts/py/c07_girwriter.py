"""GIR emission (giscanner/girwriter.py): attribute lists handed to the XML writer.
Serves C01 / C03 / C13 (emission halves) and the writer side of C07."""
from givc.contracts import contract, inline, REGISTRY
from . import schema   # noqa
from . import c20_xmlwriter, c05_introspectable   # noqa
from .c20_xmlwriter import wf
from giscanner import ast

G = 'giscanner.girwriter.GIRWriter.'
WRITER_MODS = ['self._data.buf', 'self._tag_stack[]', 'self._indent']

# child writers that are not yet verified themselves: assumed to use the writer in a balanced way
for _name, _params in (('_write_generic', {'self': 'GIRWriter', 'node': 'Annotated|Type'}),
                       ('_write_type_ref', {'self': 'GIRWriter', 'ntype': 'Type'})):
    contract(G + _name, params=_params, trusted=True, requires=['wf(self)'], modifies=WRITER_MODS,
             raises={'ValueError': 'maybe', 'AssertionError': 'maybe'},
             ensures={'balanced': 'wf(self) and len(self._tag_stack) == old(len(self._tag_stack))'},
             note='element children; not yet under contract themselves')


def present(v):
    return v is not None


# ---- <type> / <array> / <varargs>: the array attributes (C01 array annotations, C07 writer side) ----------------------
def gir_zero_terminated(zt_attr, length_attr, fixed_attr):
    """how a GIR reader interprets an <array>: an explicit zero-terminated attribute decides, otherwise the array is
    zero-terminated exactly when it has neither a length nor a fixed size (girparser.c / gir-1.2.rnc)"""
    if zt_attr is not None:
        return zt_attr == '1'
    return length_attr is None and fixed_attr is None


def length_index(parent, ntype):
    if isinstance(parent, ast.Callable):
        return parent.get_parameter_index(ntype.length_param_name)
    if isinstance(parent, ast.Compound):
        return parent.get_field_index(ntype.length_param_name)
    return -1      # not reached: the writer asserts that the parent is a callable or a compound


def gir_type_name(ns_name, giname):
    """the name written for a type: local types (GI name `<this namespace>.<name>`) lose exactly the qualifier `<this namespace>.`;
    types of other namespaces - also of a namespace whose name merely begins with this namespace's name - stay qualified"""
    prefix = ns_name + '.'
    return giname[len(prefix):] if giname.startswith(prefix) else giname


def read_back_giname(ns_name, name):
    """Namespace.type_from_name (the GIR reader): an unqualified name belongs to the namespace being read"""
    return name if '.' in name else ns_name + '.' + name


contract(G + '_type_to_name', params={'self': 'GIRWriter', 'typeval': 'Type'}, returns='str', props=('C07',),
         raises={'AssertionError': 'True'},
         ensures={
             'C07.write.typename.only_the_own_qualifier_is_dropped':
                 'result == gir_type_name(self._namespace.name, typeval.target_giname)',
             'C07.write.typename.local_name_reads_back_as_the_same_gi_name':
                 "implies(typeval.target_giname.startswith(self._namespace.name + '.') and '.' not in result, "
                 "read_back_giname(self._namespace.name, result) == typeval.target_giname)",
             'C07.write.typename.foreign_name_reads_back_as_the_same_gi_name':
                 "implies(not typeval.target_giname.startswith(self._namespace.name + '.') and '.' in typeval.target_giname, "
                 "read_back_giname(self._namespace.name, result) == typeval.target_giname)",
         },
         note='GI names have the form Namespace.Name; the second clause is the reader side (Namespace.type_from_name) composed with the writer')
ARR = "implies(arg_tag_name == \\'array\\', %s)"
contract(G + '_write_type', params={'self': 'GIRWriter', 'ntype': 'Type', 'relation': 'any', 'parent': 'Node?'},
         props=('C01', 'C07'), requires=['wf(self)'], modifies=WRITER_MODS,
         raises={'ValueError': 'True', 'AssertionError': 'True', 'Exception': 'True'},
         ensures={
             'balanced': 'wf(self) and len(self._tag_stack) == old(len(self._tag_stack))',
             'C01+C07.emit.array.element_only_for_arrays': "all_calls('tagcontext', '(arg_tag_name == \\'array\\') == isinstance(ntype, ast.Array)')",
             'C01+C07.emit.array.zero_terminated_as_read_back': "all_calls('tagcontext', '" + ARR % (
                 "gir_zero_terminated(attr_of(arg_attributes, \\'zero-terminated\\'), attr_of(arg_attributes, \\'length\\'), "
                 "attr_of(arg_attributes, \\'fixed-size\\')) == bool(ntype.zeroterminated)") + "')",
             'C01+C07.emit.array.fixed_size': "all_calls('tagcontext', '" + ARR % (
                 "attr_of(arg_attributes, \\'fixed-size\\') == (str(ntype.size) if ntype.size is not None else None)") + "')",
             'C01+C07.emit.array.length_index': "all_calls('tagcontext', '" + ARR % (
                 "attr_of(arg_attributes, \\'length\\') == (str(length_index(parent, ntype)) "
                 "if ntype.length_param_name is not None else None)") + "')",
             'C01+C07.emit.array.kind': "all_calls('tagcontext', '" + ARR % (
                 "attr_of(arg_attributes, \\'name\\') == (ntype.array_type if ntype.array_type != ast.Array.C else None)") + "')",
             'C07.write.type.plain_type_name':
                 "all_calls('write_tag', 'implies(arg_tag_name == \\'type\\', attr_of(arg_attributes, \\'name\\') == "
                 "(gir_type_name(self._namespace.name, ntype.target_giname) if ntype.target_giname else "
                 "(ntype.target_fundamental if ntype.target_fundamental else None)))')",
             'C01+C07.emit.array.ctype': "all_calls('tagcontext', 'attr_of(arg_attributes, \\'c:type\\') == "
                                     "(ntype.complete_ctype if ntype.complete_ctype else (ntype.ctype if ntype.ctype else None))')",
         },
         note='recursive calls for element / key / value types go by this contract')


def flag(b):
    return '1' if b else None


PARAM_ATTRS = "implies(arg_tag_name == nodename, %s)"

contract(G + '_write_parameter',
         params={'self': 'GIRWriter', 'parent': 'Callable', 'parameter': 'Parameter', 'nodename': 'str'},
         props=('C01', 'C07'), requires=['wf(self)'], modifies=WRITER_MODS,
         raises={'ValueError': 'True', 'AssertionError': 'True', 'Exception': 'True'},
         ensures={
             'C01.emit.param.one_element': "all_calls('tagcontext', 'arg_tag_name == nodename')",
             'C01.emit.param.name': "all_calls('tagcontext', 'attr_of(arg_attributes, \\'name\\') == parameter.argname')",
             'C01.emit.param.transfer': "all_calls('tagcontext', 'attr_of(arg_attributes, \\'transfer-ownership\\') == "
                                        "(parameter.transfer if parameter.transfer else None)')",
             'C01.emit.param.direction': "all_calls('tagcontext', 'attr_of(arg_attributes, \\'direction\\') == "
                                         "(parameter.direction if parameter.direction is not None and parameter.direction != \\'in\\' else None)')",
             'C01.emit.param.caller_allocates': "all_calls('tagcontext', 'attr_of(arg_attributes, \\'caller-allocates\\') == "
                                                "((\\'1\\' if parameter.caller_allocates else \\'0\\') "
                                                "if parameter.direction is not None and parameter.direction != \\'in\\' else None)')",
             'C01.emit.param.nullable': "all_calls('tagcontext', 'attr_of(arg_attributes, \\'nullable\\') == "
                                        "flag(parameter.nullable and not parameter.not_nullable)')",
             'C01.emit.param.optional': "all_calls('tagcontext', 'attr_of(arg_attributes, \\'optional\\') == flag(parameter.optional)')",
             'C01.emit.param.scope': "all_calls('tagcontext', 'attr_of(arg_attributes, \\'scope\\') == "
                                     "(parameter.scope if parameter.scope else None)')",
             'C01.emit.param.skip': "all_calls('tagcontext', 'attr_of(arg_attributes, \\'skip\\') == flag(parameter.skip)')",
             'C01.emit.param.closure_index': "all_calls('tagcontext', 'implies(parameter.closure_name is not None, "
                                             "attr_of(arg_attributes, \\'closure\\') == str(parent.get_parameter_index(parameter.closure_name)))')",
             'C01.emit.param.destroy_index': "all_calls('tagcontext', 'implies(parameter.destroy_name is not None, "
                                             "attr_of(arg_attributes, \\'destroy\\') == str(parent.get_parameter_index(parameter.destroy_name)))')",
             'C01.emit.param.no_index_without_name': "all_calls('tagcontext', 'implies(parameter.closure_name is None, "
                                                     "attr_of(arg_attributes, \\'closure\\') is None) and implies(parameter.destroy_name is None, "
                                                     "attr_of(arg_attributes, \\'destroy\\') is None)')",
             'C01.emit.param.no_duplicates': "all_calls('tagcontext', 'attr_count(arg_attributes, \\'transfer-ownership\\') <= 1 and "
                                             "attr_count(arg_attributes, \\'direction\\') <= 1 and attr_count(arg_attributes, \\'nullable\\') <= 1')",
         })

contract(G + '_write_return_type',
         params={'self': 'GIRWriter', 'return_': 'Return?', 'parent': 'Callable?'},
         props=('C01', 'C07'), requires=['wf(self)'], modifies=WRITER_MODS,
         raises={'ValueError': 'True', 'AssertionError': 'True', 'Exception': 'True'},
         ensures={
             'C01.emit.return.element': "all_calls('tagcontext', 'arg_tag_name == \\'return-value\\'')",
             'C01.emit.return.transfer': "all_calls('tagcontext', 'attr_of(arg_attributes, \\'transfer-ownership\\') == "
                                         "(return_.transfer if return_.transfer else None)')",
             'C01.emit.return.skip': "all_calls('tagcontext', 'attr_of(arg_attributes, \\'skip\\') == flag(return_.skip)')",
             'C01.emit.return.nullable': "all_calls('tagcontext', 'attr_of(arg_attributes, \\'nullable\\') == "
                                         "flag(return_.nullable and not return_.not_nullable)')",
         })

# the attribute-appending helpers are executed inline in their callers (the `attrs` list stays a local list)
inline(G + '_append_version', G + '_append_node_generic', G + '_append_throws', G + '_append_registered')

GENERIC = {
    'introspectable': "all_calls('tagcontext', 'attr_of(arg_attributes, \\'introspectable\\') == "
                      "(\\'0\\' if NODE.skip or not NODE.introspectable else None)')",
    'deprecated': "all_calls('tagcontext', 'attr_of(arg_attributes, \\'deprecated\\') == "
                  "flag(bool(NODE.deprecated) or bool(NODE.deprecated_doc))')",
    'deprecated_version': "all_calls('tagcontext', 'attr_of(arg_attributes, \\'deprecated-version\\') == "
                          "(NODE.deprecated if NODE.deprecated else None)')",
    'stability': "all_calls('tagcontext', 'attr_of(arg_attributes, \\'stability\\') == (NODE.stability if NODE.stability else None)')",
    'version': "all_calls('tagcontext', 'attr_of(arg_attributes, \\'version\\') == (NODE.version if NODE.version else None)')",
}


def generic(prefix, node):
    return {'%s.%s' % (prefix, k): v.replace('NODE', node) for k, v in GENERIC.items()}


_c = dict(generic('C03+C07.emit.constant', 'constant'))
_c.update({
    'C07+C13.emit.constant.name_value_ctype': "all_calls('tagcontext', 'arg_tag_name == \\'constant\\' and "
                                          "attr_of(arg_attributes, \\'name\\') == constant.name and "
                                          "attr_of(arg_attributes, \\'value\\') == constant.value and "
                                          "attr_of(arg_attributes, \\'c:type\\') == constant.ctype')",
})
contract(G + '_write_constant', params={'self': 'GIRWriter', 'constant': 'Constant'},
         props=('C03', 'C13', 'C07'), requires=['wf(self)'], modifies=WRITER_MODS,
         raises={'ValueError': 'True', 'AssertionError': 'True', 'Exception': 'True'}, ensures=_c)

_m = dict(generic('C03+C07.emit.member', 'member'))
_m.update({
    'C07+C13.emit.member.name_value_identifier': "all_calls('tagcontext', 'arg_tag_name == \\'member\\' and "
                                             "attr_of(arg_attributes, \\'name\\') == member.name and "
                                             "attr_of(arg_attributes, \\'value\\') == str(member.value) and "
                                             "attr_of(arg_attributes, \\'c:identifier\\') == member.symbol')",
    'C07+C13.emit.member.nick': "all_calls('tagcontext', 'attr_of(arg_attributes, \\'glib:nick\\') == member.nick')",
})
_m['balanced'] = 'wf(self) and len(self._tag_stack) == old(len(self._tag_stack))'
contract(G + '_write_member', params={'self': 'GIRWriter', 'member': 'Member'},
         props=('C03', 'C13', 'C07'), requires=['wf(self)'], modifies=WRITER_MODS,
         raises={'Exception': 'True'}, ensures=_m)

_p = dict(generic('C03+C07.emit.property', 'prop'))
_p.update({
    'C07+C12.emit.property.flags': "all_calls('tagcontext', 'attr_of(arg_attributes, \\'readable\\') == (None if prop.readable else \\'0\\') and "
                               "attr_of(arg_attributes, \\'writable\\') == flag(prop.writable) and "
                               "attr_of(arg_attributes, \\'construct\\') == flag(prop.construct) and "
                               "attr_of(arg_attributes, \\'construct-only\\') == flag(prop.construct_only)')",
    'C03+C07.emit.property.accessors': "all_calls('tagcontext', 'attr_of(arg_attributes, \\'setter\\') == (prop.setter if prop.setter else None) and "
                                   "attr_of(arg_attributes, \\'getter\\') == (prop.getter if prop.getter else None) and "
                                   "attr_of(arg_attributes, \\'default-value\\') == (prop.default_value if prop.default_value else None) and "
                                   "attr_of(arg_attributes, \\'transfer-ownership\\') == (prop.transfer if prop.transfer else None)')",
})
_p['balanced'] = 'wf(self) and len(self._tag_stack) == old(len(self._tag_stack))'
contract(G + '_write_property', params={'self': 'GIRWriter', 'prop': 'Property'},
         props=('C03', 'C12', 'C07'), requires=['wf(self)'], modifies=WRITER_MODS,
         raises={'Exception': 'True'}, ensures=_p)

contract(G + '_write_callable', params={'self': 'GIRWriter', 'callable': 'Callable', 'tag_name': 'str', 'extra_attrs': 'any'},
         trusted=True, requires=['wf(self)'], modifies=WRITER_MODS, raises={'Exception': 'maybe'},
         ensures={'balanced': 'wf(self) and len(self._tag_stack) == old(len(self._tag_stack))'},
         events=True, note='verified separately below with a symbolic extra_attrs list')

contract(G + '_write_function_common', params={'self': 'GIRWriter', 'func': 'Function', 'tag_name': 'str'},
         props=('C03', 'C07'), requires=['wf(self)'], modifies=WRITER_MODS, raises={'Exception': 'True'},
         ensures={
             'C03+C07.emit.function.not_written_when_internally_skipped': "implies(func.internal_skipped, all_calls('_write_callable', 'False'))",
             'C03+C07.emit.function.identifier': "all_calls('_write_callable', 'arg_callable is func and arg_tag_name == tag_name and "
                                             "attr_of(arg_extra_attrs, \\'c:identifier\\') == func.symbol')",
             'C03+C07.emit.function.shadowing': "all_calls('_write_callable', 'attr_of(arg_extra_attrs, \\'shadowed-by\\') == "
                                            "(func.shadowed_by if func.shadowed_by else None) and "
                                            "attr_of(arg_extra_attrs, \\'shadows\\') == "
                                            "(func.shadows if func.shadows and not func.shadowed_by else None)')",
             'C03+C07.emit.function.moved_to': "all_calls('_write_callable', 'attr_of(arg_extra_attrs, \\'moved-to\\') == func.moved_to')",
             'C03+C07.emit.function.property_accessors': "all_calls('_write_callable', 'attr_of(arg_extra_attrs, \\'glib:set-property\\') == func.set_property "
                                                     "and attr_of(arg_extra_attrs, \\'glib:get-property\\') == func.get_property')",
         })


# =================================================================================================
# C07 - read/write cycle: the reader recovers, for every attribute, a value from which the writer emits
# the same attribute again (byte identity of the element's attribute list), parameter elements.
# EMIT_* are the attribute values the writer emits (proved for _write_parameter below); the reader contract
# assumes an element whose attributes are EMIT_*(p) for a ghost parameter p and proves EMIT_*(result) == EMIT_*(p).
def EMIT_transfer(p):
    return p.transfer if p.transfer else None


def EMIT_direction(p):
    return p.direction if p.direction is not None and p.direction != 'in' else None


def EMIT_caller_allocates(p):
    if p.direction is not None and p.direction != 'in':
        return '1' if p.caller_allocates else '0'
    return None


def EMIT_nullable(p):
    return '1' if p.nullable and not p.not_nullable else None


def EMIT_allow_none(p):
    if (p.nullable and not p.not_nullable and p.direction != 'out') or (p.optional and p.direction == 'out'):
        return '1'
    return None


def EMIT_optional(p):
    return '1' if p.optional else None


def EMIT_scope(p):
    return p.scope if p.scope else None


def EMIT_skip(p):
    return '1' if p.skip else None


EMITS = {'name': 'parameter.argname', 'transfer-ownership': 'EMIT_transfer(parameter)', 'direction': 'EMIT_direction(parameter)',
         'caller-allocates': 'EMIT_caller_allocates(parameter)', 'nullable': 'EMIT_nullable(parameter)',
         'allow-none': 'EMIT_allow_none(parameter)', 'optional': 'EMIT_optional(parameter)', 'scope': 'EMIT_scope(parameter)',
         'skip': 'EMIT_skip(parameter)'}
for _k, _v in EMITS.items():
    REGISTRY.get(G + '_write_parameter').ensures['C07.write.param.%s' % _k] = \
        "all_calls('tagcontext', 'attr_of(arg_attributes, \\'%s\\') == %s')" % (_k, _v)

import xml.etree.ElementTree as _ET   # noqa
from . import c12_gdump   # noqa  (Element schema)
from giscanner import girparser   # noqa
from givc.model import schema as _schema   # noqa
_schema(girparser.GIRParser, _types_only='bool', _namespace='Namespace?', _filename_stack='list')
P = 'giscanner.girparser.GIRParser.'
contract(P + '_parse_type', params={'self': 'GIRParser', 'node': 'Element'}, returns='Type', fresh_result=True, trusted=True,
         raises={'AssertionError': 'maybe', 'KeyError': 'maybe', 'ValueError': 'maybe'},
         ensures={'not_const': 'not result.is_const'},
         note='type children: not yet under contract; types read from GIR are never const-qualified')
contract('xml.etree.ElementTree.Element.find', params={'self': 'Element', 'path': 'str'}, returns='Element?',
         pure_keys=['self', 'path'], trusted=True, note='first child with that tag, None when there is none')
contract('giscanner.ast.Node.add_file_position', params={'self': 'Node', 'position': 'Position'}, trusted=True,
         modifies=['self.file_positions{}'])
inline('giscanner.girparser._corens')
CORE = '{http://www.gtk.org/introspection/core/1.0}'


def child_text(node, tag):
    """text of the first child element with that (core namespace) tag, None if absent or empty"""
    c = node.find(CORE + tag)
    if c is not None and c.text:
        return c.text
    return None


def flag_attr(node, name, old_value):
    """skip / introspectable: an integer attribute > 0 means true; not an integer means false; absent: unchanged"""
    v = node.attrib.get(name)
    if not v:
        return old_value
    return is_positive_int(v)


def is_positive_int(v):
    try:
        return int(v) > 0
    except ValueError:
        return False


def text_attr(node, name, old_value):
    v = node.attrib.get(name)
    return v if v else old_value


contract('contracts.py.c07_girwriter.is_positive_int', params={'v': 'str'}, returns='bool', pure_keys=['v'], trusted=True,
         note='int(v) > 0, False when v is not an integer literal')
contract(P + '_parse_generic_attribs', params={'self': 'GIRParser', 'node': 'Element', 'obj': 'Annotated'}, props=('C07',),
         modifies=['obj.skip', 'obj.introspectable', 'obj.doc', 'obj.doc_position', 'obj.version', 'obj.version_doc',
                   'obj.deprecated', 'obj.deprecated_doc', 'obj.stability', 'obj.stability_doc', 'obj.attributes',
                   'obj.file_positions{}'],
         raises={'KeyError': 'True', 'ValueError': 'True', 'AssertionError': 'True'},
         loops={1: {'invariant': ['is_fresh(attributes_)'], 'modifies': ['attributes_{}'],
                    'var_types': {'attributes_': 'AttrDict', 'attribute': 'Element'}},
                2: {'invariant': ['True'], 'modifies': ['obj.file_positions{}'], 'var_types': {'position': 'Element'}}},
         ensures={
             'skip_set': "implies(node.attrib.get('skip') == '1', obj.skip == True)",
             'skip_kept': "implies(node.attrib.get('skip') is None, obj.skip == old(obj.skip))",
             'C07.read.generic.introspectable_kept_when_absent':
                 "implies(not node.attrib.get('introspectable'), obj.introspectable == old(obj.introspectable))",
             'C07.read.generic.version_attributes':
                 "implies(not self._types_only, obj.version == text_attr(node, 'version', old(obj.version)) and "
                 "obj.deprecated == text_attr(node, 'deprecated-version', old(obj.deprecated)) and "
                 "obj.stability == text_attr(node, 'stability', old(obj.stability)))",
             'C07.read.generic.documentation_children':
                 "implies(not self._types_only, "
                 "obj.doc == (child_text(node, 'doc') if child_text(node, 'doc') is not None else old(obj.doc)) and "
                 "obj.version_doc == (child_text(node, 'doc-version') if child_text(node, 'doc-version') is not None else old(obj.version_doc)) and "
                 "obj.deprecated_doc == (child_text(node, 'doc-deprecated') if child_text(node, 'doc-deprecated') is not None else old(obj.deprecated_doc)) and "
                 "obj.stability_doc == (child_text(node, 'doc-stability') if child_text(node, 'doc-stability') is not None else old(obj.stability_doc)))",
             'C07.read.generic.types_only_reads_no_documentation':
                 "implies(self._types_only, obj.doc == old(obj.doc) and obj.version == old(obj.version) and "
                 "obj.deprecated_doc == old(obj.deprecated_doc))",
         },
         note='each documentation child (<doc>, <doc-version>, <doc-deprecated>, <doc-stability>) is read whenever it is present - '
              'independently of the version attributes - which is what the writer relies on')

ATTR = "node.attrib.get('%s') == %s"
contract(P + '_parse_parameter', params={'self': 'GIRParser', 'node': 'Element'}, returns='Parameter',
         ghost={'parameter': 'Parameter'}, props=('C07',),
         requires=[ATTR % (k, v) for k, v in EMITS.items()] + ["parameter.direction in (None, 'in', 'out', 'inout')"],
         raises={'AssertionError': 'True', 'KeyError': 'True', 'ValueError': 'True'},
         modifies=['*.skip', '*.introspectable', '*.doc', '*.doc_position', '*.version', '*.version_doc', '*.deprecated',
                   '*.deprecated_doc', '*.stability', '*.stability_doc', '*.attributes'],
         ensures=dict([('C07.roundtrip.param.%s' % k, '%s == %s' % (v.replace('parameter', 'result'), v)) for k, v in EMITS.items()]
                      + [('C07.roundtrip.param.model.direction', "result.direction == (parameter.direction if parameter.direction is not None else 'in')"),
                         ('C07.roundtrip.param.model.optional', "result.optional == bool(parameter.optional)")]))


# ---- reader of <array> / <type> / <varargs> / <callback> elements -----------------------------------------------------------
inline('giscanner.girparser._cns', 'giscanner.girparser._glibns')
CNS = '{http://www.gtk.org/introspection/c/1.0}'
contract('giscanner.ast.Namespace.type_from_name', params={'self': 'Namespace', 'name': 'str', 'ctype': 'str?'}, returns='Type',
         fresh_result=True, trusted=True, ensures={'ctype': 'result.ctype == ctype'},
         note='a fundamental type, or a type targeting the (namespace-qualified) name')
contract(P + '_find_first_child', params={'self': 'GIRParser', 'node': 'Element', 'name_or_names': 'any'}, returns='Element?',
         trusted=True)
contract(P + '_find_children', params={'self': 'GIRParser', 'node': 'Element', 'name': 'str'}, returns='ElementList', trusted=True)


def array_of(typenode, result):
    """the array described by an <array> element: kind, C type, fixed size, and zero-termination with the Python reader's
    default (zero-terminated unless the attribute says "0")"""
    a = typenode.attrib
    return isinstance(result, ast.Array) and result.array_type == (a.get('name') if a.get('name') is not None else '<c>') \
        and result.ctype == a.get(CNS + 'type') \
        and result.zeroterminated == (a.get('zero-terminated') != '0' or not a.get('zero-terminated')) \
        and (not a.get('fixed-size') or result.size is not None)


contract(P + '_parse_type_simple', params={'self': 'GIRParser', 'typenode': 'Element'}, returns='Type', props=('C07',),
         requires=['self._namespace is not None'],
         modifies=[],
         raises={'AssertionError': 'True', 'KeyError': 'True', 'ValueError': 'True'},
         loops={1: {'invariant': ['is_fresh(subchildren_types)'], 'modifies': ['subchildren_types[]'],
                    'var_types': {'subchildren_types': 'list[Type]'}}},
         ensures={
             'C07.read.type.array': "implies(typenode.tag == CORE + 'array', array_of(typenode, result))",
             'C07.read.type.array_fixed_size': "implies(typenode.tag == CORE + 'array' and typenode.attrib.get('fixed-size'), "
                                               "str(result.size) == typenode.attrib.get('fixed-size'))",
             'C07.read.type.varargs': "implies(typenode.tag == CORE + 'varargs', isinstance(result, ast.Varargs))",
             'C07.read.type.unnamed': "implies(typenode.tag == CORE + 'type' and typenode.attrib.get('name') is None, "
                                      "result.ctype == typenode.attrib.get(CNS + 'type') and "
                                      "(isinstance(result, ast.TypeUnknown) == (typenode.attrib.get(CNS + 'type') is None)))",
             'C07.read.type.lists_and_maps': "implies(typenode.tag == CORE + 'type' and typenode.attrib.get('name') in ('GLib.List', 'GLib.SList'), "
                                             "isinstance(result, ast.List) and result.name == typenode.attrib.get('name')) and "
                                             "implies(typenode.tag == CORE + 'type' and typenode.attrib.get('name') == 'GLib.HashTable', "
                                             "isinstance(result, ast.Map))",
         })

contract(P + '_parse_type_array_length', params={'self': 'GIRParser', 'siblings': 'list[Parameter|Field]', 'node': 'Element',
                                                 'typeval': 'Type'}, props=('C07',),
         modifies=['typeval.length_param_name'], raises={'AssertionError': 'True', 'ValueError': 'True', 'IndexError': 'True'},
         let={'arr': "node.find(CORE + 'array')"},
         ensures={
             'C07.read.array.length_index_names_the_sibling':
                 "implies(arr is not None and arr.attrib.get('length') is not None and "
                 "str(int_of(arr.attrib.get('length'))) == arr.attrib.get('length') and 0 <= int_of(arr.attrib.get('length')), "
                 "typeval.length_param_name == sibling_name(siblings[int_of(arr.attrib.get('length'))]))",
             'C07.read.array.no_length_no_change':
                 "implies((arr is None or arr.attrib.get('length') is None) and isinstance(typeval, ast.Array), "
                 "typeval.length_param_name == old(typeval.length_param_name))",
         })


def sibling_name(s):
    return s.name if isinstance(s, ast.Field) else s.argname


def int_of(s):
    return int(s)


# ---- <enumeration> / <bitfield>: one <member> per member, in order -------------------------------------------------------
contract(G + '_write_static_method', params={'self': 'GIRWriter', 'callable': 'Function'}, trusted=True, requires=['wf(self)'],
         modifies=WRITER_MODS, raises={'ValueError': 'maybe', 'AssertionError': 'maybe'},
         ensures={'balanced': 'wf(self) and len(self._tag_stack) == old(len(self._tag_stack))'},
         note='function element; the function writer (_write_function_common) is under contract separately')
for _fn, _tag, _par in (('_write_enum', 'enumeration', 'enum'), ('_write_bitfield', 'bitfield', 'bitfield')):
    _e = dict(generic('C03+C07.emit.%s' % _tag, _par))
    _e.update({
        'C07+C13.emit.%s.element_name_ctype' % _tag:
            "all_calls('tagcontext', 'arg_tag_name == \\'%s\\' and attr_of(arg_attributes, \\'name\\') == %s.name and "
            "attr_of(arg_attributes, \\'c:type\\') == %s.ctype')" % (_tag, _par, _par),
        'C07+C13.emit.%s.registered_type' % _tag:
            "all_calls('tagcontext', 'attr_of(arg_attributes, \\'glib:get-type\\') == (%s.get_type if %s.get_type else None) and "
            "attr_of(arg_attributes, \\'glib:type-name\\') == (%s.gtype_name if %s.get_type else None)')" % ((_par,) * 4),
        'C07+C13.emit.%s.one_member_element_per_member_in_order' % _tag:
            "all_calls('_write_member', 'arg_member is %s.members[local_I1]')" % _par,
    })
    if _fn == '_write_enum':
        _e['C07+C13.emit.enumeration.error_domain'] = ("all_calls('tagcontext', 'attr_of(arg_attributes, \\'glib:error-domain\\') == "
                                                   "(enum.error_domain if enum.error_domain else None)')")
    contract(G + _fn, params={'self': 'GIRWriter', _par: 'Enum' if _fn == '_write_enum' else 'Bitfield'},
             props=('C03', 'C13', 'C07'), requires=['wf(self)', '%s.members is not self._tag_stack' % _par,
                                                    '%s.static_methods is not self._tag_stack' % _par],
             modifies=WRITER_MODS,
             raises={'ValueError': 'True', 'AssertionError': 'True', 'Exception': 'True'},
             loops={1: {'index': 'I1', 'modifies': WRITER_MODS, 'invariant': ['wf(self)'], 'var_types': {'member': 'Member'}},
                    2: {'index': 'I2', 'modifies': WRITER_MODS, 'invariant': ['wf(self)'], 'var_types': {'method': 'Function'}}},
             ensures=_e)


# ---- <property> and <field>: read/write fixed point of the attribute lists ---------------------------------------------------------
def EMIT_readable(p):
    return None if p.readable else '0'


def EMIT_bits(f):
    return str(f.bits) if f.bits else None


def or_none(v):
    return v if v else None


PROP_EMITS = {'name': 'prop.name', 'readable': 'EMIT_readable(prop)', 'writable': 'flag(prop.writable)',
              'construct': 'flag(prop.construct)', 'construct-only': 'flag(prop.construct_only)',
              'transfer-ownership': 'or_none(prop.transfer)', 'setter': 'or_none(prop.setter)', 'getter': 'or_none(prop.getter)',
              'default-value': 'or_none(prop.default_value)'}
GENERIC_MODS = ['*.skip', '*.introspectable', '*.doc', '*.doc_position', '*.version', '*.version_doc', '*.deprecated',
                '*.deprecated_doc', '*.stability', '*.stability_doc', '*.attributes']
contract(P + '_parse_property', params={'self': 'GIRParser', 'node': 'Element', 'parent': 'Class|Interface'}, returns='Property',
         ghost={'prop': 'Property'}, props=('C07',),
         requires=[ATTR % (k, v) for k, v in PROP_EMITS.items()] + ['prop.name is not None', 'bool(prop.transfer)'],
         raises={'AssertionError': 'True', 'KeyError': 'True', 'ValueError': 'True'}, modifies=GENERIC_MODS,
         ensures=dict([('C07.roundtrip.property.%s' % k, '%s == %s' % (v.replace('prop', 'result'), v)) for k, v in PROP_EMITS.items()]
                      + [('C07.roundtrip.property.model.flags',
                          'result.readable == bool(prop.readable) and result.writable == bool(prop.writable) and '
                          'result.construct == bool(prop.construct) and result.construct_only == bool(prop.construct_only)'),
                         ('C07.roundtrip.property.model.owner', 'result.parent is parent')]),
         note='ghost prop: the property whose attributes the writer emitted (C03/C12.emit.property.* of _write_property); '
              'requires bool(prop.transfer): data invariant of ast.Property (the constructor turns None into none, '
              'the transformer only assigns transfer modes)')

FIELD_EMITS = {'name': 'field.name', 'readable': 'EMIT_readable(field)', 'writable': 'flag(field.writable)',
               'bits': 'EMIT_bits(field)', 'private': 'flag(field.private)'}
_f = dict(generic('C03+C07.emit.field', 'field'))
# a field holding an anonymous callback is written with its name and the node-generic attributes only (no version attribute):
_f['C03+C07.emit.field.version'] = "implies(not field.anonymous_node, %s)" % _f['C03+C07.emit.field.version']
_f.update(dict(('C07.write.field.%s' % k,
                "implies(not field.anonymous_node, all_calls('tagcontext', 'attr_of(arg_attributes, \\'%s\\') == %s'))" % (k, v))
               for k, v in FIELD_EMITS.items()))
_f['C07.write.field.one_field_element'] = ("implies(not field.anonymous_node or isinstance(field.anonymous_node, ast.Callback), "
                                           "all_calls('tagcontext', 'arg_tag_name == \\'field\\' and "
                                           "attr_of(arg_attributes, \\'name\\') == field.name'))")
_f['balanced'] = 'wf(self) and len(self._tag_stack) == old(len(self._tag_stack))'
for _name, _params in (('_write_callback', {'self': 'GIRWriter', 'callback': 'Callback'}),
                       ('_write_record', {'self': 'GIRWriter', 'record': 'Record', 'extra_attrs': 'any'}),
                       ('_write_union', {'self': 'GIRWriter', 'union': 'Union'})):
    contract(G + _name, params=_params, trusted=True, requires=['wf(self)'], modifies=WRITER_MODS,
             raises={'ValueError': 'maybe', 'AssertionError': 'maybe'},
             ensures={'balanced': 'wf(self) and len(self._tag_stack) == old(len(self._tag_stack))'},
             note='element children; not under contract themselves')
contract(G + '_write_field', params={'self': 'GIRWriter', 'field': 'Field', 'parent': 'Node?', 'is_gtype_struct': 'bool'},
         props=('C07', 'C03'), requires=['wf(self)', 'field.anonymous_node is not None or field.type is not None'],
         modifies=WRITER_MODS,
         raises={'ValueError': 'True', 'AssertionError': 'True', 'Exception': 'True'}, ensures=_f,
         note='requires: data invariant of ast.Field (asserted by its constructor): a field has a type or an anonymous node')

for _name, _ret in (('_parse_function_common', 'Callable'), ('_parse_record', 'Record'), ('_parse_union', 'Union')):
    contract(P + _name, params={'self': 'GIRParser', 'node': 'Element', 'klass': 'any', 'parent': 'any'} if _name == '_parse_function_common'
             else {'self': 'GIRParser', 'node': 'Element', 'anonymous': 'bool'}, returns=_ret, fresh_result=True, trusted=True,
             raises={'AssertionError': 'maybe', 'KeyError': 'maybe', 'ValueError': 'maybe'}, modifies=GENERIC_MODS,
             ensures={'an_instance_of_the_class_asked_for': 'implies(klass is ast.Callback, isinstance(result, ast.Callback))'}
             if _name == '_parse_function_common' else {},
             note='child elements of a field: not under contract')
contract(P + '_parse_field', params={'self': 'GIRParser', 'node': 'Element', 'parent': 'Compound'}, returns='Field',
         ghost={'field': 'Field'}, props=('C07',),
         requires=[ATTR % (k, v) for k, v in FIELD_EMITS.items()],
         raises={'AssertionError': 'True', 'KeyError': 'True', 'ValueError': 'True'}, modifies=GENERIC_MODS,
         ensures=dict([('C07.roundtrip.field.%s' % k, '%s == %s' % (v.replace('field', 'result'), v)) for k, v in FIELD_EMITS.items()]
                      + [('C07.roundtrip.field.model.flags',
                          'result.readable == bool(field.readable) and result.writable == bool(field.writable) and '
                          'result.private == bool(field.private)'),
                         ('C07.roundtrip.field.model.owner', 'result.parent is parent'),
                         ('C07.roundtrip.field.typed_or_anonymous',
                          "(result.type is not None) == (result.anonymous_node is None)")]),
         note='ghost field: the field whose attributes the writer emitted (C07.write.field.* of _write_field)')

