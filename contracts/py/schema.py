"""Class universe and field schema (sorts / data invariants of fields), written once from the
constructors in giscanner/ast.py, annotationparser.py, message.py.  A store that violates a
declared field type is reported as obligation `schema.store.<field>`; loads assume it."""
import collections
from givc import harness
harness.install()
from givc.model import UNIVERSE, schema, add_spec_namespace   # noqa

from giscanner import ast, message, annotationparser, transformer, maintransformer, \
    introspectablepass, girwriter, girparser, gdumpparser, xmlwriter, cachestore, sourcescanner  # noqa

for _m in (ast, message, annotationparser, transformer, maintransformer, introspectablepass,
           xmlwriter, girwriter, girparser, gdumpparser, cachestore, sourcescanner):
    UNIVERSE.register_module(_m)
    add_spec_namespace(_m)
UNIVERSE.register(collections.OrderedDict)

A = ast
from givc.model import named_spec, TypeSpec, parse_spec   # noqa
named_spec('AttrDict', TypeSpec('dict', (collections.OrderedDict,), False, parse_spec('str'), exact=True, region='node.attributes'))

schema(A.Type, ctype='str?', gtype_name='str?', origin_symbol='any', target_fundamental='str?',
       target_giname='str?', target_foreign='str?', is_const='bool|int', complete_ctype='str?')
schema(A.Array, array_type='str', element_type='Type', zeroterminated='bool', length_param_name='str?',
       size='int?')
schema(A.List, name='str?', element_type='Type')
schema(A.Map, key_type='Type', value_type='Type')

schema(A.Annotated, version='str?', version_doc='str?', skip='bool', introspectable='bool',
       attributes='AttrDict', stability='str?', stability_doc='str?', deprecated='str?',
       deprecated_doc='str?', doc='str?', doc_position='Position?')
schema(A.Node, namespace='Namespace?', name='str?', foreign='bool', file_positions='set', _parent='any')
from givc.model import named_spec as _ns0, TypeSpec as _TS0, parse_spec as _ps0   # noqa
# the signal list of a class / interface is its own list (never a list handed out by ElementTree)
_ns0('SignalList', _TS0('list', (), False, _ps0('Signal'), region='node.signals'))
# the lookup tables of a namespace are different dictionaries (ownership regions)
_ns0('NsNames', _TS0('dict', (), False, _ps0('Node'), region='namespace.names'))
_ns0('NsSymbols', _TS0('dict', (), False, _ps0('Node|Member'), region='namespace.symbols'))
schema(A.Namespace, name='str', version='str?', identifier_prefixes='list[str]', symbol_prefixes='list[str]',
       names='NsNames', aliases='dict', type_names='dict[Node]', ctypes='dict[Node]',
       symbols='NsSymbols', includes='set', shared_libraries='list[str]', c_includes='list[str]',
       exported_packages='list[str]', doc_format='str')
schema(A.Registered, gtype_name='str?', get_type='str?')
schema(A.Callable, _retval='Return', _parameters='list[Parameter]', throws='bool',
       _instance_parameter='Parameter?', finish_func='str?', sync_func='str?', async_func='str?')
schema(A.FunctionMacro, symbol='str', parameters='list[Parameter]')
schema(A.Function, symbol='str', is_method='bool', is_constructor='bool', shadowed_by='str?', shadows='str?',
       moved_to='str?', internal_skipped='bool', set_property='str?', get_property='str?', is_inline='bool')
schema(A.ErrorQuarkFunction, error_domain='str?')
schema(A.VFunction, invoker='str?')
schema(A.Alias, target='Type', ctype='str?')
schema(A.TypeContainer, type='Type', nullable='bool', not_nullable='bool', direction='str?', transfer='str?')
schema(A.Parameter, argname='str?', optional='bool', parent='any', scope='str?', caller_allocates='bool',
       closure_name='str?', destroy_name='str?')
schema(A.Return, parent='any')
schema(A.Enum, c_symbol_prefix='str?', ctype='str?', members='list[Member]', error_domain='str?',
       static_methods='list[Function]')
schema(A.Bitfield, c_symbol_prefix='str?', ctype='str?', members='list[Member]',
       static_methods='list[Function]')
schema(A.Member, name='str', value='int|str', symbol='str', nick='str?', dump_name='str?', parent='any')
schema(A.Compound, ctype='str?', methods='list[Function]', static_methods='list[Function]',
       fields='list[Field]', constructors='list[Function]', disguised='bool', opaque='bool', pointer='bool',
       c_symbol_prefix='str?', tag_name='str?')
schema(A.Field, name='str?', type='Type?', readable='bool', writable='bool', bits='int|str?',
       anonymous_node='Callback|Record|Union?', private='bool', namespace='Namespace?', parent='any')
schema(A.Record, is_gtype_struct_for='Type?', copy_func='str?', free_func='str?')
schema(A.Union, copy_func='str?', free_func='str?')
schema(A.Boxed, c_symbol_prefix='str?', constructors='list[Function]', methods='list[Function]',
       static_methods='list[Function]')
schema(A.Signal, when='str?', no_recurse='bool', detailed='bool', action='bool', no_hooks='bool', emitter='str?')
for _c in (A.Class, A.Interface):
    schema(_c, ctype='str?', c_symbol_prefix='str?', parent_type='Type?', parent_chain='list[Type]',
           glib_type_struct='Type?', methods='list[Function]', virtual_methods='list[VFunction]',
           static_methods='list[Function]', constructors='list[Function]', properties='list[Property]',
           fields='list[Field]', signals='SignalList')
schema(A.Class, fundamental='bool', unref_func='str?', ref_func='str?', set_value_func='str?',
       get_value_func='str?', is_abstract='bool', is_final='bool', interfaces='list[Type]')
schema(A.Interface, prerequisites='list[Type]')
schema(A.Constant, value_type='Type', value='str?', ctype='str?')
schema(A.Property, type='Type', readable='bool', writable='bool', construct='bool', construct_only='bool',
       transfer='str?', setter='str?', getter='str?', default_value='str?', parent='any')
schema(A.Callback, ctype='str?')
schema(A.Include, name='str', version='str')

schema(message.Position, filename='str?', line='int|str?', column='int|str?', is_typedef='bool')   # strings when read from a GIR
schema(message.MessageLogger, _cwd='str', _output='opaque', _namespace='Namespace?', _enable_warnings='bool',
       _enable_strict='bool', _warning_count='int')

AP = annotationparser
schema(AP.GtkDocAnnotations, position='Position?')
schema(AP.GtkDocAnnotatable, position='Position?', annotations='GtkDocAnnotations')
schema(AP.GtkDocTag, name='str', value='str?', description='str?')
schema(AP.GtkDocParameter, name='str', description='str?')
schema(AP.GtkDocCommentBlock, name='str', params='ParamDict', description='str?',
       tags='TagDict')

schema(transformer.Transformer, _namespace='Namespace', _accept_unprefixed='bool', _parsed_includes='dict[Namespace]',
       _tag_ns='dict[Compound]', _passthrough_mode='bool', _cachestore='CacheStore?',
       _identifier_filter_cmd='any', _symbol_filter_cmd='any', _pkg_config_packages='set')
schema(maintransformer.MainTransformer, _transformer='Transformer', _blocks='BlockDict',
       _namespace='Namespace', _uscore_type_names='dict[Node]')
schema(introspectablepass.IntrospectablePass, _transformer='Transformer', _blocks='BlockDict',
       _namespace='Namespace')

# ------------------------------------------------------------------------------------------------
# named specs
from givc.model import named_spec, TypeSpec, parse_spec   # noqa

_opts = parse_spec('list[str]')
_dopts = TypeSpec('dict', (), False, parse_spec('str?'), region='annotation.options')
named_spec('Annotations', TypeSpec('dict', (AP.GtkDocAnnotations,), False, _opts,
                                   keyed={AP.ANN_ARRAY: _dopts, AP.ANN_ATTRIBUTES: _dopts}, region='annotations'))
named_spec('BlockDict', TypeSpec('dict', (), False, parse_spec('GtkDocCommentBlock'), region='blocks'))
named_spec('TagDict', TypeSpec('dict', (collections.OrderedDict,), False, parse_spec('GtkDocTag'), region='block.tags'))
named_spec('ParamDict', TypeSpec('dict', (collections.OrderedDict,), False, parse_spec('GtkDocParameter'), region='block.params'))
schema(AP.GtkDocAnnotatable, position='Position?', annotations='Annotations')


# ------------------------------------------------------------------------------------------------
# The C lexer's symbol/type objects (extension module, absent here): stub classes with the attributes
# that giscanner/sourcescanner.py reads through its SourceSymbol / SourceType properties.
class CSym(object):
    """stand-in for _giscanner.SourceSymbol (C object)"""


class CTyp(object):
    """stand-in for _giscanner.SourceType (C object)"""


UNIVERSE.register(CSym)
UNIVERSE.register(CTyp)
import sys as _sys
add_spec_namespace(_sys.modules[__name__])
schema(CSym, const_int='int?', const_double='any', const_string='str?', const_boolean='bool?', ident='str?',
       type='int', base_type='CTyp?', source_filename='str?', line='int?', private='bool')
schema(CTyp, type='int', base_type='CTyp?', name='str?', type_qualifier='int', child_list='list[CSym]',
       is_bitfield='bool', function_specifier='int')
schema(sourcescanner.SourceSymbol, _scanner='any', _symbol='CSym')
schema(sourcescanner.SourceType, _scanner='any', _stype='CTyp')

from givc.model import class_invariant   # noqa
class_invariant(A.Array, target_fundamental='<array>')
class_invariant(A.List, target_fundamental='<list>')
class_invariant(A.Map, target_fundamental='<map>')
class_invariant(A.Varargs, target_fundamental='<varargs>')

import io as _io
UNIVERSE.register(_io.StringIO)
add_spec_namespace(_io)
schema(_io.StringIO, buf='str')
schema(xmlwriter.XMLWriter, _data='StringIO', _tag_stack='list[str]', _indent='int', _indent_unit='int',
       _indent_char='str', _newline_char='str')

# _namespace is None outside _write_namespace; every function under contract runs inside it (data invariant, assumed)
schema(girwriter.GIRWriter, sources_roots='list[str]', _namespace='Namespace')

from givc.contracts import helper_loop   # noqa
# Callable.parameters setter: re-parents every parameter
helper_loop('giscanner.ast.Callable._set_parameters', 1, {'invariant': ['True'], 'modifies': ['*.parent']})
