"""C09 - repository accessors report what the typelib contains (section-offset arithmetic, giobjectinfo.c).

Oracle: the ObjectBlob layout published in gitypelib-internal.h - the fixed part is followed by the interface
table (16-bit entries, padded to a multiple of 4 bytes), the fields (each optionally followed by an embedded
callback), the properties, methods, signals, virtual functions and constants, in this order.  The table below
is the contract; the arithmetic of every accessor is proved against it.
"""
from givc.contracts import contract
from givc.model import UNIVERSE, schema as _schema, add_spec_namespace as _asn
from . import schema   # noqa
from . import c08_offsets_c, c14_typelib_lookup_c   # noqa
from .c14_typelib_lookup_c import GITypelib, Header, Buffer
from givc.cruntime import __elemref
import sys as _sys

CF = 'girepository/giobjectinfo.c'
ABSTRACT_PRODUCTS = True     # count * size products are compared by congruence only


class GIRealInfo(object): pass
class ObjectBlob(Buffer): pass
class FieldBlob(Buffer): pass
GIObjectInfo = GIRealInfo
GIBaseInfo = GIRealInfo
GIFunctionInfo = GISignalInfo = GIVFuncInfo = GIConstantInfo = GIPropertyInfo = GIFieldInfo = GITypeInfo = GIRealInfo


for _c in (GIRealInfo, ObjectBlob, FieldBlob):
    UNIVERSE.register(_c)
_asn(_sys.modules[__name__])
_schema(GIRealInfo, typelib='GITypelib', offset='int', type='int')
_schema(Header, object_blob_size='int', field_blob_size='int', callback_blob_size='int', property_blob_size='int',
        function_blob_size='int', signal_blob_size='int', vfunc_blob_size='int', constant_blob_size='int')
_schema(ObjectBlob, n_interfaces='int', n_fields='int', n_field_callbacks='int', n_properties='int', n_methods='int',
        n_signals='int', n_vfuncs='int', n_constants='int')
_schema(FieldBlob, has_embedded_type='int')

INFO_TYPE = {'FUNCTION': 1, 'OBJECT': 7, 'CONSTANT': 9, 'SIGNAL': 13, 'VFUNC': 14, 'PROPERTY': 15, 'FIELD': 16}

contract('c:g_base_info_get_type', params={'info': 'GIRealInfo'}, returns='int', trusted=True,
         ensures={'is_type': 'result == info.type'})
contract('c:g_info_new', params={'type': 'int', 'container': 'any', 'typelib': 'GITypelib', 'offset': 'int'}, returns='GIRealInfo',
         fresh_result=True, trusted=True, events=True,
         ensures={'at': 'result.offset == offset and result.typelib is typelib and result.type == type'})

# (section, count field of the blob, element size field of the header) in file order
SECTIONS = [('fields', 'n_fields', 'field_blob_size'), ('field_callbacks', 'n_field_callbacks', 'callback_blob_size'),
            ('properties', 'n_properties', 'property_blob_size'), ('methods', 'n_methods', 'function_blob_size'),
            ('signals', 'n_signals', 'signal_blob_size'), ('vfuncs', 'n_vfuncs', 'vfunc_blob_size'),
            ('constants', 'n_constants', 'constant_blob_size')]


def blob_of(info):
    return __elemref(info.typelib.data, info.offset)


def section_start(info, section):
    """start of a variable-length section of an ObjectBlob (format layout)"""
    h = info.typelib.data
    b = blob_of(info)
    off = info.offset + h.object_blob_size + (b.n_interfaces + b.n_interfaces % 2) * 2
    if section == 'fields':
        return off
    off = off + b.n_fields * h.field_blob_size + b.n_field_callbacks * h.callback_blob_size
    if section == 'properties':
        return off
    off = off + b.n_properties * h.property_blob_size
    if section == 'methods':
        return off
    off = off + b.n_methods * h.function_blob_size
    if section == 'signals':
        return off
    off = off + b.n_signals * h.signal_blob_size
    if section == 'vfuncs':
        return off
    off = off + b.n_vfuncs * h.vfunc_blob_size
    if section == 'constants':
        return off
    return None


WF = ['isinstance(info.typelib.data, Header)', 'isinstance(blob_of(info), ObjectBlob)']
for _fn, _section, _size, _ty in (('g_object_info_get_property', 'properties', 'property_blob_size', 'PROPERTY'),
                                  ('g_object_info_get_method', 'methods', 'function_blob_size', 'FUNCTION'),
                                  ('g_object_info_get_vfunc', 'vfuncs', 'vfunc_blob_size', 'VFUNC'),
                                  ('g_object_info_get_constant', 'constants', 'constant_blob_size', 'CONSTANT')):
    contract('c:' + _fn, cfile=CF, params={'info': 'GIRealInfo?', 'n': 'int'}, returns='GIRealInfo?', props=('C09',),
             requires=['implies(info is not None, %s)' % ' and '.join(WF)],
             ensures={
                 'C09.%s.section_and_index' % _fn: "implies(info is not None and info.type == %d, result is not None and "
                                                   "result.offset == section_start(info, '%s') + n * info.typelib.data.%s and "
                                                   "result.type == %d and result.typelib is info.typelib)"
                                                   % (INFO_TYPE['OBJECT'], _section, _size, INFO_TYPE[_ty]),
                 'C09.%s.rejects_other_infos' % _fn: "implies(info is None or info.type != %d, result is None)" % INFO_TYPE['OBJECT'],
             })

contract('c:object_get_signal_offset', cfile=CF, params={'info': 'GIRealInfo', 'n': 'int'}, returns='int', props=('C09',),
         requires=WF,
         ensures={'C09.signal_offset': "result == section_start(info, 'signals') + n * info.typelib.data.signal_blob_size"})


def FIELD_EXTRA(info, k):
    """bytes taken by field k: the field blob plus an embedded callback if it has one"""
    h = info.typelib.data
    fb = __elemref(info.typelib.data, FOLD('FOFF', k))
    return h.field_blob_size + (h.callback_blob_size if fb.has_embedded_type != 0 else 0)


contract('c:g_object_info_get_field_offset', cfile=CF, params={'info': 'GIRealInfo', 'n': 'int'}, returns='int', props=('C09',),
         requires=WF + ['n >= 0'],
         loops={1: {'invariant': ['0 <= i and i <= n', "offset == FOLD('FOFF', i)"],
                    'modifies': [], 'var_types': {'i': 'int', 'offset': 'int', 'field_blob': 'FieldBlob'},
                    'folds': {'FOFF': {'type': 'int', 'init': "section_start(info, 'fields')",
                                       'step': "ACC + info.typelib.data.field_blob_size + "
                                               "(info.typelib.data.callback_blob_size if "
                                               "__elemref(info.typelib.data, ACC).has_embedded_type != 0 else 0)"},
                              }, 'index': 'i'}},
         ensures={'C09.field_offset.walks_fields_and_embedded_callbacks': "result == FOLD('FOFF', n)"})


# ---- attribute lookup: binary search then walk back to the first blob of the node (gibaseinfo.c) -----------------
class AttributeBlob(Buffer): pass


UNIVERSE.register(AttributeBlob)
_schema(AttributeBlob, offset='int', name='int', value='int')
_schema(Header, attributes='int', n_attributes='int', attribute_blob_size='int')
CFB = 'girepository/gibaseinfo.c'
from givc.cruntime import __ptradd, __ptrint   # noqa


def table_first(info):
    return __elemref(info.typelib.data, info.typelib.data.attributes)


def in_table(info, p):
    f = __ptrint(table_first(info))
    return f <= __ptrint(p) and __ptrint(p) < f + info.typelib.data.n_attributes


contract('c:bsearch', params={'key': 'AttributeBlob', 'base': 'AttributeBlob', 'nmemb': 'int', 'size': 'int', 'compar': 'any'},
         returns='AttributeBlob?', trusted=True,
         ensures={'hit': 'implies(result is not None, __ptrint(base) <= __ptrint(result) and '
                         '__ptrint(result) < __ptrint(base) + nmemb and result.offset == key.offset)',
                  'miss': 'implies(result is None, forall_range(0, nmemb, lambda k: __ptradd(base, k).offset != key.offset))'},
         note='bsearch over the offset-sorted table with cmp_attribute: some element with an equal key, or NULL if none')

contract('c:_attribute_blob_find_first', cfile=CFB,
         params={'info': 'GIRealInfo', 'blob_offset': 'int'}, returns='AttributeBlob?', props=('C09',),
         requires=['isinstance(info.typelib.data, Header)', 'info.typelib.data.n_attributes >= 0'],
         loops={1: {'invariant': ['res is not None and in_table(info, res) and res.offset == blob_offset',
                                  '__ptrint(previous) == __ptrint(res) - 1', 'first is table_first(info)'],
                    'modifies': [], 'var_types': {'res': 'AttributeBlob?', 'previous': 'AttributeBlob'}}},
         ensures={
             'C09.attributes.found_blob_belongs_to_the_node': 'implies(result is not None, in_table(info, result) and result.offset == blob_offset)',
             'C09.attributes.first_blob_of_the_node': 'implies(result is not None, __ptrint(result) == __ptrint(table_first(info)) or '
                                                      '__ptradd(result, -1).offset != blob_offset)',
             'C09.attributes.none_only_if_node_has_none': 'implies(result is None, forall_range(0, info.typelib.data.n_attributes, '
                                                          'lambda k: __ptradd(table_first(info), k).offset != blob_offset))',
         })


# ---- interfaces (giinterfaceinfo.c): same scheme against the InterfaceBlob layout --------------------------------------
CFI = 'girepository/giinterfaceinfo.c'


class InterfaceBlob(Buffer): pass


GIInterfaceInfo = GIRealInfo
UNIVERSE.register(InterfaceBlob)
_asn(_sys.modules[__name__])
_schema(Header, interface_blob_size='int')
_schema(InterfaceBlob, n_prerequisites='int', n_properties='int', n_methods='int', n_signals='int', n_vfuncs='int',
        n_constants='int')
INFO_TYPE['INTERFACE'] = 8


def iface_section_start(info, section):
    """start of a variable-length section of an InterfaceBlob: the fixed part is followed by the prerequisites (16-bit entries,
    padded to a multiple of 4 bytes), the properties, methods, signals, virtual functions and constants, in this order"""
    h = info.typelib.data
    b = blob_of(info)
    off = info.offset + h.interface_blob_size + (b.n_prerequisites + b.n_prerequisites % 2) * 2
    if section == 'properties':
        return off
    off = off + b.n_properties * h.property_blob_size
    if section == 'methods':
        return off
    off = off + b.n_methods * h.function_blob_size
    if section == 'signals':
        return off
    off = off + b.n_signals * h.signal_blob_size
    if section == 'vfuncs':
        return off
    off = off + b.n_vfuncs * h.vfunc_blob_size
    if section == 'constants':
        return off
    return None


WFI = ['isinstance(info.typelib.data, Header)', 'isinstance(blob_of(info), InterfaceBlob)']
for _fn, _section, _size, _ty in (('g_interface_info_get_property', 'properties', 'property_blob_size', 'PROPERTY'),
                                  ('g_interface_info_get_method', 'methods', 'function_blob_size', 'FUNCTION'),
                                  ('g_interface_info_get_signal', 'signals', 'signal_blob_size', 'SIGNAL'),
                                  ('g_interface_info_get_vfunc', 'vfuncs', 'vfunc_blob_size', 'VFUNC'),
                                  ('g_interface_info_get_constant', 'constants', 'constant_blob_size', 'CONSTANT')):
    contract('c:' + _fn, cfile=CFI, params={'info': 'GIRealInfo?', 'n': 'int'}, returns='GIRealInfo?', props=('C09',),
             requires=['implies(info is not None, %s)' % ' and '.join(WFI)],
             ensures={
                 'C09.%s.section_and_index' % _fn: "implies(info is not None and info.type == %d, result is not None and "
                                                   "result.offset == iface_section_start(info, '%s') + n * info.typelib.data.%s and "
                                                   "result.type == %d and result.typelib is info.typelib)"
                                                   % (INFO_TYPE['INTERFACE'], _section, _size, INFO_TYPE[_ty]),
                 'C09.%s.rejects_other_infos' % _fn: "implies(info is None or info.type != %d, result is None)" % INFO_TYPE['INTERFACE'],
             })


# ---- structs, unions, enumerations (gistructinfo.c, giunioninfo.c, gienuminfo.c) ----------------------------------------
class StructBlob(Buffer): pass
class UnionBlob(Buffer): pass
class EnumBlob(Buffer): pass


GIStructInfo = GIUnionInfo = GIEnumInfo = GIValueInfo = GIRealInfo
for _c in (StructBlob, UnionBlob, EnumBlob):
    UNIVERSE.register(_c)
_asn(_sys.modules[__name__])
_schema(Header, struct_blob_size='int', union_blob_size='int', enum_blob_size='int', value_blob_size='int')
_schema(StructBlob, n_fields='int', n_methods='int')
_schema(UnionBlob, n_fields='int', n_functions='int')
_schema(EnumBlob, n_values='int', n_methods='int')
INFO_TYPE.update({'ENUM': 5, 'FLAGS': 6, 'UNION': 11, 'VALUE': 12})
CFS, CFU, CFE = 'girepository/gistructinfo.c', 'girepository/giunioninfo.c', 'girepository/gienuminfo.c'
HDR = 'isinstance(info.typelib.data, Header)'

contract('c:g_struct_get_field_offset', cfile=CFS, params={'info': 'GIRealInfo', 'n': 'int'}, returns='int', props=('C09',),
         requires=[HDR, 'n >= 0'],
         loops={1: {'invariant': ['0 <= i and i <= n', "offset == FOLD('SOFF', i)"],
                    'modifies': [], 'var_types': {'i': 'int', 'offset': 'int', 'field_blob': 'FieldBlob'},
                    'folds': {'SOFF': {'type': 'int', 'init': 'info.offset + info.typelib.data.struct_blob_size',
                                       'step': "ACC + info.typelib.data.field_blob_size + "
                                               "(info.typelib.data.callback_blob_size if "
                                               "__elemref(info.typelib.data, ACC).has_embedded_type != 0 else 0)"}},
                    'index': 'i'}},
         ensures={'C09.struct_field_offset.walks_fields_and_embedded_callbacks': "result == FOLD('SOFF', n)"})

contract('c:g_union_info_get_field', cfile=CFU, params={'info': 'GIRealInfo', 'n': 'int'}, returns='GIRealInfo', props=('C09',),
         requires=[HDR],
         ensures={'C09.g_union_info_get_field.section_and_index':
                  'result.offset == info.offset + info.typelib.data.union_blob_size + n * info.typelib.data.field_blob_size and '
                  'result.type == %d and result.typelib is info.typelib' % INFO_TYPE['FIELD']})
contract('c:g_union_info_get_method', cfile=CFU, params={'info': 'GIRealInfo', 'n': 'int'}, returns='GIRealInfo', props=('C09',),
         requires=[HDR, 'isinstance(blob_of(info), UnionBlob)'],
         ensures={'C09.g_union_info_get_method.section_and_index':
                  'result.offset == info.offset + info.typelib.data.union_blob_size + '
                  'blob_of(info).n_fields * info.typelib.data.field_blob_size + n * info.typelib.data.function_blob_size and '
                  'result.type == %d and result.typelib is info.typelib' % INFO_TYPE['FUNCTION']})
ENUMISH = '(info.type == %d or info.type == %d)' % (INFO_TYPE['ENUM'], INFO_TYPE['FLAGS'])
contract('c:g_enum_info_get_value', cfile=CFE, params={'info': 'GIRealInfo?', 'n': 'int'}, returns='GIRealInfo?', props=('C09',),
         requires=['implies(info is not None, %s)' % HDR],
         ensures={'C09.g_enum_info_get_value.section_and_index':
                  'implies(info is not None and %s, result is not None and '
                  'result.offset == info.offset + info.typelib.data.enum_blob_size + n * info.typelib.data.value_blob_size and '
                  'result.type == %d and result.typelib is info.typelib)' % (ENUMISH, INFO_TYPE['VALUE']),
                  'C09.g_enum_info_get_value.rejects_other_infos': 'implies(info is None or not %s, result is None)' % ENUMISH})
contract('c:g_enum_info_get_method', cfile=CFE, params={'info': 'GIRealInfo?', 'n': 'int'}, returns='GIRealInfo?', props=('C09',),
         requires=['implies(info is not None, %s and isinstance(blob_of(info), EnumBlob))' % HDR],
         ensures={'C09.g_enum_info_get_method.section_and_index':
                  'implies(info is not None and %s, result is not None and '
                  'result.offset == info.offset + info.typelib.data.enum_blob_size + '
                  'blob_of(info).n_values * info.typelib.data.value_blob_size + n * info.typelib.data.function_blob_size and '
                  'result.type == %d and result.typelib is info.typelib)' % (ENUMISH, INFO_TYPE['FUNCTION']),
                  'C09.g_enum_info_get_method.rejects_other_infos': 'implies(info is None or not %s, result is None)' % ENUMISH})


# ---- type slots (gibaseinfo.c): a SimpleTypeBlob is either an inline basic type or the offset of a complex type blob ----------------
class SimpleTypeBlob(Buffer): pass
class SimpleTypeBlobFlags(object): pass
for _c in (SimpleTypeBlob, SimpleTypeBlobFlags):
    UNIVERSE.register(_c)
_schema(SimpleTypeBlob, flags='SimpleTypeBlobFlags', offset='int')
_schema(SimpleTypeBlobFlags, reserved='int', reserved2='int', pointer='int', reserved3='int', tag='int')
_schema(GIRealInfo, repository='any')
GI_INFO_TYPE_TYPE = 18
BI = 'girepository/gibaseinfo.c'


def slot(typelib, offset):
    return __elemref(typelib.data, offset)


def union_layout(typelib, offset):
    """gitypelib-internal.h: SimpleTypeBlob is a union of a 32-bit offset and bit fields; with the bit-field allocation of GCC on a
    little-endian target `reserved` are bits 0-7 and `reserved2` bits 8-23 of that word (assumed)"""
    s = slot(typelib, offset)
    return 0 <= s.offset and s.flags.reserved == s.offset % 256 and s.flags.reserved2 == (s.offset // 256) % 65536


def type_blob_offset(typelib, offset):
    """format rule: a slot whose low 24 bits are all zero holds an inline basic type (the info describes the slot itself),
    any other value is the offset of the complex type blob"""
    s = slot(typelib, offset)
    return offset if s.offset % 16777216 == 0 else s.offset


contract('c:_g_type_info_new', cfile=BI, params={'container': 'any', 'typelib': 'GITypelib', 'offset': 'int'}, returns='GIRealInfo',
         props=('C09',), requires=['isinstance(slot(typelib, offset), SimpleTypeBlob)', 'union_layout(typelib, offset)'],
         ensures={'C09.type_slot.inline_or_offset':
                  'result.type == GI_INFO_TYPE_TYPE and result.typelib is typelib and result.offset == type_blob_offset(typelib, offset)'},
         note='used by every accessor that hands out a GITypeInfo (argument, return value, field, property, constant types)')
contract('c:_g_info_init', params={'info': 'GIRealInfo', 'type': 'int', 'repository': 'any', 'container': 'any',
                                   'typelib': 'GITypelib', 'offset': 'int'}, trusted=True, events=True,
         modifies=['info.type', 'info.typelib', 'info.offset', 'info.repository'],
         ensures={'at': 'info.offset == offset and info.typelib is typelib and info.type == type'})
contract('c:_g_type_info_init', cfile=BI, params={'info': 'GIRealInfo', 'container': 'GIRealInfo', 'typelib': 'GITypelib', 'offset': 'int'},
         props=('C09',), requires=['isinstance(slot(typelib, offset), SimpleTypeBlob)', 'union_layout(typelib, offset)'],
         modifies=['info.type', 'info.typelib', 'info.offset', 'info.repository'],
         ensures={'C09.type_slot.inline_or_offset_stack_info':
                  'info.type == GI_INFO_TYPE_TYPE and info.typelib is typelib and info.offset == type_blob_offset(typelib, offset)'})


# ---- properties (gipropertyinfo.c): the accessor functions recorded in the PropertyBlob -------------------------------------------------
class PropertyBlob(Buffer): pass
UNIVERSE.register(PropertyBlob)
_schema(PropertyBlob, readable='int', writable='int', construct='int', construct_only='int', setter='int', getter='int')
_schema(GIRealInfo, container='GIRealInfo?')
ACCESSOR_SENTINEL = 0x3ff
PF = 'girepository/gipropertyinfo.c'
CONT_WF = ('implies(info is not None and info.container is not None and info.container.type == %d, '
           'isinstance(info.container.typelib.data, Header) and isinstance(blob_of(info.container), ObjectBlob))' % INFO_TYPE['OBJECT'],
           'implies(info is not None and info.container is not None and info.container.type == 8, '
           'isinstance(info.container.typelib.data, Header) and isinstance(blob_of(info.container), InterfaceBlob))')


def method_of_container(info, index):
    """offset of method `index` of the object / interface that owns the property"""
    c = info.container
    if c.type == 7:
        return section_start(c, 'methods') + index * c.typelib.data.function_blob_size
    return iface_section_start(c, 'methods') + index * c.typelib.data.function_blob_size


for _fn, _field, _avail in (('g_property_info_get_setter', 'setter', 'blob_of(info).writable != 0 and blob_of(info).construct_only == 0'),
                            ('g_property_info_get_getter', 'getter', 'blob_of(info).readable != 0')):
    contract('c:' + _fn, cfile=PF, params={'info': 'GIRealInfo?'}, returns='GIRealInfo?', props=('C09',),
             requires=['implies(info is not None, isinstance(blob_of(info), PropertyBlob) and info.container is not None)'] + list(CONT_WF),
             ensures={
                 'C09.property.%s_is_the_method_recorded_in_the_blob' % _field:
                     "implies(info is not None and info.type == %d and %s and blob_of(info).%s != ACCESSOR_SENTINEL and "
                     "info.container.type in (7, 8), result is not None and result.type == %d and "
                     "result.offset == method_of_container(info, blob_of(info).%s))"
                     % (INFO_TYPE['PROPERTY'], _avail, _field, INFO_TYPE['FUNCTION'], _field),
                 'C09.property.no_%s_when_none_is_recorded' % _field:
                     "implies(info is not None and info.type == %d and (not (%s) or blob_of(info).%s == ACCESSOR_SENTINEL), result is None)"
                     % (INFO_TYPE['PROPERTY'], _avail, _field),
             },
             note='whether a property has a setter / getter depends on writable / construct-only (readable) and the sentinel only - '
                  'not on the construct flag')
