"""C01 - parameter / return annotations are reflected exactly (application half, maintransformer)."""
from givc.contracts import contract, inline
from . import schema   # noqa
from . import c11_message  # noqa  (message.* contracts)
from .c02_defaults import denotes, BASIC_NAMES
from giscanner import ast

MT = 'giscanner.maintransformer.MainTransformer.'

# ---- frozen oracle (giannotations.rst + property statement) -----------------------------------
# C-level basic (non pointer-sized) types: values of these types are never pointers
BASIC_C_NAMES = tuple(n for n in BASIC_NAMES if n not in ('gintptr', 'guintptr'))


def spec_target(self, node):
    """what the value's type stands for: the looked-up node with aliases removed, else the type itself"""
    t = self._transformer.resolve_aliases(self._transformer.lookup_typenode(node.type))
    return node.type if t is None else t


def spec_pointer_like(self, node):
    """out/inout parameters are pointers; otherwise everything except a basic C type without a `*`"""
    if not isinstance(node, ast.Return) and node.direction in ('out', 'inout'):
        return True
    target = spec_target(self, node)
    if not isinstance(target, ast.Type):
        return True
    if target.target_fundamental not in BASIC_C_NAMES:
        return True
    return target.ctype.endswith('*')


def valid_transfer(self, o, node, annotations):
    target = spec_target(self, node)
    node_type = target if isinstance(target, ast.Type) else node.type
    if o == 'floating':
        return isinstance(target, (ast.Class, ast.Interface)) or \
            node_type.target_giname == 'GLib.Variant' or node_type.target_giname == 'GObject.Closure'
    if o == 'container':
        return 'array' in annotations or isinstance(target, (ast.Array, ast.List, ast.Map))
    return spec_pointer_like(self, node) or node_type.target_fundamental in ('utf8', 'filename') or \
        isinstance(target, (ast.Array, ast.List, ast.Map, ast.Record, ast.Union, ast.Boxed, ast.Class, ast.Interface))


CTYPE_OK = "node.type.ctype is not None"

contract(MT + '_is_pointer_type',
         params={'self': 'MainTransformer', 'node': 'Parameter|Return', 'annotations': 'Annotations'},
         returns='bool', props=('C01',), requires=[CTYPE_OK],
         raises={'KeyError': 'True'},
         ensures={'C01.is_pointer.definition': 'result == spec_pointer_like(self, node)',
                  'C01.is_pointer.plain_integer_in_param_is_not': "implies(isinstance(node, ast.Parameter) and "
                  "node.direction not in ('out', 'inout') and node.type.target_fundamental == 'gint' and "
                  "node.type.ctype == 'gint' and not node.type.target_giname, not result)"})

contract(MT + '_apply_transfer_annotation',
         params={'self': 'MainTransformer', 'parent': 'Node', 'node': 'Parameter|Return', 'annotations': 'Annotations'},
         props=('C01',), requires=[CTYPE_OK],
         modifies=['node.transfer', 'LOGGER._warning_count'], raises={'KeyError': 'True'},
         let={'opts': "annotations.get('transfer')",
              'live': "bool(annotations.get('transfer')) and len(annotations.get('transfer')) == 1"},
         ensures={
             'C01.transfer.applied': "implies(live and valid_transfer(self, opts[0], node, annotations), "
                                     "node.transfer == ('none' if opts[0] == 'floating' else opts[0]) "
                                     "and LOGGER._warning_count == old(LOGGER._warning_count))",
             'C01.transfer.rejected_warns_and_keeps': "implies(live and not valid_transfer(self, opts[0], node, annotations), "
                                                      "node.transfer == old(node.transfer) "
                                                      "and LOGGER._warning_count == old(LOGGER._warning_count) + 1)",
             'C01.transfer.absent_is_noop': "implies(not live, node.transfer == old(node.transfer) "
                                            "and LOGGER._warning_count == old(LOGGER._warning_count))",
             'C01.transfer.plain_integer_rejected': "implies(live and opts[0] == 'full' and isinstance(node, ast.Parameter) "
                                                    "and node.direction not in ('out', 'inout') "
                                                    "and node.type.target_fundamental == 'gint' and node.type.ctype == 'gint' "
                                                    "and not node.type.target_giname, "
                                                    "node.transfer == old(node.transfer) "
                                                    "and LOGGER._warning_count == old(LOGGER._warning_count) + 1)",
         })
