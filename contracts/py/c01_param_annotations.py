"""C01 - parameter / return annotations are reflected exactly (application half, maintransformer)."""
from givc.contracts import contract, inline
from . import schema   # noqa
from . import c11_message  # noqa  (message.* contracts)
from . import c05_introspectable  # noqa  (index / field lookups)
from .c02_defaults import denotes, BASIC_NAMES
from giscanner import ast

MT = 'giscanner.maintransformer.MainTransformer.'

# ---- frozen oracle (giannotations.rst + property statement) -----------------------------------
# C-level basic (non pointer-sized) types: values of these types are never pointers
BASIC_C_NAMES = tuple(n for n in BASIC_NAMES if n not in ('gintptr', 'guintptr'))


def spec_target(self, node):
    """what the value's type stands for: the looked-up node with aliases removed, else the type itself"""
    t = self._transformer.resolve_aliases(self._transformer.lookup_typenode(node.type))
    return node.type if t is None else t


def spec_pointer_like(self, node):
    """out/inout parameters are pointers; otherwise everything except a basic C type without a `*`"""
    if not isinstance(node, ast.Return) and node.direction in ('out', 'inout'):
        return True
    target = spec_target(self, node)
    if not isinstance(target, ast.Type):
        return True
    if target.target_fundamental not in BASIC_C_NAMES:
        return True
    return target.ctype.endswith('*')


def valid_transfer(self, o, node, annotations):
    target = spec_target(self, node)
    node_type = target if isinstance(target, ast.Type) else node.type
    if o == 'floating':
        return isinstance(target, (ast.Class, ast.Interface)) or \
            node_type.target_giname == 'GLib.Variant' or node_type.target_giname == 'GObject.Closure'
    if o == 'container':
        return 'array' in annotations or isinstance(target, (ast.Array, ast.List, ast.Map))
    return spec_pointer_like(self, node) or node_type.target_fundamental in ('utf8', 'filename') or \
        isinstance(target, (ast.Array, ast.List, ast.Map, ast.Record, ast.Union, ast.Boxed, ast.Class, ast.Interface))


CTYPE_OK = "node.type.ctype is not None"

contract(MT + '_is_pointer_type',
         params={'self': 'MainTransformer', 'node': 'Parameter|Return', 'annotations': 'Annotations'},
         returns='bool', props=('C01',), requires=[CTYPE_OK],
         raises={'KeyError': 'True'},
         ensures={'C01.is_pointer.definition': 'result == spec_pointer_like(self, node)',
                  'C01.is_pointer.plain_integer_in_param_is_not': "implies(isinstance(node, ast.Parameter) and "
                  "node.direction not in ('out', 'inout') and node.type.target_fundamental == 'gint' and "
                  "node.type.ctype == 'gint' and not node.type.target_giname, not result)"})

contract(MT + '_apply_transfer_annotation',
         params={'self': 'MainTransformer', 'parent': 'Node', 'node': 'Parameter|Return', 'annotations': 'Annotations'},
         props=('C01',), requires=[CTYPE_OK],
         modifies=['node.transfer', 'LOGGER._warning_count'], raises={'KeyError': 'True'},
         let={'opts': "annotations.get('transfer')",
              'live': "bool(annotations.get('transfer')) and len(annotations.get('transfer')) == 1"},
         ensures={
             'C01.transfer.applied': "implies(live and valid_transfer(self, opts[0], node, annotations), "
                                     "node.transfer == ('none' if opts[0] == 'floating' else opts[0]) "
                                     "and LOGGER._warning_count == old(LOGGER._warning_count))",
             'C01.transfer.rejected_warns_and_keeps': "implies(live and not valid_transfer(self, opts[0], node, annotations), "
                                                      "node.transfer == old(node.transfer) "
                                                      "and LOGGER._warning_count == old(LOGGER._warning_count) + 1)",
             'C01.transfer.absent_is_noop': "implies(not live, node.transfer == old(node.transfer) "
                                            "and LOGGER._warning_count == old(LOGGER._warning_count))",
             'C01.transfer.plain_integer_rejected': "implies(live and opts[0] == 'full' and isinstance(node, ast.Parameter) "
                                                    "and node.direction not in ('out', 'inout') "
                                                    "and node.type.target_fundamental == 'gint' and node.type.ctype == 'gint' "
                                                    "and not node.type.target_giname, "
                                                    "node.transfer == old(node.transfer) "
                                                    "and LOGGER._warning_count == old(LOGGER._warning_count) + 1)",
         })

# ------------------------------------------------------------------------------------------------
contract(MT + '_resolve_toplevel',
         params={'self': 'MainTransformer', 'type_str': 'str', 'type_node': 'Type?', 'node': 'any', 'parent': 'any'},
         returns='Type', fresh_result=True, trusted=True,
         modifies=['LOGGER._warning_count'], raises={'KeyError': 'maybe'},
         ensures={'keeps_ctype': "implies(type_node is not None, result.ctype == type_node.ctype and "
                                 "result.complete_ctype == type_node.complete_ctype)",
                  'count_monotone': 'LOGGER._warning_count >= old(LOGGER._warning_count)'},
         note='(type ...) annotation: type-string parser (_resolve) is not under contract')


def has(tag, name):
    return tag is not None and name in tag.annotations


def annotated_direction(tag):
    if has(tag, 'inout'):
        return 'inout'
    if has(tag, 'out'):
        return 'out'
    if has(tag, 'in'):
        return 'in'
    return None


def container_annotated(tag):
    return has(tag, 'array') or has(tag, 'element-type')


# a length option names a field of the enclosing compound or a parameter of the enclosing callable; anywhere else (e.g.
# a field of a class, which is not an ast.Compound) the lookup raises AttributeError, which _apply_annotations_field swallows
LENGTH_SITE_OK = ("implies(annotations['array'].get('length'), (isinstance(parent, ast.Compound) and isinstance(node, ast.Field)) or "
                  "(isinstance(parent, ast.Callable) and not isinstance(node, ast.Field)))")
contract(MT + '_check_array_element_type',
         params={'self': 'MainTransformer', 'array': 'Array', 'annotations': 'Annotations'}, trusted=True,
         modifies=['LOGGER._warning_count'], ensures={'count_monotone': 'LOGGER._warning_count >= old(LOGGER._warning_count)'},
         note='warns about element types that a GPtrArray / GByteArray cannot hold; membership tests over tables of Type objects')
contract(MT + '_adjust_container_type',
         params={'self': 'MainTransformer', 'parent': 'Node', 'node': 'Parameter|Return|Field', 'annotations': 'Annotations'},
         props=('C01',), requires=['node.type is not None', "implies('array' in annotations, %s)" % LENGTH_SITE_OK],
         modifies=['node.type', '*.direction', '*.transfer', '*.element_type', '*.key_type', '*.value_type',
                   'LOGGER._warning_count'],
         raises={'KeyError': 'True', 'SystemExit': 'True', 'AssertionError': 'True', 'ValueError': 'True'},
         ensures={
             'direction_kept': 'implies(not isinstance(node, ast.Field), node.direction == old(node.direction))',
             'transfer_kept': "implies(not isinstance(node, ast.Field), node.transfer == old(node.transfer) or 'array' in annotations)",
             'type_kept_without_array': "implies('array' not in annotations, node.type is old(node.type))",
             'noop_without_container_annotation': "implies('array' not in annotations and 'element-type' not in annotations "
                                                  "and not isinstance(old(node.type), ast.Array), "
                                                  "LOGGER._warning_count == old(LOGGER._warning_count))",
             'ctype_kept': "node.type.ctype == old(node.type.ctype)",
             'fundamental_array': "implies('array' in annotations, isinstance(node.type, ast.Array) or node.type is old(node.type))",
             'count_monotone': 'LOGGER._warning_count >= old(LOGGER._warning_count)',
         },
         note='array / element-type handling is verified separately (C01.array.*)')


def expected_caller_allocates(self, node, tag):
    """(out) with an option: as written; bare (out): structures/unions passed by single indirection"""
    options = tag.annotations['out']
    if len(options) == 0:
        if node.type.target_giname and node.type.ctype:
            target = self._transformer.resolve_aliases(self._transformer.lookup_giname(node.type.target_giname))
            return ('**' not in node.type.ctype) and isinstance(target, (ast.Record, ast.Union))
        return False
    if options[0] == 'caller-allocates':
        return True
    return False


contract(MT + '_apply_annotations_param_ret_common',
         params={'self': 'MainTransformer', 'parent': 'Callable', 'node': 'Parameter|Return', 'tag': 'GtkDocParameter|GtkDocTag?'},
         props=('C01', 'C02'), chunks=4,
         requires=[CTYPE_OK, 'node.type is not None'],
         modifies=['node.type', 'node.direction', 'node.caller_allocates', 'node.nullable', 'node.not_nullable',
                   'node.optional', 'node.skip', 'node.doc', 'node.doc_position', 'node.attributes{}',
                   '*.transfer', '*.direction', '*.element_type', '*.key_type', '*.value_type',
                   'LOGGER._warning_count'],
         raises={'KeyError': 'True', 'AssertionError': 'True', 'SystemExit': 'True', 'ValueError': 'True'},
         loops={1: {'invariant': ['node.skip == (old(node.skip) or has(tag, "skip"))',
                                  'LOGGER._warning_count >= old(LOGGER._warning_count)'],
                    'modifies': ['node.attributes{}']}},
         let={'adir': 'annotated_direction(tag)'},
         ensures={
             # ---- direction
             'C01.direction.applied': "implies(adir is not None, node.direction == adir)",
             'C01.direction.absent_unchanged': "implies(adir is None, node.direction == old(node.direction))",
             'C01.direction.caller_allocates': "implies(adir == 'out' and old(node.direction) != 'out' and not has(tag, 'array'), "
                                               "node.caller_allocates == expected_caller_allocates(self, node, tag))",
             'C01.direction.inout_in_not_caller_allocated': "implies(adir in ('inout', 'in') and old(node.direction) != adir, "
                                                            "node.caller_allocates == False)",
             'C01.direction.unchanged_keeps_allocation': "implies(adir is None and isinstance(node, ast.Parameter), node.caller_allocates == old(node.caller_allocates))",
             # ---- nullable / optional / not
             'C01.nullable.valid_applied': "implies(has(tag, 'nullable') and spec_pointer_like(self, node) and not has(tag, 'not'), "
                                           "node.nullable == True and node.not_nullable == False)",
             'C01.nullable.invalid_unchanged': "implies(has(tag, 'nullable') and not spec_pointer_like(self, node) "
                                               "and not has(tag, 'not') and not has(tag, 'allow-none'), "
                                               "node.nullable == (old(node.nullable) or denotes(node.type, ('gpointer',)) "
                                               " or (node.direction != 'out' and node.type.target_giname in ('Gio.AsyncReadyCallback', 'Gio.Cancellable'))) "
                                               "and LOGGER._warning_count > old(LOGGER._warning_count))",
             'C01.optional.valid_applied': "implies(has(tag, 'optional') and isinstance(node, ast.Parameter) "
                                           "and node.direction in ('out', 'inout'), node.optional == True)",
             'C01.optional.invalid_unchanged': "implies(has(tag, 'optional') and not (isinstance(node, ast.Parameter) "
                                               "and node.direction in ('out', 'inout')) and not has(tag, 'allow-none'), "
                                               "isinstance(node, ast.Return) or (node.optional == old(node.optional) "
                                               "and LOGGER._warning_count > old(LOGGER._warning_count)))",
             'C01.optional.in_parameter_rejected': "implies(has(tag, 'optional') and isinstance(node, ast.Parameter) "
                                                   "and node.direction not in ('out', 'inout') and not has(tag, 'allow-none'), "
                                                   "node.optional == old(node.optional) and LOGGER._warning_count > old(LOGGER._warning_count))",
             'C01.allow_none.out_param_optional': "implies(has(tag, 'allow-none') and isinstance(node, ast.Parameter) "
                                                  "and node.direction == 'out', node.optional == True)",
             'C01.allow_none.pointer_nullable': "implies(has(tag, 'allow-none') and not (isinstance(node, ast.Parameter) "
                                                "and node.direction == 'out') and spec_pointer_like(self, node) and not has(tag, 'not'), "
                                                "node.nullable == True)",
             'C01.not.overrides': "implies(has(tag, 'not'), node.nullable == False and node.not_nullable == True)",
             # ---- no annotation => exact no-op on these attributes (quiet)
             'C01.unannotated.quiet': "implies(tag is None and not isinstance(old(node.type), ast.Array), LOGGER._warning_count == old(LOGGER._warning_count) "
                                      "and node.direction == old(node.direction) and (isinstance(node, ast.Return) or node.optional == old(node.optional)) "
                                      "and node.skip == old(node.skip) and node.transfer == old(node.transfer) "
                                      "and node.type is old(node.type) and node.not_nullable == old(node.not_nullable))",
             'C01.valid_only.quiet': "implies(tag is not None and not container_annotated(tag) and not has(tag, 'type') "
                                     "and (adir is None or isinstance(node, ast.Parameter)) "
                                     "and not isinstance(old(node.type), ast.Array) "
                                     "and (not has(tag, 'nullable') or spec_pointer_like(self, node)) "
                                     "and (not has(tag, 'allow-none') or spec_pointer_like(self, node) or "
                                     "     (isinstance(node, ast.Parameter) and node.direction == 'out')) "
                                     "and (not has(tag, 'optional') or (isinstance(node, ast.Parameter) and node.direction in ('out', 'inout'))) "
                                     "and (not (bool(tag.annotations.get('transfer')) and len(tag.annotations.get('transfer')) == 1) "
                                     "     or valid_transfer(self, tag.annotations.get('transfer')[0], node, tag.annotations)), "
                                     "LOGGER._warning_count == old(LOGGER._warning_count))",
             # ---- skip / doc
             'C01.skip': "node.skip == (old(node.skip) or has(tag, 'skip'))",
             'C01.doc': "implies(tag is not None and bool(tag.description), node.doc == tag.description)",
             # ---- transfer
             'C01.transfer.valid_applied': "implies(tag is not None and not has(tag, 'array') "
                                           "and bool(tag.annotations.get('transfer')) and len(tag.annotations.get('transfer')) == 1 "
                                           "and valid_transfer(self, tag.annotations.get('transfer')[0], node, tag.annotations) "
                                           "and not has(tag, 'type'), "
                                           "node.transfer == ('none' if tag.annotations.get('transfer')[0] == 'floating' "
                                           "else tag.annotations.get('transfer')[0]))",
             # ---- C02: untyped pointers are nullable by default
             'C02.gpointer_nullable': "implies(denotes(node.type, ('gpointer',)) and not has(tag, 'not'), node.nullable == True)",
         })


# ------------------------------------------------------------------------------------------------
# (array ...): zero-termination, fixed size, length parameter (and the length parameter following the direction)
contract('giscanner.ast.Callable.get_parameter', params={'self': 'Callable', 'name': 'str?'}, returns='Parameter',
         trusted=True, pure_keys=['self', 'name'], raises={'ValueError': 'maybe'},
         ensures={'names_it': 'result.argname == name'},
         note='linear search over instance parameter + parameters (list concatenation not modelled)')

contract(MT + '_resolve',
         params={'self': 'MainTransformer', 'type_str': 'str', 'type_node': 'Type?', 'node': 'any', 'parent': 'any'},
         returns='Type', fresh_result=True, trusted=True, modifies=['LOGGER._warning_count'], raises={'KeyError': 'maybe'},
         ensures={'count_monotone': 'LOGGER._warning_count >= old(LOGGER._warning_count)'},
         note='type-string parser of (element-type ...) / (type ...): not under contract')

contract(MT + '_get_validate_parameter_name',
         params={'self': 'MainTransformer', 'parent': 'Callable', 'param_name': 'str', 'origin': 'Parameter|Return'},
         returns='str', props=('C01',), modifies=['LOGGER._warning_count'],
         raises={'SystemExit': 'True'},
         ensures={'C01.array.length_names_an_existing_parameter':
                  'result == param_name and parent.get_parameter(param_name).argname == param_name',
                  'C01.array.length_lookup_is_quiet': 'LOGGER._warning_count == old(LOGGER._warning_count)'},
         note='an unknown name is a fatal diagnostic (SystemExit), never a silently wrong index')

contract(MT + '_get_validate_field_name',
         params={'self': 'MainTransformer', 'parent': 'Compound', 'field_name': 'str', 'origin': 'Field'},
         returns='str', props=('C01',), modifies=['LOGGER._warning_count'],
         raises={'SystemExit': 'True'},
         ensures={'C01.array.length_names_an_existing_field': 'result == field_name',
                  'C01.array.length_field_lookup_is_quiet': 'LOGGER._warning_count == old(LOGGER._warning_count)'})
inline('giscanner.ast.Type.clone', 'giscanner.ast.Array.clone', 'giscanner.ast.List.clone', 'giscanner.ast.Map.clone')


def zt_written(opts):
    return 'zero-terminated' in opts


def zt_expected(opts):
    """(array zero-terminated) and zero-terminated=1 mean true, zero-terminated=0 means false"""
    return opts['zero-terminated'] != '0'


def is_decimal(s):
    return s is not None and s != '' and s.isdigit()


ARR_APPLIED = "isinstance(node.type, ast.Array) and node.type is not old(node.type)"
contract(MT + '_apply_annotations_array',
         params={'self': 'MainTransformer', 'parent': 'Node', 'node': 'Parameter|Return|Field',
                 'annotations': 'Annotations'},
         props=('C01',), requires=["'array' in annotations", 'node.type is not None', LENGTH_SITE_OK],
         casts=[('paramname = self._get_validate_field_name(parent, length, node)', 'parent', 'Compound'),
                ('paramname = self._get_validate_field_name(parent, length, node)', 'node', 'Field'),
                ('paramname = self._get_validate_parameter_name(parent, length, node)', 'parent', 'Callable'),
                ('paramname = self._get_validate_parameter_name(parent, length, node)', 'node', 'Parameter|Return')],
         let={'opts': "annotations['array']"},
         modifies=['node.type', '*.direction', '*.transfer', 'LOGGER._warning_count'],
         raises={'KeyError': 'True', 'SystemExit': 'True', 'AssertionError': 'True', 'ValueError': 'True'},
         ensures={
             'C01.array.becomes_an_array': "implies(not opts.get('fixed-size'), " + ARR_APPLIED + ")",
             'C01.array.zero_terminated_as_written':
                 "implies(" + ARR_APPLIED + " and zt_written(opts), node.type.zeroterminated == zt_expected(opts))",
             'C01.array.not_zero_terminated_when_not_written':
                 "implies(" + ARR_APPLIED + " and not zt_written(opts), not node.type.zeroterminated)",
             'C01.array.fixed_size_as_written':
                 "implies(" + ARR_APPLIED + " and opts.get('fixed-size'), node.type.size is not None and "
                 "str(node.type.size) == opts['fixed-size'])",
             'C01.array.no_fixed_size_when_not_written':
                 "implies(" + ARR_APPLIED + " and not opts.get('fixed-size'), node.type.size is None)",
             'C01.array.length_parameter_as_written':
                 "implies(" + ARR_APPLIED + " and opts.get('length'), node.type.length_param_name == opts['length'])",
             'C01.array.no_length_when_not_written':
                 "implies(" + ARR_APPLIED + " and not opts.get('length'), node.type.length_param_name is None)",
             'C01.array.length_parameter_follows_direction':
                 "implies(" + ARR_APPLIED + " and opts.get('length') and isinstance(parent, ast.Callable), "
                 "parent.get_parameter(opts['length']).direction == node.direction and "
                 "implies(node.direction == 'out', parent.get_parameter(opts['length']).transfer == 'full'))",
             'C01.array.keeps_ctype': "implies(" + ARR_APPLIED + ", node.type.ctype == old(node.type.ctype) and "
                                      "node.type.complete_ctype == old(node.type.complete_ctype))",
             'C01.array.container_kind_kept': "implies(" + ARR_APPLIED + " and isinstance(old(node.type), ast.Array), "
                                              "node.type.array_type == old(node.type.array_type))",
             'C01.array.own_direction_kept': 'implies(not isinstance(node, ast.Field), node.direction == old(node.direction))',
             'C01.array.type_replaced_or_kept': "isinstance(node.type, ast.Array) and node.type is not old(node.type) or node.type is old(node.type)",
             'C01.array.count_only_grows': 'LOGGER._warning_count >= old(LOGGER._warning_count)',
         })


# ------------------------------------------------------------------------------------------------
# (scope) / (destroy) / (closure) on callback parameters of functions, and (closure) inside callback types
def target_node(self, p):
    return self._transformer.resolve_aliases(self._transformer.lookup_typenode(p.type))


def is_callback_param(self, p):
    return isinstance(target_node(self, p), ast.Callback)


def one_option(tag, name):
    """the single option of annotation `name` on the tag, or None"""
    if tag is None or name not in tag.annotations:
        return None
    opts = tag.annotations[name]
    if opts and len(opts) == 1:
        return opts[0]
    return None


def n_callback_only_annotations(tag):
    if tag is None:
        return 0
    return (1 if 'scope' in tag.annotations else 0) + (1 if 'destroy' in tag.annotations else 0) + \
        (1 if 'closure' in tag.annotations else 0)


contract(MT + '_apply_annotations_param_callback',
         params={'self': 'MainTransformer', 'parent': 'Function|VFunction', 'param': 'Parameter', 'tag': 'GtkDocParameter?'},
         props=('C01',),
         modifies=['*.scope', 'param.destroy_name', 'param.closure_name', 'LOGGER._warning_count'],
         raises={'KeyError': 'True', 'SystemExit': 'True', 'ValueError': 'True'},
         let={'is_cb': 'is_callback_param(self, param)'},
         ensures={
             'C01.callback.invalid_on_non_callbacks_warns_and_changes_nothing':
                 "implies(not is_cb, param.scope == old(param.scope) and param.destroy_name == old(param.destroy_name) and "
                 "param.closure_name == old(param.closure_name) and "
                 "LOGGER._warning_count == old(LOGGER._warning_count) + n_callback_only_annotations(tag))",
             'C01.callback.scope_as_written':
                 "implies(is_cb and one_option(tag, 'scope') is not None and one_option(tag, 'destroy') is None, "
                 "param.scope == one_option(tag, 'scope'))",
             'C01.callback.destroy_as_written':
                 "implies(is_cb and one_option(tag, 'destroy') is not None, param.destroy_name == one_option(tag, 'destroy') "
                 "and param.scope == 'notified' and parent.get_parameter(one_option(tag, 'destroy')).scope == 'notified')",
             'C01.callback.closure_as_written':
                 "implies(is_cb and one_option(tag, 'closure') is not None, param.closure_name == one_option(tag, 'closure'))",
             'C01.callback.untouched_without_annotation':
                 "implies(one_option(tag, 'scope') is None and one_option(tag, 'destroy') is None, param.scope == old(param.scope)) and "
                 "implies(one_option(tag, 'destroy') is None, param.destroy_name == old(param.destroy_name)) and "
                 "implies(one_option(tag, 'closure') is None, param.closure_name == old(param.closure_name))",
             'C01.callback.valid_annotations_are_quiet':
                 "implies(is_cb and one_option(tag, 'closure') is None, LOGGER._warning_count == old(LOGGER._warning_count))",
         })


contract(MT + '_apply_annotations_param_closure',
         params={'self': 'MainTransformer', 'parent': 'Callback', 'param': 'Parameter', 'tag': 'GtkDocParameter?'},
         props=('C01',), modifies=['param.closure_name', 'LOGGER._warning_count'], raises={'KeyError': 'True'},
         ensures={
             'C01.closure.marks_itself_as_user_data':
                 "implies(has(tag, 'closure') and len(tag.annotations['closure']) == 0, param.closure_name == param.argname)",
             'C01.closure.with_argument_is_rejected':
                 "implies(has(tag, 'closure') and len(tag.annotations['closure']) != 0, param.closure_name == old(param.closure_name) "
                 "and LOGGER._warning_count == old(LOGGER._warning_count) + 1)",
             'C01.closure.absent_is_noop':
                 "implies(not has(tag, 'closure'), param.closure_name == old(param.closure_name) and "
                 "LOGGER._warning_count == old(LOGGER._warning_count))",
             'C01.closure.only_on_untyped_pointers':
                 "implies(has(tag, 'closure') and len(tag.annotations['closure']) == 0 and param.type.target_giname is None and "
                 "param.type.target_fundamental == 'gpointer', LOGGER._warning_count == old(LOGGER._warning_count))",
         })


# the type a type string was resolved to: ghost attribute of the types that _resolve creates (assumed)
def resolved_from(t):
    return getattr(t, '_givc_resolved_from', None)


contract('contracts.py.c01_param_annotations.resolved_from', params={'t': 'Type?'}, returns='str?', pure_keys=['t'], trusted=True)
from givc.contracts import REGISTRY as _REG   # noqa
_REG.get(MT + '_resolve').ensures['names_the_written_type'] = 'resolved_from(result) == type_str'

ET = "annotations.get('element-type')"
contract(MT + '_apply_annotations_element_type',
         params={'self': 'MainTransformer', 'parent': 'Node', 'node': 'Parameter|Return|Field', 'annotations': 'Annotations'},
         props=('C01',), requires=['node.type is not None'],
         modifies=['node.type.element_type', 'node.type.key_type', 'node.type.value_type', 'LOGGER._warning_count'],
         raises={'KeyError': 'True'},
         let={'opts': ET, 'ty': 'node.type'},
         ensures={
             'C01.element_type.count_only_grows': 'LOGGER._warning_count >= old(LOGGER._warning_count)',
             'C01.element_type.absent_is_noop': "implies(opts is None, LOGGER._warning_count == old(LOGGER._warning_count))",
             'C01.element_type.container_object_kept': 'node.type is ty',
             'C01.element_type.list_or_array_element':
                 "implies(opts is not None and isinstance(ty, (ast.List, ast.Array)) and len(opts) == 1, "
                 "resolved_from(ty.element_type) == opts[0])",
             'C01.element_type.map_key_and_value':
                 "implies(opts is not None and isinstance(ty, ast.Map) and len(opts) == 2, "
                 "resolved_from(ty.key_type) == opts[0] and resolved_from(ty.value_type) == opts[1])",
             'C01.element_type.wrong_number_of_options_warns_and_changes_nothing':
                 "implies(opts is not None and ((isinstance(ty, (ast.List, ast.Array)) and len(opts) != 1) or "
                 "(isinstance(ty, ast.Map) and len(opts) != 2)), "
                 "LOGGER._warning_count == old(LOGGER._warning_count) + 1 and "
                 "implies(isinstance(ty, (ast.List, ast.Array)), ty.element_type is old(ty.element_type)) and "
                 "implies(isinstance(ty, ast.Map), ty.key_type is old(ty.key_type) and ty.value_type is old(ty.value_type)))",
             'C01.element_type.not_a_container_warns':
                 "implies(opts is not None and not isinstance(ty, (ast.List, ast.Array, ast.Map)), "
                 "LOGGER._warning_count == old(LOGGER._warning_count) + 1)",
         })


# ---- per-parameter / return dispatch ----------------------------------------------------------------------------------------
DISPATCH_MODS = ['node.type', 'node.direction', 'node.caller_allocates', 'node.nullable', 'node.not_nullable',
                 'node.optional', 'node.skip', 'node.doc', 'node.doc_position', 'node.attributes{}',
                 '*.transfer', '*.direction', '*.element_type', '*.key_type', '*.value_type', '*.scope',
                 'LOGGER._warning_count']
contract(MT + '_apply_annotations_param',
         params={'self': 'MainTransformer', 'parent': 'Callable', 'param': 'Parameter', 'tag': 'GtkDocParameter?',
                 'block': 'GtkDocCommentBlock?'},
         props=('C01',), requires=[CTYPE_OK.replace('node', 'param'), 'param.type is not None'],
         modifies=[m.replace('node.', 'param.') for m in DISPATCH_MODS] + ['param.destroy_name', 'param.closure_name'],
         raises={'KeyError': 'True', 'AssertionError': 'True', 'SystemExit': 'True', 'ValueError': 'True'},
         ensures={
             'C01.param.callback_annotations_only_on_functions_and_vfuncs':
                 "all_calls('_apply_annotations_param_callback', 'isinstance(parent, (ast.Function, ast.VFunction)) and "
                 "arg_parent is parent and arg_param is param and arg_tag is tag')",
             'C01.param.closure_marker_only_inside_callback_types':
                 "all_calls('_apply_annotations_param_closure', 'isinstance(parent, ast.Callback) and "
                 "arg_parent is parent and arg_param is param and arg_tag is tag')",
             'C01.param.common_annotations_always':
                 "all_calls('_apply_annotations_param_ret_common', 'arg_parent is parent and arg_node is param and arg_tag is tag')",
             'C01.param.callback_before_common':
                 "calls_ordered('_apply_annotations_param_callback', '_apply_annotations_param_ret_common') and "
                 "calls_ordered('_apply_annotations_param_closure', '_apply_annotations_param_ret_common')",
         })

contract(MT + '_apply_annotations_return',
         params={'self': 'MainTransformer', 'parent': 'Callable', 'return_': 'Return', 'block': 'GtkDocCommentBlock?'},
         props=('C01',), requires=[CTYPE_OK.replace('node', 'return_'), 'return_.type is not None'],
         modifies=[m.replace('node.', 'return_.') for m in DISPATCH_MODS],
         raises={'KeyError': 'True', 'AssertionError': 'True', 'SystemExit': 'True', 'ValueError': 'True'},
         let={'rtag': "block.tags.get('returns') if block else None",
              'is_void': "return_.type == ast.TYPE_NONE"},
         ensures={
             'C01.return.annotations_come_from_the_returns_tag':
                 "all_calls('_apply_annotations_param_ret_common', 'arg_parent is parent and arg_node is return_ and "
                 "(arg_tag is rtag or arg_tag is None)')",
             'C01.return.annotation_on_void_is_rejected_with_a_warning':
                 "implies(rtag is not None and is_void, "
                 "all_calls('_apply_annotations_param_ret_common', 'arg_tag is None') and "
                 "LOGGER._warning_count >= old(LOGGER._warning_count) + 1)",
             'C01.return.annotations_on_values_are_applied':
                 "implies(rtag is not None and not is_void, "
                 "all_calls('_apply_annotations_param_ret_common', 'arg_tag is rtag'))",
         })
