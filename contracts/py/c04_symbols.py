"""C04 - each public C symbol is described once, under the right name and owner (transformer.py, ast.py)."""
from givc.contracts import contract, inline
from . import schema   # noqa
from . import c11_message, c02_defaults   # noqa
from giscanner import ast

STRING_LEMMAS = True    # valid prefix/suffix facts are instantiated at every startswith/endswith (givc/calls.py)
T = 'giscanner.transformer.Transformer.'
NS = 'giscanner.ast.Namespace.'

# ---- prefix matching: assumed here, see the contract of _split_c_string_for_namespace_matches below -----------
contract(T + 'split_ctype_namespaces', params={'self': 'Transformer', 'ident': 'str'}, returns='list[tuple[Namespace,str]]',
         trusted=True, pure_keys=['self', 'ident'], raises={'ValueError': 'maybe'},
         ensures={'nonempty': 'len(result) >= 1'})


contract(T + '_create_parameters', params={'self': 'Transformer', 'symbol': 'SourceSymbol', 'base_type': 'SourceType'},
         returns='list[Parameter]', fresh_result=True, trusted=True, modifies=['LOGGER._warning_count'], raises={'KeyError': 'maybe'},
         note='generator over the C parameter list; C02 territory')
contract(T + '_create_return', params={'self': 'Transformer', 'source_type': 'SourceType'}, returns='Return', fresh_result=True,
         trusted=True, raises={'KeyError': 'maybe'})
inline('giscanner.sourcescanner.SourceType.base_type', 'giscanner.sourcescanner.SourceType.function_specifier')


def visible(ident):
    return not ident.startswith('_')


contract(T + '_strip_symbol', params={'self': 'Transformer', 'symbol': 'SourceSymbol'}, returns='str', props=('C04',),
         pure_keys=['self', 'symbol.ident'],
         requires=['symbol.ident is not None', 'not self._symbol_filter_cmd'],
         raises={'TransformerException': 'True'},
         let={'bare': "symbol.ident[1:] if symbol.ident.startswith('_') else symbol.ident"},
         ensures={
             'C04.strip_symbol.only_own_namespace': "self.split_csymbol(bare)[0] is self._namespace",
             'C04.strip_symbol.name_is_prefix_stripped': "result == ('_' if symbol.ident.startswith('_') else '') + self.split_csymbol(bare)[1]",
             'C04.strip_symbol.name_is_what_follows_the_prefix': "bare.endswith(self.split_csymbol(bare)[1]) and symbol.ident.endswith(bare)",
         })

contract(T + '_create_function', params={'self': 'Transformer', 'symbol': 'SourceSymbol'}, returns='Function?', props=('C04',),
         requires=['symbol.ident is not None', 'symbol._symbol.base_type is not None',
                   'symbol._symbol.base_type.base_type is not None',
                   'not self._symbol_filter_cmd'],
         modifies=['LOGGER._warning_count', '*.parent'],
         raises={'TransformerException': 'True', 'KeyError': 'True', 'AttributeError': 'True'},
         ensures={
             'C04.function.underscore_symbols_left_out': "implies(symbol.ident.startswith('_'), result is None)",
             'C04.function.c_identifier_is_the_c_name': "implies(not symbol.ident.startswith('_'), result is not None and "
                                                        "result.symbol == symbol.ident)",
             'C04.function.name_is_stripped_symbol': "implies(not symbol.ident.startswith('_'), result.name == self._strip_symbol(symbol))",
             'C04.function.starts_unpaired': "implies(result is not None, not result.is_method and not result.is_constructor "
                                             "and result.moved_to is None)",
         })


# ---- namespace bookkeeping ---------------------------------------------------------------------------------------
contract(NS + 'track', params={'self': 'Namespace', 'node': 'Node'}, trusted=True,
         modifies=['*.namespace', 'self.aliases{}', 'self.type_names{}', 'self.symbols{}', 'self.ctypes{}'],
         raises={'AssertionError': 'node.namespace is not None and node.namespace is not self'},
         ensures={'owned': 'node.namespace is self'},
         note='side tables (ctypes / symbols / type_names) of the node and its members; loops over member lists not under contract')

contract(NS + 'append', params={'self': 'Namespace', 'node': 'Node', 'replace': 'bool'}, props=('C04',),
         requires=['node.name is not None'],
         modifies=['*.namespace', 'self.names{}', 'self.aliases{}', 'self.type_names{}', 'self.symbols{}', 'self.ctypes{}'],
         raises={'ValueError': 'self.names.get(node.name) is not None and not replace',
                 'AssertionError': 'True', 'KeyError': 'True'},
         ensures={
             'C04.namespace.described_under_its_name': 'self.names.get(node.name) is node',
             'C04.namespace.never_silently_overwritten': 'implies(old(self.names.get(node.name)) is not None and '
                                                         'old(self.names.get(node.name)) is not node, replace)',
             'C04.namespace.owner_set': 'node.namespace is self',
         },
         exc_ensures={'C04.namespace.conflict_keeps_the_first': ('ValueError', 'self.names.get(node.name) is old(self.names.get(node.name))')})

contract(NS + 'remove', params={'self': 'Namespace', 'node': 'Node'}, props=('C04',),
         modifies=['node.namespace', 'self.names{}', 'self.aliases{}', 'self.type_names{}', 'self.symbols{}', 'self.ctypes{}'],
         raises={'KeyError': 'True'},
         ensures={
             'C04.namespace.removed_by_name': 'self.names.get(node.name) is None',
             'C04.namespace.removed_node_unowned': 'node.namespace is None',
             'C04.namespace.function_symbol_dropped': 'implies(isinstance(node, ast.Function), self.symbols.get(node.symbol) is None)',
         })


# ---- method pairing ------------------------------------------------------------------------------------------------
MT = 'giscanner.maintransformer.MainTransformer.'
contract(MT + '_get_uscored_prefix', params={'self': 'MainTransformer', 'func': 'Function', 'subsymbol': 'str'}, returns='str',
         pure_keys=['self', 'func', 'subsymbol'], trusted=True, raises={'KeyError': 'maybe'},
         note="the owning type's symbol prefix (c_symbol_prefix, else the default underscoring of its name)")


def first_param_target(self, func):
    return self._transformer.lookup_typenode(func.parameters[0].type)


contract(MT + '_is_method', params={'self': 'MainTransformer', 'func': 'Function', 'subsymbol': 'str'}, returns='bool',
         props=('C04',), modifies=['LOGGER._warning_count'], raises={'KeyError': 'True'},
         ensures={
             'C04.method.needs_an_instance_parameter': "implies(result, len(func.parameters) > 0)",
             'C04.method.of_a_type_of_this_namespace': "implies(result, isinstance(first_param_target(self, func), "
                                                       "(ast.Class, ast.Interface, ast.Record, ast.Union, ast.Boxed)) and "
                                                       "first_param_target(self, func).namespace is self._namespace)",
             'C04.method.instance_is_an_in_parameter': "implies(result, func.parameters[0].direction not in ('out', 'inout'))",
             'C04.method.single_indirection': "implies(result and func.parameters[0].type.ctype is not None, "
                                              "func.parameters[0].type.ctype.count('*') <= 1)",
             'C04.method.carries_the_types_prefix_unless_annotated': "implies(result and not func.is_method, "
                                                                     "subsymbol.startswith(self._get_uscored_prefix(func, subsymbol)))",
             'C04.method.plain_function_without_parameters': "implies(len(func.parameters) == 0, not result)",
         })


# ---- prefix matching and precedence of the current namespace ---------------------------------------------------------
contract(T + '_iter_namespaces', params={'self': 'Transformer'}, returns='list[Namespace]', pure_keys=['self'], trusted=True,
         ensures={'current_first': 'len(result) >= 1 and result[0] is self._namespace'},
         note='generator: the current namespace, then the parsed includes (order of includes: see C16)')
from givc.contracts import helper_loop   # noqa
from . import schema as _s   # noqa
from givc.model import schema as _schema   # noqa
_schema(ast.Namespace, _ucase_symbol_prefixes='list[str]')


def sym_prefix(p, is_identifier):
    """identifier prefixes are used as they are; symbol prefixes match with a separating underscore"""
    if is_identifier or p.endswith('_'):
        return p
    return p + '_'


def prefixes_of(ns, name, is_identifier):
    if is_identifier:
        return ns.identifier_prefixes
    if name[:1].isupper():
        return ns._ucase_symbol_prefixes
    return ns.symbol_prefixes


contract(T + '_sort_matches', params={'self': 'Transformer', 'val': 'tuple[Namespace,str,int]'}, returns='tuple[int,int]',
         props=('C04',),
         ensures={'C04.match_order.current_namespace_ranks_highest': 'result[0] == (1 if val[0] is self._namespace else 0)',
                  'C04.match_order.then_longer_prefix': 'result[1] == val[2]'})

MATCH = 'tuple[Namespace,str,int]'


def matches_prefix(name, p, is_identifier):
    return name.startswith(sym_prefix(p, is_identifier))


def ok_match(m, name, is_identifier):
    """a recorded match (namespace, stripped name, length of the prefix that was stripped)"""
    # (the suffix of name of length len(name) - m[2], i.e. name[m[2]:], stated without slicing)
    return 0 <= m[2] and m[2] <= len(name) and len(m[1]) == len(name) - m[2] and name.endswith(m[1])


def underscore_before(m, name):
    """a symbol prefix ends at an underscore, which is stripped with it"""
    return m[2] >= 1 and name[m[2] - 1] == '_'


def stripped_ok(rest, name, is_identifier):
    """`rest` is what remains of `name` after a namespace prefix; for symbols the prefix ends at an underscore"""
    return name.endswith(rest) and (is_identifier or (len(rest) < len(name) and name[len(name) - len(rest) - 1] == '_'))


P0 = 'prefixes_of(self._namespace, name, is_identifier)'
CUR_HIT = '(0 <= J and J < len(%s) and matches_prefix(name, %s[J], is_identifier))' % (P0, P0)
NSS = 'self._iter_namespaces()'
PM = 'prefixes_of(%s[M], name, is_identifier)' % NSS
ANY_HIT = '(0 <= M and M < len(%s) and 0 <= J and J < len(%s) and matches_prefix(name, %s[J], is_identifier))' % (NSS, PM, PM)

contract(T + '_split_c_string_for_namespace_matches',
         params={'self': 'Transformer', 'name': 'str', 'is_identifier': 'bool'}, returns='list[tuple[Namespace,str]]',
         ghost={'J': 'int', 'K': 'int', 'M': 'int'}, props=('C04',),
         requires=['not self._symbol_filter_cmd'],
         modifies=[], let={'cur_hit': CUR_HIT, 'any_hit': ANY_HIT}, split_returns=True, index_ghosts=['K'], chunks=8,
         witness=["name == 'g_foo'", 'not is_identifier', 'len(self._iter_namespaces()) == 1',
                  'len(self._namespace.symbol_prefixes) == 1', "self._namespace.symbol_prefixes[0] == 'g'",
                  'J == 0', 'K == 0', 'M == 0'],
         raises={'ValueError': 'not any_hit'},
         loops={
             1: {'index': 'I1', 'generalize': ['K'], 'modifies': ['matches[]', 'unprefixed_namespaces[]'],
                 'var_types': {'matches': 'list[' + MATCH + ']', 'unprefixed_namespaces': 'list[Namespace]',
                               'prefixes': 'list[str]', 'ns': 'Namespace', 'prefix': 'str'},
                 'invariant': [
                     'implies(I1 >= 1 and cur_hit, len(matches) >= 1 and matches[0][0] is self._namespace)',
                     'implies(0 <= K and K < len(matches), ok_match(matches[K], name, is_identifier))',
                     'implies(any_hit and M < I1, len(matches) >= 1)',
                     'len(matches) <= I1',
                     'implies(0 <= K and K < len(matches) and not is_identifier, underscore_before(matches[K], name))',
                 ]},
             2: {'index': 'I2', 'modifies': ['matches[]'],
                 'var_types': {'matches': 'list[' + MATCH + ']', 'prefix': 'str'},
                 'invariant': [
                     'implies(I1 >= 1 and cur_hit, len(matches) >= 1 and matches[0][0] is self._namespace)',
                     'implies(0 <= K and K < len(matches), ok_match(matches[K], name, is_identifier))',
                     'implies(any_hit and M < I1, len(matches) >= 1)',
                     'implies(0 <= J and J < I2, not matches_prefix(name, prefixes[J], is_identifier))',
                     'len(matches) <= I1',
                     'implies(0 <= K and K < len(matches) and not is_identifier, underscore_before(matches[K], name))',
                 ]},
             3: {'index': 'I3', 'modifies': [], 'var_types': {'ns': 'Namespace'}, 'invariant': ['True']},
         },
         ensures={
             'C04.prefix.current_namespace_wins': 'implies(cur_hit, result[-1][0] is self._namespace)',
             'C04.prefix.nothing_but_a_prefix_is_stripped': 'implies(0 <= K and K < len(result), name.endswith(result[K][1]))',
             'C04.prefix.symbol_prefix_ends_at_underscore':
                 'implies(0 <= K and K < len(result) and any_hit, stripped_ok(result[K][1], name, is_identifier))',
             'C04.prefix.nonempty': 'len(result) >= 1',
         },
         note='filter commands (--symbol-filter-cmd) are excluded by precondition; the witness of a match is its index')


# ---- the single best match of a symbol: the last element of the matcher's result ----------------------------------------
def _subst(text):
    import re
    return re.sub(r'\bis_identifier\b', 'False', re.sub(r'\bname\b', 'symbol', text))


contract(T + 'split_csymbol', params={'self': 'Transformer', 'symbol': 'str'}, returns='tuple[Namespace,str]',
         pure_keys=['self', 'symbol'], ghost={'J': 'int', 'M': 'int'}, props=('C04',),
         requires=['not self._symbol_filter_cmd'],
         let={'cur_hit': _subst(CUR_HIT), 'any_hit': _subst(ANY_HIT)},
         raises={'ValueError': 'not any_hit'},
         ghost_args={T + '_split_c_string_for_namespace_matches': [{'K': 'len(result) - 1'}]},
         ensures={
             'C04.split.current_namespace_wins': 'implies(cur_hit, result[0] is self._namespace)',
             'C04.split.stripped_name_is_a_suffix': 'symbol.endswith(result[1])',
             'C04.split.symbol_prefix_ends_at_underscore': 'implies(any_hit, stripped_ok(result[1], symbol, False))',
         },
         note='pure_keys: the result is treated as a function of (self, symbol) in specifications, i.e. the prefix lists '
              'of the namespaces are taken as fixed during a scan (assumed)')


# ---- pairing functions with types: the longest registered type prefix of an un-prefixed symbol --------------------------
def boundary(q, s):
    """q is s itself or a prefix of s that is followed by an underscore"""
    return q == s or s.startswith(q + '_')


def seps_after(s, q):
    """number of underscores of s behind the prefix q"""
    return s[len(q):].count('_')


def head_of(s, suffix):
    """what precedes `_suffix` in s (s itself if nothing was split off)"""
    if s.endswith('_' + suffix) and (suffix != '' or s.endswith('_')):
        return s[:len(s) - len(suffix) - 1]
    return s


R_ = "uscored.rsplit('_', count)"
IDX = 'seps_after(uscored, Q)'
RSPLIT_LEMMAS = [
    # facts about str.rsplit / str.count / str.join, validated natively by contracts/extra/c04_lemmas.py (bounded)
    "implies(boundary(Q, uscored), uscored.rsplit('_', %s)[0] == Q and len(uscored.rsplit('_', %s)) == %s + 1)" % (IDX, IDX, IDX),
    "implies(count >= 1 and len(%s) == len(uscored.rsplit('_', count - 1)) and boundary(Q, uscored), %s < count)" % (R_, IDX),
    "implies(boundary(Q, uscored) and len(%s) == count + 1, (%s < count) == (len(Q) > len(%s[0])))" % (R_, IDX, R_),
    "implies(boundary(Q, uscored) and len(%s) == count + 1, (%s == count) == (Q == %s[0]))" % (R_, IDX, R_),
    "implies(len(%s) > 1, uscored == %s[0] + '_' + '_'.join(%s[1:]))" % (R_, R_, R_),
    "implies(len(%s) == 1, uscored == %s[0])" % (R_, R_),
    "implies(len(%s) <= count, count >= 1 and len(%s) == len(uscored.rsplit('_', count - 1)))" % (R_, R_),
]
contract(MT + '_split_uscored_by_type', params={'self': 'MainTransformer', 'uscored': 'str'}, returns='tuple[Node,str]?',
         props=('C04',), ghost={'Q': 'str'}, split_returns=True,
         loops={1: {'index': 'count', 'modifies': [], 'assume': RSPLIT_LEMMAS,
                    'var_types': {'count': 'int', 'prev_split_count': 'int', 'components': 'list[str]', 'type_string': 'str',
                                  'node': 'Node?'},
                    'invariant': [
                        'count >= 0',
                        "implies(count == 0, prev_split_count == -1)",
                        "implies(count >= 1, prev_split_count == len(uscored.rsplit('_', count - 1)) and prev_split_count == count)",
                        "implies(boundary(Q, uscored) and %s < count, not self._uscore_type_names.get(Q))" % IDX,
                    ]}},
         ensures={
             'C04.pairing.no_registered_type_prefix_means_none':
                 "implies(result is None and boundary(Q, uscored), not self._uscore_type_names.get(Q))",
             'C04.pairing.split_at_a_registered_type_prefix':
                 "implies(result is not None and not uscored.endswith('_'), "
                 "boundary(head_of(uscored, result[1]), uscored) and "
                 "result[0] is self._uscore_type_names.get(head_of(uscored, result[1])) and bool(result[0]))",
             'C04.pairing.longest_registered_type_prefix_wins':
                 "implies(result is not None and not uscored.endswith('_') and boundary(Q, uscored) and "
                 "len(Q) > len(head_of(uscored, result[1])), not self._uscore_type_names.get(Q))",
         },
         note='candidates are the prefixes of `uscored` that end in front of an underscore (and `uscored` itself), longest first')


# ---- static functions and constructors of types -----------------------------------------------------------------------
contract(NS + 'float', params={'self': 'Namespace', 'node': 'Function'}, props=('C04',),
         modifies=['node.namespace', 'self.names{}', 'self.aliases{}', 'self.type_names{}', 'self.symbols{}', 'self.ctypes{}'],
         raises={'KeyError': 'True'},
         ensures={
             'C04.namespace.floated_function_leaves_the_toplevel': 'self.names.get(node.name) is None',
             'C04.namespace.floated_function_stays_findable_by_symbol': 'self.symbols.get(node.symbol) is node',
             'C04.namespace.floated_function_keeps_its_owner': 'node.namespace is self',
         })
contract('giscanner.ast.Function.clone', params={'self': 'Function'}, returns='Function', fresh_result=True, trusted=True,
         modifies=['*.parent'],
         ensures={'same_symbol': 'result.symbol == self.symbol and result.name == self.name and result.moved_to == self.moved_to '
                                 'and result.is_method == self.is_method and result.is_constructor == self.is_constructor',
                  'a_copy': 'result is not self'},
         note='copy.copy of the function with its own parameter list (parameters re-parented)')
_REG2 = __import__('givc.contracts', fromlist=['REGISTRY']).REGISTRY
_REG2.get(MT + '_split_uscored_by_type').pure_keys = ['self', 'uscored']

SPLIT = 'self._split_uscored_by_type(subsymbol)'
contract(MT + '_pair_static_method', params={'self': 'MainTransformer', 'func': 'Function', 'subsymbol': 'str'}, returns='bool',
         props=('C04',),
         let={'split': SPLIT},
         modifies=['func.name', 'func.moved_to', 'func.namespace', 'split[0].static_methods[]', '*.parent',
                   'self._namespace.names{}', 'self._namespace.aliases{}', 'self._namespace.type_names{}',
                   'self._namespace.symbols{}', 'self._namespace.ctypes{}'],
         raises={'KeyError': 'True'},
         ensures={
             'C04.static.only_with_a_type_prefix_and_a_rest':
                 "implies(result, split is not None and split[1] != '')",
             'C04.static.no_pairing_leaves_the_function_alone':
                 "implies(not result, func.name == old(func.name) and func.moved_to == old(func.moved_to) and "
                 "func.namespace is old(func.namespace))",
             'C04.static.class_function_moves_into_the_class':
                 "implies(result and isinstance(split[0], ast.Class), func.name == split[1] and "
                 "split[0].static_methods[-1] is func and len(split[0].static_methods) == old(len(split[0].static_methods)) + 1 "
                 "and func.moved_to == old(func.moved_to))",
             'C04.static.other_types_get_a_copy_and_the_original_points_to_it':
                 "implies(result and not isinstance(split[0], ast.Class), "
                 "isinstance(split[0], (ast.Interface, ast.Record, ast.Union, ast.Boxed, ast.Enum, ast.Bitfield)) and "
                 "split[0].static_methods[-1] is not func and split[0].static_methods[-1].name == split[1] and "
                 "split[0].static_methods[-1].symbol == func.symbol and "
                 "func.moved_to == split[0].name + '.' + split[1] and func.name == old(func.name))",
         })


def looks_like_a_constructor(symbol):
    return symbol.endswith('_new') or '_new_' in symbol or symbol.endswith('_newv')


contract(MT + '_guess_constructor_by_name', params={'self': 'MainTransformer', 'symbol': 'str'}, returns='bool', props=('C04',),
         pure_keys=['symbol'],
         ensures={'C04.constructor.name_convention': 'result == looks_like_a_constructor(symbol)'})


# executed inline in _is_constructor only (other checks keep their own contracts for these)
NODE_INLINE = ('giscanner.ast.Node._compare', 'giscanner.ast.Node.__eq__', 'giscanner.ast.Node.__ne__',
               'giscanner.ast.Node.create_type', 'giscanner.ast.Type.__str__')


def same_node(a, b):
    """nodes compare equal when they have the same name in the same namespace"""
    return a.namespace is b.namespace and a.name == b.name


def constructible(n):
    """classes, and registered (or foreign) records / unions / boxed types, can have constructors"""
    return isinstance(n, ast.Class) or (isinstance(n, (ast.Record, ast.Union, ast.Boxed)) and
                                        (n.get_type is not None or n.foreign))


def constructed_type(self, func, subsymbol):
    """the type a constructor belongs to: the one whose prefix its symbol carries (longest registered prefix), else -
    for an annotated constructor - the type it returns"""
    split = self._split_uscored_by_type(subsymbol)
    if split is None:
        if func.is_constructor:
            return self._transformer.lookup_typenode(func.retval.type)
        return None
    return split[0]


contract(MT + '_get_constructor_class', params={'self': 'MainTransformer', 'func': 'Function', 'subsymbol': 'str'},
         returns='Node?', props=('C04',), pure_keys=['self', 'func', 'subsymbol'], raises={'KeyError': 'True'},
         ensures={'C04.constructor.class_is_the_prefix_type': 'result is constructed_type(self, func, subsymbol)'})

contract(MT + '_is_constructor', params={'self': 'MainTransformer', 'func': 'Function', 'subsymbol': 'str'}, returns='bool',
         props=('C04',), modifies=['LOGGER._warning_count'], raises={'KeyError': 'True'}, inline=NODE_INLINE,
         requires=['func.retval is not None', 'func.retval.type is not None'],
         let={'target': 'self._transformer.lookup_typenode(func.retval.type)', 'origin': 'constructed_type(self, func, subsymbol)'},
         loops={1: {'invariant': ['LOGGER._warning_count >= old(LOGGER._warning_count)',
                                  'parent is None or parent.namespace is not None'], 'modifies': [],
                    'var_types': {'parent': 'Node?'}}},
         ensures={
             'C04.constructor.named_or_annotated': 'implies(result, func.is_constructor or looks_like_a_constructor(func.symbol))',
             'C04.constructor.returns_a_constructible_type': 'implies(result, constructible(target))',
             'C04.constructor.of_the_type_whose_prefix_it_carries':
                 'implies(result, origin is not None and constructible(origin) and origin.namespace is self._namespace)',
             'C04.constructor.boxed_constructor_returns_exactly_its_type':
                 'implies(result and not isinstance(target, ast.Class), same_node(origin, target))',
             'C04.constructor.not_when_it_takes_its_own_type_first':
                 'implies(result and not func.is_constructor and len(func.parameters) > 0 and '
                 'self._transformer.lookup_typenode(func.parameters[0].type) is not None, '
                 'self._transformer.lookup_typenode(func.parameters[0].type).gi_name != origin.gi_name)',
             'C04.constructor.count_only_grows': 'LOGGER._warning_count >= old(LOGGER._warning_count)',
         },
         note='for classes the walk up the parent chain (returned class must be the constructed class or an ancestor) is a '
              'while loop over lookups; its result is not characterised here (invariant: only diagnostics are produced)')


# ---- the dispatcher: each toplevel function is tried as constructor, then method, then static function of a type -------------
PAIR_MODS = ['*.name', '*.moved_to', '*.namespace', '*.is_method', '*.is_constructor', '*.instance_parameter', '*._instance_parameter',
             '*.parent', '*.transfer', 'LOGGER._warning_count']
contract('giscanner.ast.Function.is_type_meta_function', params={'self': 'Function'}, returns='bool', trusted=True,
         modifies=['LOGGER._warning_count'], note='*_get_type functions without parameters returning GType')
for _n in ('_set_up_constructor', '_setup_method'):
    contract(MT + _n, params={'self': 'MainTransformer', 'func': 'Function', 'subsymbol': 'str'}, trusted=True,
             modifies=PAIR_MODS + ['*[]', '*{}'], raises={'KeyError': 'maybe', 'IndexError': 'maybe', 'AttributeError': 'maybe'},
             note='moves the function into its type (renaming it after the prefix); lists of methods / constructors change')

SUB = 'self._transformer.split_csymbol(func.symbol)[1]'
ROLE_ARGS = "'arg_func is func and arg_subsymbol == old(%s)'" % SUB
contract(MT + '_pair_function', params={'self': 'MainTransformer', 'func': 'Function'}, props=('C04',),
         requires=['not self._transformer._symbol_filter_cmd', 'func.retval is not None', 'func.retval.type is not None'],
         modifies=PAIR_MODS + ['*[]', '*{}'],
         raises={'KeyError': 'True', 'ValueError': 'True', 'AssertionError': 'True', 'IndexError': 'True', 'AttributeError': 'True'},
         ensures={
             'C04.pair.internal_symbols_are_left_alone':
                 "implies(func.symbol.startswith('_'), all_calls('_is_constructor', 'False') and all_calls('_is_method', 'False') "
                 "and all_calls('_pair_static_method', 'False') and all_calls('_set_up_constructor', 'False') and "
                 "all_calls('_setup_method', 'False'))",
             'C04.pair.every_role_is_judged_on_the_prefix_stripped_symbol':
                 "all_calls('_is_constructor', %s) and all_calls('_is_method', %s) and all_calls('_pair_static_method', %s) and "
                 "all_calls('_set_up_constructor', %s) and all_calls('_setup_method', %s)" % ((ROLE_ARGS,) * 5),
             'C04.pair.constructor_before_method_before_static':
                 "calls_ordered('_is_constructor', '_is_method') and calls_ordered('_is_method', '_pair_static_method') and "
                 "calls_ordered('_is_constructor', '_set_up_constructor') and calls_ordered('_is_method', '_setup_method')",
             'C04.pair.set_up_only_after_the_test':
                 "each_call_preceded('_set_up_constructor', '_is_constructor') and each_call_preceded('_setup_method', '_is_method')",
             'C04.pair.at_most_one_role':
                 "calls_ordered('_is_method', '_set_up_constructor') and calls_ordered('_pair_static_method', '_setup_method') and "
                 "calls_ordered('_pair_static_method', '_set_up_constructor') and calls_ordered('_setup_method', '_set_up_constructor')",
         },
         note='calls_ordered(a, b): no call of a after a call of b; so once a function has been set up in one role no further role is tried')


contract(MT + '_uscored_identifier_for_type', params={'self': 'MainTransformer', 'typeval': 'Type'}, returns='str',
         pure_keys=['self', 'typeval.target_giname'], trusted=True, raises={'AssertionError': 'maybe'},
         note="default underscoring of the type's name (to_underscores_noprefix, regular expressions)")
contract(MT + '_get_constructor_name', params={'self': 'MainTransformer', 'func': 'Function', 'subsymbol': 'str'},
         returns='str?', props=('C04',),
         requires=['func.retval is not None', 'func.retval.type is not None',
                   'self._split_uscored_by_type(subsymbol) is not None or func.is_constructor'],
         modifies=['func.name'], raises={'KeyError': 'True', 'AssertionError': 'True'},
         let={'split': SPLIT},
         ensures={
             'C04.constructor.named_by_what_follows_the_owning_types_prefix':
                 'implies(split is not None, result == split[1] and func.name == old(func.name))',
             'C04.constructor.annotated_without_type_prefix_keeps_or_derives_its_name':
                 'implies(split is None, result == func.name)',
         })
