"""C05 - everything left introspectable is bindable (introspectablepass.py)."""
from givc.contracts import contract, inline
from . import schema   # noqa
from . import c11_message, c02_defaults  # noqa
from .c02_defaults import denotes
from giscanner import ast

IP = 'giscanner.introspectablepass.IntrospectablePass.'
inline('giscanner.ast.Type.unresolved_string', 'giscanner.ast.Node.gi_name')

COUNT_MONO = 'LOGGER._warning_count >= old(LOGGER._warning_count)'

contract(IP + '_parameter_warning',
         params={'self': 'IntrospectablePass', 'parent': 'Node', 'param': 'Parameter|Return|Signal', 'text': 'str',
                 'position': 'Position?'},
         props=('C05',), modifies=['LOGGER._warning_count'], ensures={'count_monotone': COUNT_MONO})


# ---- frozen oracle: what makes a value not bindable ---------------------------------------------
def is_container(t):
    return isinstance(t, (ast.Array, ast.List, ast.Map))


def leaf_ok(self, t):
    """non-container type: resolves to a fundamental/foreign type or to an introspectable definition"""
    if not t.resolved:
        return False
    if isinstance(t, ast.TypeUnknown):
        return False
    if t.target_foreign:
        return True
    if t.target_fundamental:
        return t.target_fundamental not in ('va_list', 'long long', 'unsigned long long', 'long double')
    target = self._transformer.lookup_typenode(t)
    if not target:
        return False
    return bool(target.introspectable) and not target.skip


def shallow(t):
    """nesting depth at most one (the contract is exact for these)"""
    if isinstance(t, (ast.Array, ast.List)):
        return not is_container(t.element_type)
    if isinstance(t, ast.Map):
        return not is_container(t.key_type) and not is_container(t.value_type)
    return True


def TI(self, t):
    """type is introspectable (exact for shallow types)"""
    if not t.resolved:
        return False
    if isinstance(t, ast.TypeUnknown):
        return False
    if isinstance(t, (ast.Array, ast.List)):
        return leaf_ok(self, t.element_type)
    if isinstance(t, ast.Map):
        return leaf_ok(self, t.key_type) and leaf_ok(self, t.value_type)
    return leaf_ok(self, t)


contract(IP + '_type_is_introspectable',
         params={'self': 'IntrospectablePass', 'typeval': 'Type', 'warn': 'bool'},
         returns='bool|str|none', props=('C05',), raises={'KeyError': 'True'},
         ensures={
             'C05.TI.exact_for_shallow': 'implies(shallow(typeval), bool(result) == TI(self, typeval))',
             'C05.TI.unresolved_never': 'implies(not typeval.resolved, not result)',
             'C05.TI.exotic_never': "implies(typeval.resolved and not is_container(typeval) and not typeval.target_foreign and "
                                    "typeval.target_fundamental in ('va_list', 'long long', 'unsigned long long', 'long double'), not result)",
         })


def bad_value(self, parent, node):
    """a parameter / return value that a binding cannot handle (property statement)"""
    target = self._transformer.resolve_aliases(self._transformer.lookup_typenode(node.type))
    if not node.type.resolved:
        return True
    if isinstance(node.type, ast.Varargs):
        return True
    if isinstance(node.type, (ast.List, ast.Array)) and denotes_any(node.type.element_type):
        return True
    if isinstance(node, ast.Parameter) and isinstance(target, ast.Callback) and \
            target.gi_name not in ('GLib.DestroyNotify', 'Gio.AsyncReadyCallback') and node.scope is None:
        return True
    if isinstance(node, ast.Return) and isinstance(target, ast.Callback):
        return True
    if isinstance(node, ast.Return) and isinstance(target, (ast.Record, ast.Union)) and target.get_type is None \
            and (target.copy_func is None or target.free_func is None) and not target.foreign:
        return node.transfer != 'none'
    return node.transfer is None


def denotes_any(t):
    return denotes(t, ('gpointer',))


contract(IP + '_introspectable_param_analysis',
         params={'self': 'IntrospectablePass', 'parent': 'Callable', 'node': 'Parameter|Return'},
         props=('C05',), modifies=['parent.introspectable', 'LOGGER._warning_count'],
         raises={'KeyError': 'True',
                 'AssertionError': 'not (node.type.resolved or node.type.ctype or node.type.gtype_name)'},
         requires=['parent is not node', 'isinstance(self._transformer.lookup_typenode(node.type), ast.Node) or self._transformer.lookup_typenode(node.type) is None'],
         ensures={
             'C05.param.local_closure': "implies(parent.introspectable, node.skip or not bad_value(self, parent, node))",
             'C05.param.monotone': "implies(parent.introspectable, old(parent.introspectable))",
             'C05.param.only_bad_clears': "implies(old(parent.introspectable) and not parent.introspectable, "
                                          "not node.skip and bad_value(self, parent, node))",
             'count_monotone': COUNT_MONO,
         })

contract(IP + '_propagate_parameter_skip',
         params={'self': 'IntrospectablePass', 'parent': 'Callable', 'node': 'Parameter|Return'},
         props=('C05',), modifies=['parent.skip'], raises={'KeyError': 'True'},
         ensures={
             'C05.skip.propagates': "implies(node.type.target_giname is not None and "
                                    "self._transformer.lookup_typenode(node.type) is not None and "
                                    "old(self._transformer.lookup_typenode(node.type).skip), parent.skip)",
             'C05.skip.monotone': "implies(old(parent.skip), parent.skip)",
         })

contract(IP + '_introspectable_alias_analysis',
         params={'self': 'IntrospectablePass', 'obj': 'Node', 'stack': 'list'}, returns='bool',
         props=('C05',), modifies=['obj.introspectable'], raises={'KeyError': 'True'},
         ensures={
             'C05.alias.closure': "implies(isinstance(obj, ast.Alias) and obj.introspectable and shallow(obj.target), "
                                  "TI(self, obj.target) or self._transformer.lookup_typenode(obj.target) is obj)",
             'C05.alias.monotone': "implies(obj.introspectable, old(obj.introspectable))",
             'C05.alias.walks_on': "result == True",
         })

contract(IP + '_remove_non_reachable_backcompat_copies',
         params={'self': 'IntrospectablePass', 'obj': 'Node', 'stack': 'list'}, returns='bool',
         props=('C05',), modifies=['obj.internal_skipped'],
         ensures={
             'C05.backcompat.dropped': "implies(not obj.skip and isinstance(obj, ast.Function) and obj.moved_to is not None "
                                       "and not obj.introspectable, obj.internal_skipped)",
             'C05.backcompat.others_kept': "implies(not (isinstance(obj, ast.Function) and obj.moved_to is not None "
                                           "and not obj.introspectable), "
                                           "not isinstance(obj, ast.Function) or obj.internal_skipped == old(obj.internal_skipped))",
         })

# ------------------------------------------------------------------------------------------------
# walk callbacks with loops: the universally quantified element index is the ghost parameter J
PJ = 'obj.parameters[J]'
J_IN_PARAMS = '0 <= J and J < len(obj.parameters)'

contract(IP + '_analyze_node',
         params={'self': 'IntrospectablePass', 'obj': 'Node', 'stack': 'list'}, returns='bool',
         ghost={'J': 'int'}, props=('C05',),
         modifies=['obj.introspectable', '*.introspectable', 'LOGGER._warning_count'],
         raises={'KeyError': 'True', 'AssertionError': 'True'},
         requires=['implies(isinstance(obj, ast.Callable), obj.retval is not None)'],
         loops={
             1: {'invariant': ['implies(obj.introspectable and 0 <= J and J < I1, %s.skip or not bad_value(self, obj, %s))' % (PJ, PJ),
                               'implies(obj.introspectable, old(obj.introspectable))', COUNT_MONO],
                 'modifies': ['obj.introspectable', 'LOGGER._warning_count']},
             2: {'invariant': ['implies(0 <= J and J < I2 and bool(obj.fields[J].type) and shallow(obj.fields[J].type) '
                               'and obj.fields[J].introspectable, TI(self, obj.fields[J].type))',
                               'obj.skip == old(obj.skip)', COUNT_MONO,
                               'not isinstance(obj, ast.Callable)'],
                 'modifies': ['*.introspectable']},
         },
         ensures={
             'C05.analyze.params_closed': 'implies(not obj.skip and isinstance(obj, ast.Callable) and obj.introspectable and %s, '
                                          '%s.skip or not bad_value(self, obj, %s))' % (J_IN_PARAMS, PJ, PJ),
             'C05.analyze.return_closed': 'implies(not obj.skip and isinstance(obj, ast.Callable) and obj.introspectable, '
                                          'obj.retval.skip or not bad_value(self, obj, obj.retval))',
             'C05.analyze.fields_closed': 'implies(not obj.skip and isinstance(obj, (ast.Class, ast.Interface, ast.Record, ast.Union)) '
                                          'and 0 <= J and J < len(obj.fields) and bool(obj.fields[J].type) and shallow(obj.fields[J].type) '
                                          'and obj.fields[J].introspectable, TI(self, obj.fields[J].type))',
             'C05.analyze.monotone': 'implies(isinstance(obj, ast.Callable) and obj.introspectable, old(obj.introspectable))',
             'C05.analyze.skipped_not_descended': 'result == (not obj.skip)',
         })


def all_types_named(obj):
    """data invariant used by diagnostics: an unresolved type still carries its C or GType spelling"""
    return True

contract(IP + '_introspectable_callable_analysis',
         params={'self': 'IntrospectablePass', 'obj': 'Node', 'stack': 'list[Class|Interface]'}, returns='bool',
         ghost={'J': 'int'}, props=('C05',), chunks=2,
         modifies=['obj.introspectable', 'obj.emitter', 'LOGGER._warning_count'],
         raises={'KeyError': 'True', 'IndexError': 'isinstance(obj, ast.Signal)'},
         requires=['implies(isinstance(obj, ast.Callable), obj.retval is not None)'],
         loops={
             1: {'invariant': ['obj.introspectable == old(obj.introspectable)',
                               'implies(0 <= J and J < I1 and shallow(%s.type), TI(self, %s.type))' % (PJ, PJ)],
                 'modifies': []},
             2: {'invariant': [COUNT_MONO], 'modifies': ['obj.emitter', 'LOGGER._warning_count']},
             3: {'invariant': [COUNT_MONO], 'modifies': []},
         },
         ensures={
             'C05.callable.params_introspectable': 'implies(not obj.skip and isinstance(obj, ast.Callable) and obj.introspectable and '
                                                   '%s and shallow(%s.type), TI(self, %s.type))' % (J_IN_PARAMS, PJ, PJ),
             'C05.callable.return_introspectable': 'implies(not obj.skip and isinstance(obj, ast.Callable) and obj.introspectable and '
                                                   'shallow(obj.retval.type), TI(self, obj.retval.type))',
             'C05.callable.inline_not_introspectable': 'implies(not obj.skip and isinstance(obj, ast.Function) and obj.is_inline, '
                                                       'not obj.introspectable)',
             'C05.callable.monotone': 'implies(obj.introspectable, old(obj.introspectable))',
             'C05.callable.skipped_untouched': 'implies(obj.skip, obj.introspectable == old(obj.introspectable) and result == False)',
         },
         note='IndexError: the emitter comparison indexes method.parameters[idx + 1] (see DESIGN.md, observation O1)')

contract(IP + '_propagate_callable_skips',
         params={'self': 'IntrospectablePass', 'obj': 'Node', 'stack': 'list'}, returns='bool',
         ghost={'J': 'int'}, props=('C05',),
         modifies=['obj.skip'], raises={'KeyError': 'True'},
         requires=['implies(isinstance(obj, ast.Callable), obj.retval is not None)'],
         loops={1: {'invariant': ['implies(old(obj.skip), obj.skip)',
                                  'implies(0 <= J and J < I1 and %s.type.target_giname is not None and '
                                  'self._transformer.lookup_typenode(%s.type) is not None and '
                                  'self._transformer.lookup_typenode(%s.type) is not obj and '
                                  'self._transformer.lookup_typenode(%s.type).skip, obj.skip)' % (PJ, PJ, PJ, PJ)],
                    'modifies': ['obj.skip']}},
         ensures={
             'C05.skips.param_target_skipped': 'implies(isinstance(obj, ast.Callable) and %s and %s.type.target_giname is not None and '
                                               'self._transformer.lookup_typenode(%s.type) is not None and '
                                               'self._transformer.lookup_typenode(%s.type) is not obj and '
                                               'self._transformer.lookup_typenode(%s.type).skip, obj.skip)' % (J_IN_PARAMS, PJ, PJ, PJ, PJ),
             'C05.skips.monotone': 'implies(old(obj.skip), obj.skip)',
             'C05.skips.walks_on': 'result == True',
         })

# index cross references (get_parameter_index / get_field_index / get_field): see c00_index.py
from . import c00_index  # noqa


# ---- third walk: fields follow their types, signals are analysed like callables -----------------------------------------
FS = 'obj.fields'
contract(IP + '_introspectable_pass3', params={'self': 'IntrospectablePass', 'obj': 'Node', 'stack': 'any'}, returns='bool',
         ghost={'K': 'int'}, props=('C05',),
         modifies=['*.introspectable', '*.emitter', 'LOGGER._warning_count'],
         raises={'KeyError': 'True', 'IndexError': 'True'},
         loops={
             1: {'index': 'I1', 'modifies': ['*.introspectable'], 'var_types': {'field': 'Field'},
                 'assume': ['implies(I1 < len(%s) and %s[I1].anonymous_node is None, %s[I1].type is not None)' % (FS, FS, FS)],
                 'invariant': [
                     "implies(0 <= K and K < I1 and %s[K].anonymous_node is None and %s[K].type is not None and "
                     "shallow(%s[K].type) and not TI(self, %s[K].type), not %s[K].introspectable)" % (FS, FS, FS, FS, FS),
                     "implies(0 <= K and K < I1 and %s[K].anonymous_node is not None and not %s[K].anonymous_node.introspectable, "
                     "not %s[K].introspectable)" % (FS, FS, FS),
                     "implies(0 <= K and K < len(%s) and not old(%s[K].introspectable), not %s[K].introspectable)" % (FS, FS, FS),
                 ]},
             2: {'index': 'I2', 'modifies': ['*.introspectable', '*.emitter', 'LOGGER._warning_count'],
                 'var_types': {'sig': 'Signal'}, 'invariant': ['True']},
         },
         ensures={
             'C05.pass3.skipped_nodes_are_not_walked': 'implies(old(obj.skip), result == False)',
             'C05.pass3.walks_on': 'implies(not old(obj.skip), result == True)',
             'C05.pass3.signals_are_analysed_as_callables':
                 "all_calls('_introspectable_callable_analysis', 'isinstance(arg_obj, ast.Signal)')",
             'C05.pass3.field_of_unbindable_type_is_closed':
                 "implies(not old(obj.skip) and isinstance(obj, (ast.Record, ast.Union)) and 0 <= K and K < len(%s) and "
                 "%s[K].anonymous_node is None and %s[K].type is not None and shallow(%s[K].type) and not TI(self, %s[K].type), "
                 "not %s[K].introspectable)" % (FS, FS, FS, FS, FS, FS),
             'C05.pass3.field_of_closed_anonymous_type_is_closed':
                 "implies(not old(obj.skip) and isinstance(obj, (ast.Record, ast.Union)) and 0 <= K and K < len(%s) and "
                 "%s[K].anonymous_node is not None and not %s[K].anonymous_node.introspectable, not %s[K].introspectable)"
                 % (FS, FS, FS, FS),
         },
         note='the field clauses are stated for records and unions (for classes and interfaces the signal analysis that follows '
              'may close further elements; the loop invariants hold for all four kinds); a field without an anonymous node has '
              'a type (data invariant of ast.Field, assumed)')


# ---- properties: an unbindable type closes the property and its accessors; methods stop naming closed properties --------------
PR = 'obj.properties'
ME = 'obj.methods'
IS_OBJ = "isinstance(obj, (ast.Class, ast.Interface))"


def closed_named(p, name):
    return p.name == name and not p.introspectable


contract(IP + '_introspectable_property_analysis', params={'self': 'IntrospectablePass', 'obj': 'Node', 'stack': 'any'},
         returns='bool', ghost={'K': 'int', 'M': 'int'}, props=('C05',),
         requires=['implies(%s, all_distinct(obj.methods) and all_distinct(obj.properties))' % IS_OBJ],
         modifies=['*.introspectable', '*.setter', '*.getter', '*.set_property', '*.get_property'],
         raises={'KeyError': 'True'},
         loops={
             1: {'index': 'I1', 'modifies': ['*.introspectable', '*.setter', '*.getter'], 'var_types': {'prop': 'Property'},
                 'invariant': [
                     "implies(0 <= K and K < I1 and shallow(%s[K].type) and not TI(self, %s[K].type), not %s[K].introspectable and "
                     "%s[K].setter is None and %s[K].getter is None)" % (PR, PR, PR, PR, PR),
                     "implies(0 <= K and K < len(%s) and not old(%s[K].introspectable), not %s[K].introspectable)" % (PR, PR, PR)]},
             2: {'index': 'I2', 'modifies': ['*.set_property', '*.get_property'], 'var_types': {'method': 'Function'},
                 'invariant': [
                     "implies(0 <= M and M < I2 and 0 <= K and K < len(%s) and old(%s[M].set_property) is not None and "
                     "closed_named(%s[K], old(%s[M].set_property)), %s[M].set_property is None)" % (PR, ME, PR, ME, ME),
                     "implies(0 <= M and M < I2 and 0 <= K and K < len(%s) and old(%s[M].get_property) is not None and "
                     "closed_named(%s[K], old(%s[M].get_property)), %s[M].get_property is None)" % (PR, ME, PR, ME, ME),
                     "implies(0 <= M and M < len(%s), (%s[M].set_property is None or %s[M].set_property == old(%s[M].set_property)) and "
                     "(%s[M].get_property is None or %s[M].get_property == old(%s[M].get_property)))" % (ME, ME, ME, ME, ME, ME, ME),
                     "implies(0 <= M and I2 <= M and M < len(%s), %s[M].set_property == old(%s[M].set_property) and "
                     "%s[M].get_property == old(%s[M].get_property))" % (ME, ME, ME, ME, ME)]},
             3: {'index': 'I3', 'modifies': ['method.set_property'], 'var_types': {'prop': 'Property'},
                 'invariant': ["implies(0 <= K and K < I3, not closed_named(%s[K], set_property))" % PR,
                               "method.set_property == set_property"],
                 'post': ["implies(0 <= K and K < len(%s) and closed_named(%s[K], set_property), method.set_property is None)" % (PR, PR),
                          "method.set_property is None or method.set_property == set_property"]},
             4: {'index': 'I4', 'modifies': ['method.get_property'], 'var_types': {'prop': 'Property'},
                 'invariant': ["implies(0 <= K and K < I4, not closed_named(%s[K], get_property))" % PR,
                               "method.get_property == get_property"],
                 'post': ["implies(0 <= K and K < len(%s) and closed_named(%s[K], get_property), method.get_property is None)" % (PR, PR),
                          "method.get_property is None or method.get_property == get_property"]},
         },
         ensures={
             'C05.property.skipped_nodes_are_not_walked': 'implies(old(obj.skip), result == False)',
             'C05.property.unbindable_type_closes_the_property_and_its_accessors':
                 "implies(not old(obj.skip) and %s and 0 <= K and K < len(%s) and shallow(%s[K].type) and not TI(self, %s[K].type), "
                 "not %s[K].introspectable and %s[K].setter is None and %s[K].getter is None)" % (IS_OBJ, PR, PR, PR, PR, PR, PR),
             'C05.property.monotone': "implies(not old(obj.skip) and %s and 0 <= K and K < len(%s) and not old(%s[K].introspectable), "
                                      "not %s[K].introspectable)" % (IS_OBJ, PR, PR, PR),
             'C05.property.no_method_keeps_naming_a_closed_property':
                 "implies(not old(obj.skip) and %s and 0 <= M and M < len(%s) and 0 <= K and K < len(%s), "
                 "not (%s[M].set_property is not None and closed_named(%s[K], %s[M].set_property)) and "
                 "not (%s[M].get_property is not None and closed_named(%s[K], %s[M].get_property)))"
                 % (IS_OBJ, ME, PR, ME, PR, ME, ME, PR, ME),
         },
         note='methods and properties of a class are pairwise distinct objects (precondition)')
