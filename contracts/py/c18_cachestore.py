"""C18 - the dependency-GIR cache (giscanner/cachestore.py): sequential contracts.

File-system primitives are assumed contracts (trusted).  os.stat is modelled as a function of the path
(no interference between the two stats of one validity check): schedules with concurrent writers are NOT
decided by these contracts - see DESIGN.md C18.
"""
import os
from givc.contracts import contract, inline
from givc.model import UNIVERSE, schema as _schema, add_spec_namespace as _asn
from . import schema   # noqa
import io as _io

UNIVERSE.register(os.stat_result)
UNIVERSE.register(_io.BufferedReader)
UNIVERSE.register(_io.BufferedWriter)
UNIVERSE.register(_io.TextIOWrapper)
_asn(os)
_asn(_io)
_schema(os.stat_result, st_mtime='float', st_mtime_ns='int')
# st_mtime: seconds with a fraction (float kind of the engine: exact scaled value, only comparison and int() are modelled);
# st_mtime_ns: the same instant in integral nanoseconds
from giscanner import cachestore   # noqa
_schema(cachestore.CacheStore, _directory='str?')

CS = 'giscanner.cachestore.CacheStore.'

contract('posix.stat', params={'path': 'str'}, returns='stat_result', pure_keys=['path'], trusted=True,
         raises={'FileNotFoundError': 'maybe', 'OSError': 'maybe'},
         note='modification time as a function of the path (no interference)')
contract('posix.unlink', params={'path': 'str'}, trusted=True,
         raises={'FileNotFoundError': 'maybe', 'PermissionError': 'maybe', 'OSError': 'maybe'},
         note='FileNotFoundError: the entry vanished (e.g. removed by a concurrent scanner); OSError: any other errno')
contract('io.open', params={'file': 'str', 'mode': 'str'}, returns='BufferedReader', fresh_result=True, trusted=True,
         raises={'OSError': 'maybe'})
contract('_io.BufferedReader.__enter__', params={'self': 'BufferedReader'}, returns='BufferedReader', trusted=True)
contract('_pickle.load', params={'file': 'BufferedReader'}, returns='any', trusted=True, raises={'Exception': 'maybe'},
         note='a truncated / foreign entry fails to unpickle with some Exception')
contract('_pickle.dump', params={'obj': 'any', 'file': 'any'}, trusted=True, raises={'OSError': 'maybe'})
contract('tempfile.mkstemp', params={'prefix': 'str'}, returns='tuple[int,str]', trusted=True, fresh_result=True,
         note='a fresh private file; its name is not the cache entry')
contract('os.fdopen', params={'fd': 'int', 'mode': 'str'}, returns='BufferedWriter', fresh_result=True, trusted=True,
         raises={'OSError': 'maybe'})
contract('shutil.move', params={'src': 'str', 'dst': 'str'}, trusted=True, raises={'OSError': 'maybe'},
         note='rename within one file system is atomic (assumed); the temp dir may be another file system: see DESIGN.md')
contract('posixpath.join', params={'a': 'str', 'p': 'str'}, returns='str', pure_keys=['a', 'p'], trusted=True)
contract('_hashlib.openssl_sha1', params={'data': 'any'}, returns='opaque', trusted=True)
contract('posix.listdir', params={'path': 'str'}, returns='list[str]', fresh_result=True, trusted=True, raises={'OSError': 'maybe'})


def mtime(path):
    """modification time in nanoseconds (exact)"""
    return os.stat(path).st_mtime_ns


contract(CS + '_cache_is_valid',
         params={'self': 'CacheStore', 'store_filename': 'str', 'filename': 'str'}, returns='bool', props=('C18',),
         raises={'OSError': 'True'},
         ensures={'C18.valid.never_older_than_source': 'implies(result, mtime(store_filename) >= mtime(filename))',
                  'C18.valid.fresh_entry_used': 'implies(not result, True)'},
         exc_ensures={},
         note='an entry older than its source file is never reported valid; a missing entry is invalid')

contract(CS + '_remove_filename', params={'self': 'CacheStore', 'filename': 'str'}, props=('C18',),
         raises={'OSError': 'True', 'FileNotFoundError': 'False'},
         ensures={'C18.remove.unlinks_that_file': "all_calls('posix.unlink', 'arg_path == filename')"},
         note='an entry that has vanished in the meantime (another scanner discarded or purged it) is not an error: '
              'FileNotFoundError never escapes; other OSErrors except EACCES may')

contract(CS + '_get_filename', params={'self': 'CacheStore', 'filename': 'str'}, returns='str?',
         pure_keys=['self._directory', 'filename'], trusted=True,
         ensures={'disabled': '(result is None) == (self._directory is None)'},
         note='entry name = sha1 of the source path inside the cache directory (hashing not modelled)')

ENTRY = 'self._get_filename(filename)'
MODE_RB = 'rb'
MODE_WB = 'wb'

contract(CS + 'load', params={'self': 'CacheStore', 'filename': 'str'}, returns='any', props=('C18',),
         raises={'OSError': 'True'},
         ensures={
             'C18.load.stale_never_served': 'implies(result is not None, mtime(%s) >= mtime(filename))' % ENTRY,
             'C18.load.disabled_cache_untouched': "implies(self._directory is None, result is None and all_calls('io.open', 'False'))",
             'C18.load.reads_only_the_entry': "all_calls('io.open', 'arg_file == %s and arg_mode == MODE_RB')" % ENTRY,
             'C18.load.discards_only_the_entry': "all_calls('_remove_filename', 'arg_filename == %s')" % ENTRY,
             'C18.load.validated_before_unpickling': "calls_ordered('_cache_is_valid', '_pickle.load')",
         },
         note='an unreadable or truncated entry (pickle.load raising any Exception) is discarded, never propagated: '
              'only OSError from the file-system primitives may escape')

contract(CS + 'store', params={'self': 'CacheStore', 'filename': 'str', 'data': 'any'}, props=('C18',),
         raises={'OSError': 'True'},
         ensures={
             'C18.store.never_opens_the_entry': "all_calls('io.open', 'False')",
             'C18.store.writes_only_a_private_temp_file': "all_calls('os.fdopen', 'arg_mode == MODE_WB') and all_calls('_pickle.dump', 'arg_obj is data')",
             'C18.store.entry_replaced_only_by_rename': "all_calls('shutil.move', 'arg_dst == %s')" % ENTRY,
             'C18.store.temp_complete_before_rename': "calls_ordered('_pickle.dump', 'shutil.move')",
             'C18.store.disabled_cache_untouched': "implies(self._directory is None, all_calls('tempfile.mkstemp', 'False'))",
         })


def entry_exists(path):
    return True

# other ways of writing a file: under (assumed) contract only so that their use is *seen* and rejected
for _q, _params in (('shutil.copyfile', {'src': 'str', 'dst': 'str'}), ('shutil.copy', {'src': 'str', 'dst': 'str'}),
                    ('shutil.copy2', {'src': 'str', 'dst': 'str'}), ('posix.rename', {'src': 'str', 'dst': 'str'}),
                    ('posix.replace', {'src': 'str', 'dst': 'str'}), ('posix.link', {'src': 'str', 'dst': 'str'})):
    contract(_q, params=_params, trusted=True, raises={'OSError': 'maybe'})
from givc.contracts import REGISTRY as _R
_NO_OTHER = ' and '.join("all_calls('%s', 'False')" % q for q in ('shutil.copyfile', 'shutil.copy', 'shutil.copy2',
                                                                'posix.rename', 'posix.replace', 'posix.link'))
_R.get(CS + 'store').ensures['C18.store.no_other_way_of_writing'] = _NO_OTHER
_R.get(CS + 'load').ensures['C18.load.never_writes'] = _NO_OTHER + " and all_calls('shutil.move', 'False') and all_calls('tempfile.mkstemp', 'False')"

# ---- version stamp and purge ---------------------------------------------------------------------------------
contract('giscanner.cachestore._get_versionhash', params={}, returns='str', pure_keys=[], trusted=True,
         note='hash of the scanner sources modification times')
contract('io.open', params={'file': 'str', 'mode': 'str', 'encoding': 'any'}, returns='TextIOWrapper', trusted=True) if False else None
contract('_io.BufferedReader.read', params={'self': 'BufferedReader'}, returns='str', trusted=True, raises={'OSError': 'maybe'})
contract('_io.BufferedWriter.write', params={'self': 'BufferedWriter', 's': 'any'}, returns='int', trusted=True, raises={'OSError': 'maybe'})
contract(CS + '_clean', params={'self': 'CacheStore'}, trusted=True, raises={'OSError': 'maybe'}, events=True,
         note='verified below')

contract(CS + '_check_cache_version', params={'self': 'CacheStore'}, props=('C18',), raises={'OSError': 'True'},
         ensures={
             'C18.version.old_entries_purged_before_new_stamp': "each_call_preceded('shutil.move', '_clean') and calls_ordered('_clean', 'shutil.move')",
             'C18.version.stamp_written_to_temp_then_renamed': "all_calls('shutil.move', 'arg_dst == version_path(self)') and "
                                                               "calls_ordered('_io.BufferedWriter.write', 'shutil.move')",
             'C18.version.disabled_cache_untouched': "implies(self._directory is None, all_calls('io.open', 'False') and all_calls('_clean', 'False'))",
         })


def version_path(self):
    return os.path.join(self._directory, '.cache-version')
