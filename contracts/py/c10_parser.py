"""C10 / C11 (parser half) - annotation syntax of GTK-Doc comment blocks (giscanner/annotationparser.py)."""
from givc.contracts import contract, inline
from . import schema   # noqa
from . import c11_message   # noqa
from giscanner import annotationparser as AP

P = 'giscanner.annotationparser.GtkDocCommentBlockParser.'
COMMON = {'self': 'GtkDocCommentBlockParser', 'position': 'Position?', 'column': 'int', 'line': 'str'}


def params(**extra):
    d = dict(COMMON)
    d.update(extra)
    return d


# ---- option parsers ---------------------------------------------------------------------------------------------------
contract(P + '_parse_annotation_options_unknown', params=params(options='str?'), returns='list[str]?', props=('C10',),
         ensures={
             'C10.options.unknown.one_item_holding_the_text': "implies(options, len(result) == 1 and result[0] == options.strip())",
             'C10.options.unknown.absent': "implies(not options, result is None)",
         })

contract(P + '_parse_annotation_options_list', params=params(options='str?'), returns='list[str]?', props=('C10', 'C11'),
         modifies=['LOGGER._warning_count'],
         ensures={
             'C10.options.list.in_order': "implies(options and options.find('=') < 0, same_list(result, options.split(' ')))",
             'C10.options.list.empty': "implies(not options, len(result) == 0)",
             'C11.options.list.key_value_pairs_diagnosed_once':
                 "LOGGER._warning_count == old(LOGGER._warning_count) + (1 if options and options.find('=') >= 0 else 0)",
             'C10.options.list.key_value_pairs_kept_as_text':
                 "implies(options and options.find('=') >= 0, len(result) == 1 and result[0] == options.strip())",
         })


def dict_entry(p):
    """one `key=value` (or bare `key`) item of a dict-valued annotation"""
    parts = p.split('=', 1)
    return (parts[0], parts[1] if len(parts) == 2 else None)


def item_key(options, k):
    return dict_entry(options.split(' ')[k])[0]


def item_value(options, k):
    return dict_entry(options.split(' ')[k])[1]


ABSENT_ = '<no such key>'
DICT_FOLDS = {
    # the value of the last of the first k items whose key is G (the ghost key), if any
    'LV': {'type': 'str?', 'init': 'ABSENT_', 'step': '(item_value(options, I1) if item_key(options, I1) == G else ACC)'},
    'SEEN': {'type': 'bool', 'init': 'False', 'step': '(ACC or item_key(options, I1) == G)'},
}
contract(P + '_parse_annotation_options_dict', params=params(options='str?'), returns='dict[str?]', props=('C10',),
         ghost={'G': 'str'},
         loops={1: {'index': 'I1', 'modifies': ['parsed{}'], 'folds': DICT_FOLDS,
                    'var_types': {'p': 'str', 'parts': 'list[str]', 'key': 'str', 'value': 'str?'},
                    'invariant': ["(G in parsed) == FOLD('SEEN', I1)",
                                  "implies(G in parsed, parsed[G] == FOLD('LV', I1))"]}},
         ensures={
             'C10.options.dict.empty': "implies(not options, len(result) == 0)",
             'C10.options.dict.keys_are_the_item_keys':
                 "implies(options, (G in result) == FOLD('SEEN', len(options.split(' '))))",
             'C10.options.dict.value_of_the_last_item_with_that_key':
                 "implies(options and G in result, result[G] == FOLD('LV', len(options.split(' '))))",
         },
         note='for every key G: it is present iff some item has that key, and it maps to the value of the last such item '
              '(None for a bare key); stated with folds over the items that are parameterised by the ghost key')


# ---- one annotation: name and options ---------------------------------------------------------------------------------
def ann_words(annotation):
    """the annotation text with the deprecated <...> type syntax rewritten, split at the first space"""
    return annotation.replace('<', '(').replace('>', ')').split(' ', 1)


def written_name(annotation):
    return ann_words(annotation)[0].lower()


def written_options(annotation):
    w = ann_words(annotation)
    return w[1] if len(w) == 2 else None


def current_name(name):
    """deprecated spellings are mapped to the current annotation"""
    if name == 'in-out':
        return 'inout'
    if name == 'attribute':
        return 'attributes'
    return name


WN = 'written_name(annotation)'
WO = 'written_options(annotation)'
contract(P + '_parse_annotation', params=params(annotation='str'), returns='tuple[str?,any]', props=('C10', 'C11'),
         modifies=['LOGGER._warning_count'],
         ensures={
             'C10.annotation.name': "implies(result[0] is not None, result[0] == current_name(%s))" % WN,
             'C10.annotation.only_a_malformed_attribute_is_dropped':
                 "implies(result[0] is None, %s == 'attribute' and result[1] is None)" % WN,
             'C10.annotation.list_annotations_get_their_options_as_a_list':
                 "implies(current_name(%s) in AP.LIST_ANNOTATIONS and %s != 'attribute', "
                 "all_calls('_parse_annotation_options_list', 'arg_options == %s') and "
                 "all_calls('_parse_annotation_options_dict', 'False') and "
                 "all_calls('_parse_annotation_options_unknown', 'False'))" % (WN, WN, WO.replace("'", "\\'")),
             'C10.annotation.array_options_are_key_value_pairs':
                 "implies(%s == 'array', all_calls('_parse_annotation_options_dict', 'arg_options == %s') and "
                 "all_calls('_parse_annotation_options_list', 'False'))" % (WN, WO.replace("'", "\\'")),
             'C10.annotation.unknown_annotations_keep_their_text':
                 "implies(current_name(%s) not in AP.ALL_ANNOTATIONS, "
                 "all_calls('_parse_annotation_options_unknown', 'arg_options == %s') and "
                 "all_calls('_parse_annotation_options_list', 'False') and all_calls('_parse_annotation_options_dict', 'False'))"
                 % (WN, WO.replace("'", "\\'")),
             'C11.annotation.count_only_grows': 'LOGGER._warning_count >= old(LOGGER._warning_count)',
             'C11.annotation.deprecated_spelling_diagnosed':
                 "implies(%s in ('in-out', 'attribute'), LOGGER._warning_count >= old(LOGGER._warning_count) + 1)" % WN,
         },
         note='the returned options are what the chosen option parser returns (see its contract)')


# ---- the annotation list of a field: "(ann1 opts) (ann2) : description" ---------------------------------------------------
ABS = '<no such annotation>'
contract(P + '_parse_annotations',
         params=params(fields='str', annotations='Annotations?', parse_options='bool'),
         returns='tuple[success:bool,annotations:any,annotations_changed:any,start_pos:any,end_pos:any]', props=('C10', 'C11'), ghost={'G': 'str'},
         requires=['parse_options is True', 'column >= 0'],
         modifies=['LOGGER._warning_count'],
         loops={1: {'index': 'I1', 'modifies': ['char_buffer[]', 'parsed_annotations{}', 'LOGGER._warning_count'],
                    'var_types': {'parsed_annotations': 'Annotations', 'char_buffer': 'list[str]', 'cur_char': 'str', 'prev_char': 'str',
                                  'parens_level': 'int', 'start_pos': 'int', 'end_pos': 'int', 'i': 'int',
                                  'parsed_annotations_changed': 'bool', 'cur_char_is_space': 'bool'},
                    'invariant': ['is_fresh(char_buffer)', 'is_fresh(parsed_annotations)',
                                  'parens_level >= 0',
                                  'implies(parens_level == 0, len(char_buffer) == 0)',
                                  "implies(parens_level >= 1, 0 <= start_pos and start_pos < I1 and "
                                  "''.join(char_buffer) == fields[start_pos + 1:I1])",
                                  "implies(I1 >= 1, i == I1 - 1 and prev_char == fields[I1 - 1])",
                                  "implies(I1 == 0, prev_char == '' and i == 0)",
                                  '0 <= start_pos and start_pos <= I1 and 0 <= end_pos and end_pos <= I1',
                                  'LOGGER._warning_count >= old(LOGGER._warning_count)',
                                  ],
                    'post': [
                        # C10.annotations.part_ends_only_at_a_visible_character_outside_parentheses: the scan of the annotation
                        # groups stops (break) only at a character that is outside all parentheses and is neither white space
                        # (blank, TAB ...) nor a parenthesis; otherwise it runs to the end of the text
                        "implies(I1 < len(fields), parens_level == 0 and not fields[I1].isspace() and "
                        "fields[I1] != '(' and fields[I1] != ')')"]}},
         ensures={
             'C11.annotations.failure_returns_nothing': 'implies(not result[0], result[1] is None)',
             'C11.annotations.failure_is_diagnosed':
                 'implies(not result[0], LOGGER._warning_count >= old(LOGGER._warning_count) + 1)',
             'C11.annotations.previous_annotations_untouched':
                 'implies(annotations is not None, annotations.get(G, ABS) is old(annotations.get(G, ABS)))',
             'C11.annotations.result_is_a_new_object': 'implies(result[0], is_fresh(result[1]))',
             'C10.annotations.each_group_is_parsed_from_the_text_between_its_parentheses':
                 "all_calls('_parse_annotation', 'arg_annotation == fields[local_start_pos + 1:local_i].strip() and "
                 "arg_column == column + local_start_pos and arg_line == line')",
             'C10.annotations.positions_within_the_field': 'implies(result[0], 0 <= result[3] and result[3] <= len(fields) and '
                                                           '0 <= result[4] and result[4] <= len(fields))',
         },
         note='list mode (parse_options=False, used for the deprecated tag-style annotations) is excluded by precondition')


def rest_of(fields, end_pos):
    return fields[end_pos:].strip()


contract(P + '_parse_fields',
         params=params(fields='str', annotations='Annotations?', parse_options='bool', validate_description_field='bool'),
         returns='tuple[success:bool,annotations:any,annotations_changed:any,description:str]', props=('C10', 'C11'), ghost={'G': 'str'},
         requires=['parse_options is True', 'column >= 0'],
         modifies=['LOGGER._warning_count'],
         ensures={
             'C11.fields.failure_returns_nothing': "implies(not result[0], result[1] is None and result[3] == '')",
             'C11.fields.previous_annotations_untouched':
                 'implies(annotations is not None, annotations.get(G, ABS) is old(annotations.get(G, ABS)))',
             'C10.fields.description_is_the_rest_of_the_field':
                 "all_calls('_parse_annotations', 'arg_fields == fields and arg_annotations is annotations and arg_line == line "
                 "and arg_column == column and arg_position is position')",
             'C11.fields.count_only_grows': 'LOGGER._warning_count >= old(LOGGER._warning_count)',
         },
         note='description: text after the last annotation group, stripped, without the separating colon')


# ---- all comment blocks of a scan: a block that makes the parser fail is diagnosed and skipped, the others are kept --------
contract(P + 'parse_comment_block',
         params={'self': 'GtkDocCommentBlockParser', 'comment': 'str', 'filename': 'str?', 'lineno': 'int'},
         returns='GtkDocCommentBlock?', fresh_result=True, trusted=True, modifies=['LOGGER._warning_count'],
         raises={'Exception': 'maybe'},
         exc_ensures={'count_only_grows_on_failure': ('Exception', 'LOGGER._warning_count >= old(LOGGER._warning_count)')},
         ensures={'count_only_grows': 'LOGGER._warning_count >= old(LOGGER._warning_count)',
                  'named': 'result is None or result.name is not None',
                  'located': 'result is None or (result.position is not None and result.position.filename is not None)'},
         note='the line state machine (500 lines, 15 regular expressions) is not under contract; here it may do anything, '
              'including raising any Exception')
contract('posixpath.dirname', params={'p': 'str'}, returns='str', pure_keys=['p'], trusted=True)
from giscanner import annotationparser as _AP   # noqa
from givc.model import schema as _schema2   # noqa
_schema2(_AP.GtkDocCommentBlock, name='str?', position='Position?')

COMMENTS = 'list[tuple[str,str?,int]]'
contract(P + 'parse_comment_blocks', params={'self': 'GtkDocCommentBlockParser', 'comments': COMMENTS},
         returns='dict[GtkDocCommentBlock]', props=('C11',), ghost={'G': 'str'},
         modifies=['LOGGER._warning_count'],
         loops={1: {'index': 'I1', 'modifies': ['comment_blocks{}', 'LOGGER._warning_count'],
                    'generalize': ['G'],
                    'var_types': {'comment': 'str', 'filename': 'str?', 'lineno': 'int', 'comment_block': 'GtkDocCommentBlock?',
                                  'comment_blocks': 'dict[GtkDocCommentBlock]', 'path': 'str'},
                    'invariant': ['LOGGER._warning_count >= old(LOGGER._warning_count)',
                                  'implies(G in comment_blocks, comment_blocks[G].position is not None and '
                                  'comment_blocks[G].position.filename is not None)']}},
         ensures={
             'C11.blocks.every_comment_is_parsed_in_order':
                 "all_calls('parse_comment_block', 'arg_comment == comments[local_I1][0] and arg_filename == comments[local_I1][1] "
                 "and arg_lineno == comments[local_I1][2]')",
             'C11.blocks.count_only_grows': 'LOGGER._warning_count >= old(LOGGER._warning_count)',
         },
         note='no exception escapes (noexc.* obligations): an internal error of the block parser becomes one counted error at the '
              'position of that block and the remaining comments are still parsed')
