"""C20 - the XML writer produces well-formed, lossless XML (giscanner/xmlwriter.py)."""
from givc.contracts import contract, inline
from . import schema   # noqa

X = 'giscanner.xmlwriter.'

# --- trusted contracts of the standard library escaping functions --------------------------------
contract('xml.sax.saxutils.quoteattr', params={'data': 'str'}, returns='str', pure_keys=['data'], trusted=True,
         ensures={'quoted': "len(result) >= 2", 'no_raw_lt': "'<' not in result",
                  'plain_values_are_just_quoted': "implies(plain_attribute_text(data), result == '\"' + data + '\"')"},
         note='quoteattr: a quoted attribute value that XML attribute-value parsing maps back to data')
contract('xml.sax.saxutils.escape', params={'data': 'str'}, returns='str', pure_keys=['data'], trusted=True,
         ensures={'no_raw_lt': "'<' not in result"},
         note='escape: character data that XML parsing maps back to data')
from xml.sax.saxutils import quoteattr, escape   # noqa  (for native evaluation of the clauses)

import re as _re
_NEEDS_QUOTING = _re.compile('[&<>"\n\r\t]')


def plain_attribute_text(data):
    """no character that quoteattr has to escape: & < > double quote, newline, carriage return, tab"""
    return not _NEEDS_QUOTING.search(data)


ATTRS = 'list[tuple[str,str?]]'

contract(X + '_calc_attrs_length',
         params={'attributes': ATTRS, 'indent': 'int', 'self_indent': 'int'}, returns='int', props=('C20',),
         loops={1: {'invariant': ['True'], 'modifies': [], 'var_types': {'attr_length': 'int'}}},
         ensures={'C20.calc.unknown_indent': 'implies(indent == -1, result == -1)'},
         note='the 79-column threshold is deliberately not part of any contract: wrapping must not matter')


# --- serialisation of one attribute (declarative step, from the property statement) --------------
def attr_step(acc, any_before, attr, value, indent_len, ch):
    """attributes without a value are omitted; a present one contributes  <sep> name="quoted value",
    where <sep> is a single space, preceded by a line break plus indentation when wrapping is on and
    it is not the first emitted attribute"""
    if value is None:
        return acc
    if indent_len and any_before:
        return acc + '\n' + ch * indent_len + ' ' + attr + '=' + quoteattr(value)
    return acc + ' ' + attr + '=' + quoteattr(value)


def any_step(any_before, value):
    return any_before or value is not None


FOLDS = {
    'ANY': {'type': 'bool', 'init': 'False', 'step': 'any_step(ACC, attributes[I2][1])'},
    'SER': {'type': 'str', 'init': "''",
            'step': "attr_step(ACC, FOLD('ANY', I2), attributes[I2][0], attributes[I2][1], indent_len, self_indent_char)"},
}

contract(X + 'collect_attributes',
         params={'tag_name': 'str', 'attributes': ATTRS, 'self_indent': 'int', 'self_indent_char': 'str', 'indent': 'int'},
         returns='str', props=('C20',),
         requires=['self_indent >= 0'],
         loops={1: {'index': 'I2', 'folds': FOLDS, 'modifies': [],
                    'var_types': {'attr_value': 'str', 'first': 'bool'},
                    'invariant': ["attr_value == FOLD('SER', I2)", "(first and attr_value == '') or attr_value.startswith(' ')", "first == (not FOLD('ANY', I2))",
                                  "indent_len == 0 or indent_len == self_indent + len(tag_name) + 1"]}},
         ensures={
             'C20.collect.is_fold_of_attribute_steps': "implies(len(attributes) > 0, result == FOLD('SER', len(attributes)))",
             'C20.collect.empty': "implies(len(attributes) == 0, result == '')",
             'C20.collect.separated': "result == '' or result.startswith(' ')",
         })


def exists_wrap(result, attributes, self_indent, tag_name):
    return True

# ------------------------------------------------------------------------------------------------
# the output buffer: io.StringIO modelled by its accumulated text `buf` (trusted)
contract('_io.StringIO.write', params={'self': 'StringIO', 's': 'str'}, returns='int', trusted=True,
         modifies=['self.buf'], ensures={'appends': 'self.buf == old(self.buf) + s'})
contract('_io.StringIO.getvalue', params={'self': 'StringIO'}, returns='str', trusted=True,
         ensures={'value': 'result == self.buf'})

W = X + 'XMLWriter.'


def wf(w):
    """representation invariant of the writer"""
    return w._indent == 2 * len(w._tag_stack) and w._indent_unit == 2 and \
        ((w._indent_char == ' ' and w._newline_char == '\n') or (w._indent_char == '' and w._newline_char == ''))


contract(X + 'build_xml_tag',
         params={'tag_name': 'str', 'attributes': ATTRS + '?', 'data': 'str?', 'self_indent': 'int', 'self_indent_char': 'str'},
         returns='str', props=('C20',), requires=['self_indent >= 0'],
         ensures={
             'C20.tag.empty_element': "implies(data is None, result.startswith('<' + tag_name) and result.endswith('/>'))",
             'C20.tag.text_is_escaped': "implies(data is not None, result.startswith('<' + tag_name) and "
                                        "result.endswith('>' + escape(data) + '</' + tag_name + '>'))",
             'C20.tag.shape': "result == '<' + tag_name + collect_attributes_text(result, tag_name, data) + "
                              "('/>' if data is None else '>' + escape(data) + '</' + tag_name + '>')",
         })


def collect_attributes_text(result, tag_name, data):
    """the attribute text: what stands between '<tag' and the closing part"""
    tail = '/>' if data is None else '>' + escape(data) + '</' + tag_name + '>'
    return result[len('<' + tag_name):len(result) - len(tail)]


LINE = "(self._indent_char * self._indent if indent else '') + (escape(line) if do_escape else line) + self._newline_char"

contract(W + 'write_line',
         params={'self': 'XMLWriter', 'line': 'str', 'indent': 'bool', 'do_escape': 'bool'}, props=('C20',),
         modifies=['self._data.buf'],
         ensures={'C20.line.appended': 'self._data.buf == old(self._data.buf) + ' + LINE})

contract(W + '_close_tag', params={'self': 'XMLWriter', 'tag_name': 'str'}, props=('C20',),
         modifies=['self._data.buf'],
         ensures={'C20.close.text': "self._data.buf == old(self._data.buf) + self._indent_char * self._indent + "
                                    "'</' + tag_name + '>' + self._newline_char"})

contract(W + '_open_tag', params={'self': 'XMLWriter', 'tag_name': 'str', 'attributes': ATTRS + '?'}, props=('C20',),
         modifies=['self._data.buf'], requires=['self._indent >= 0'],
         ensures={'C20.open.text': "self._data.buf.startswith(old(self._data.buf) + self._indent_char * self._indent + '<' + tag_name) "
                                   "and self._data.buf.endswith('>' + self._newline_char)"})

contract(W + 'write_comment', params={'self': 'XMLWriter', 'text': 'str'}, props=('C20',),
         modifies=['self._data.buf'],
         ensures={'C20.comment.text': "self._data.buf == old(self._data.buf) + self._indent_char * self._indent + "
                                      "'<!-- ' + text + ' -->' + self._newline_char",
                  'C20.comment.wellformed': "'--' not in (' ' + text + ' ')"})

contract(W + 'push_tag', params={'self': 'XMLWriter', 'tag_name': 'str', 'attributes': ATTRS + '?'},
         ghost={'J': 'int'}, props=('C20',),
         modifies=['self._data.buf', 'self._tag_stack[]', 'self._indent'], requires=['wf(self)'],
         ensures={'C20.push.invariant': 'wf(self)',
                  'C20.push.stack_grows': 'len(self._tag_stack) == old(len(self._tag_stack)) + 1 and self._tag_stack[-1] == tag_name',
                  'C20.push.stack_below_kept': 'implies(0 <= J and J < old(len(self._tag_stack)), self._tag_stack[J] == old(self._tag_stack[J]))',
                  'C20.push.opens': "self._data.buf.startswith(old(self._data.buf) + self._indent_char * old(self._indent) + '<' + tag_name)"})

contract(W + 'pop_tag', params={'self': 'XMLWriter'}, returns='str', ghost={'J': 'int'}, props=('C20',),
         modifies=['self._data.buf', 'self._tag_stack[]', 'self._indent'],
         requires=['wf(self)', 'len(self._tag_stack) > 0'],
         ensures={'C20.pop.invariant': 'wf(self)',
                  'C20.pop.closes_most_recent': 'result == old(self._tag_stack[-1])',
                  'C20.pop.stack_shrinks': 'len(self._tag_stack) == old(len(self._tag_stack)) - 1',
                  'C20.pop.stack_below_kept': 'implies(0 <= J and J < len(self._tag_stack), self._tag_stack[J] == old(self._tag_stack[J]))',
                  'C20.pop.text': "self._data.buf == old(self._data.buf) + self._indent_char * self._indent + "
                                  "'</' + result + '>' + self._newline_char"})

contract(W + 'tagcontext', params={'self': 'XMLWriter', 'tag_name': 'str', 'attributes': ATTRS + '?'},
         props=('C20',), requires=['wf(self)'],
         modifies=['self._data.buf', 'self._tag_stack[]', 'self._indent'],
         raises={'Exception': 'True'},
         yield_spec={'modifies': ['self._data.buf', 'self._tag_stack[]', 'self._indent'],
                     'ensures': ['wf(self)', 'len(self._tag_stack) == old(len(self._tag_stack))',
                                 'self._tag_stack[-1] == old(self._tag_stack[-1])',
                                 'self._data.buf.startswith(old(self._data.buf))']},
         ensures={'C20.context.balanced': 'len(self._tag_stack) == old(len(self._tag_stack)) and wf(self)',
                  'C20.context.closed': "self._data.buf.endswith(self._indent_char * self._indent + '</' + tag_name + '>' + self._newline_char)"},
         exc_ensures={'C20.context.balanced_on_exception': ('Exception', 'len(self._tag_stack) == old(len(self._tag_stack)) and wf(self)'),
                      'C20.context.closed_on_exception': ('Exception', "self._data.buf.endswith(self._indent_char * self._indent + '</' + tag_name + '>' + self._newline_char)")},
         note='the with-body is abstracted by yield_spec: it uses the writer in a balanced way (by induction on nesting) and may raise')

contract(W + 'write_tag', params={'self': 'XMLWriter', 'tag_name': 'str', 'attributes': ATTRS + '?', 'data': 'str?'},
         props=('C20',), modifies=['self._data.buf'], requires=['self._indent >= 0'],
         ensures={'C20.write_tag.leaf': "self._data.buf.startswith(old(self._data.buf) + self._indent_char * self._indent + '<' + tag_name)"})
