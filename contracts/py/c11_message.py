"""C11 (counting half) - every diagnostic is counted, even when its display is suppressed."""
from givc.contracts import contract, inline
from . import schema   # noqa
from giscanner import message

ML = 'giscanner.message.MessageLogger.'
POS_OK = 'positions is None or isinstance(positions, (message.Position, set, list))'
M = 'giscanner.message.'

contract('giscanner.utils.break_on_debug_flag', params={'debug_flag': 'str'}, trusted=True,
         note='debugger hook; no effect on modelled state')
contract('giscanner.message.Position.format', params={'self': 'Position', 'cwd': 'any'}, returns='str',
         pure_keys=['self', 'cwd'], trusted=True)
contract(ML + 'get', params={'cls': 'any'}, returns='MessageLogger', pure_keys=[], trusted=True,
         ensures={'singleton': 'result is LOGGER'},
         note='the MessageLogger singleton is modelled as the distinguished object LOGGER')

contract(ML + 'log',
         params={'self': 'MessageLogger', 'log_type': 'int', 'text': 'any', 'positions': 'any', 'prefix': 'str?',
                 'marker_pos': 'int?', 'marker_line': 'str?'},
         props=('C11',),
         requires=['log_type in (0, 1, 2)', POS_OK],
         modifies=['self._warning_count'],
         raises={'SystemExit': 'log_type == 2'},
         casts=[('for position in positions[:-1]:', 'positions', 'list[Position]'),
                ('last_position = positions[-1].format(cwd=self._cwd)', 'positions', 'list[Position]')],
         loops={1: {'invariant': ['self._warning_count == old(self._warning_count) + 1'], 'modifies': []}},
         ensures={
             'C11.log.counted': 'self._warning_count == old(self._warning_count) + 1',
             'C11.log.fatal_does_not_return': 'log_type != 2',
         },
         exc_ensures={
             'C11.log.counted_on_fatal': ('SystemExit', 'self._warning_count == old(self._warning_count) + 1'),
         },
         note='precondition: callers pass None, a Position, or a set/list of Positions')

contract(ML + 'get_warning_count', params={'self': 'MessageLogger'}, returns='int', props=('C11',),
         ensures={'C11.count.read': 'result == self._warning_count'})

for _name, _lt in (('warn', 0), ('error', 1), ('fatal', 2)):
    contract(M + _name,
             params={'text': 'any', 'positions': 'any', 'prefix': 'str?', 'marker_pos': 'int?', 'marker_line': 'str?'},
             props=('C11',), requires=[POS_OK], no_return=(_lt == 2),
             modifies=['LOGGER._warning_count'],
             raises={'SystemExit': 'True' if _lt == 2 else 'False'},
             ensures=dict([('C11.%s.counted_once' % _name, 'LOGGER._warning_count == old(LOGGER._warning_count) + 1')] +
                          ([('C11.fatal.does_not_return', 'False')] if _lt == 2 else [])),
             exc_ensures={'C11.%s.counted_on_exit' % _name:
                          ('SystemExit', 'LOGGER._warning_count == old(LOGGER._warning_count) + 1')})

NODE_POS_OK = ('positions is None or isinstance(positions, (message.Position, set, list))')

contract(ML + 'log_node',
         params={'self': 'MessageLogger', 'log_type': 'int', 'node': 'Annotated|Type|Namespace?', 'text': 'str',
                 'context': 'Node?', 'positions': 'any'},
         props=('C11',), requires=['log_type in (0, 1, 2)', NODE_POS_OK],
         modifies=['self._warning_count'], raises={'SystemExit': 'log_type == 2'},
         ensures={'C11.log_node.counted': 'self._warning_count == old(self._warning_count) + 1',
                  'C11.log_node.fatal_does_not_return': 'log_type != 2'},
         exc_ensures={'C11.log_node.counted_on_fatal': ('SystemExit', 'self._warning_count == old(self._warning_count) + 1')})

contract(M + 'log_node',
         params={'log_type': 'int', 'node': 'Annotated|Type|Namespace?', 'text': 'str', 'context': 'Node?', 'positions': 'any'},
         props=('C11',), requires=['log_type in (0, 1, 2)', NODE_POS_OK],
         modifies=['LOGGER._warning_count'], raises={'SystemExit': 'log_type == 2'},
         ensures={'C11.mlog_node.counted': 'LOGGER._warning_count == old(LOGGER._warning_count) + 1',
                  'C11.mlog_node.fatal_does_not_return': 'log_type != 2'},
         exc_ensures={'C11.mlog_node.counted_on_fatal': ('SystemExit', 'LOGGER._warning_count == old(LOGGER._warning_count) + 1')})

for _name in ('warn_node', 'error_node'):
    contract(M + _name,
             params={'node': 'Annotated|Type|Namespace?', 'text': 'str', 'context': 'Node?', 'positions': 'any'},
             props=('C11',), requires=[NODE_POS_OK], modifies=['LOGGER._warning_count'],
             ensures={'C11.%s.counted_once' % _name: 'LOGGER._warning_count == old(LOGGER._warning_count) + 1'})

contract(M + 'strict_node',
         params={'node': 'Annotated|Type|Namespace?', 'text': 'str', 'context': 'Node?', 'positions': 'any'},
         props=('C11',), requires=[NODE_POS_OK], modifies=['LOGGER._warning_count'],
         ensures={'C11.strict_node.counted_iff_strict':
                  'LOGGER._warning_count == old(LOGGER._warning_count) + (1 if LOGGER._enable_strict else 0)'})

contract(ML + 'log_symbol', params={'self': 'MessageLogger', 'log_type': 'int', 'symbol': 'SourceSymbol', 'text': 'any'},
         props=('C11',), requires=['log_type in (0, 1, 2)'], modifies=['self._warning_count'],
         raises={'SystemExit': 'log_type == 2'},
         ensures={'C11.log_symbol.counted': 'self._warning_count == old(self._warning_count) + 1'},
         exc_ensures={'C11.log_symbol.counted_on_fatal': ('SystemExit', 'self._warning_count == old(self._warning_count) + 1')})
contract(M + 'warn_symbol', params={'symbol': 'SourceSymbol', 'text': 'any'},
         props=('C11',), modifies=['LOGGER._warning_count'],
         ensures={'C11.warn_symbol.counted_once': 'LOGGER._warning_count == old(LOGGER._warning_count) + 1'})
inline(ML + 'strict_enabled', ML + 'warnings_enabled', 'giscanner.sourcescanner.SourceSymbol.position')


# ---- validation of the annotations of one part of a comment block: diagnoses, never raises -------------------------------------------
from giscanner import annotationparser as _AP   # noqa
AV = 'giscanner.annotationparser.GtkDocAnnotatable.'
contract(AV + '<dynamic>', params={'self': 'GtkDocAnnotatable', 'position': 'Position?', 'ann_name': 'str', 'options': 'any'},
         trusted=True, modifies=['LOGGER._warning_count'],
         ensures={'count_monotone': 'LOGGER._warning_count >= old(LOGGER._warning_count)'},
         note='stands for the ~40 methods _do_validate_<annotation> selected by name in GtkDocAnnotatable.validate: each checks the '
              'number / spelling of the options of one annotation and only warns (assumed; they are straight-line calls of '
              '_validate_options / _validate_annotation)')
contract(AV + 'validate', params={'self': 'GtkDocAnnotatable'}, props=('C11',),
         modifies=['LOGGER._warning_count'],
         loops={1: {'index': 'I1', 'modifies': ['LOGGER._warning_count'],
                    'invariant': ['LOGGER._warning_count >= old(LOGGER._warning_count)'],
                    'var_types': {'ann_name': 'str'}}},
         ensures={'C11.validate.only_diagnoses': 'LOGGER._warning_count >= old(LOGGER._warning_count)'},
         note='no exception for any annotation dictionary the parser can deliver - in particular annotations without options '
              '((not), (scope) ... have an empty option list); nothing but the diagnostic counter changes')
