"""C13 - enumeration members and constants keep correct names, types and values."""
from givc.contracts import contract, inline
from . import schema   # noqa
from .c02_defaults import denotes
from giscanner import ast

T = 'giscanner.transformer.Transformer.'
SS = 'giscanner.sourcescanner.SourceSymbol.'
inline(SS + 'const_int', SS + 'const_double', SS + 'const_string', SS + 'const_boolean', SS + 'ident',
       SS + 'type', SS + 'base_type', SS + 'source_filename', SS + 'line', SS + 'private',
       'giscanner.sourcescanner.SourceType.__init__', 'giscanner.sourcescanner.SourceSymbol.__init__')

# --- assumed contracts of the surrounding transformer functions (not verified here) ---
contract(T + '_create_type_from_base',
         params={'self': 'Transformer', 'source_type': 'SourceType', 'is_parameter': 'bool', 'is_return': 'bool'},
         returns='Type', fresh_result=True, trusted=True,
         ensures={'has_ctype': 'result.ctype is not None'},
         note='declared type of the symbol; C02 covers its construction')
contract(T + '_resolve_type_from_ctype', params={'self': 'Transformer', 'typeval': 'Type'}, returns='bool',
         requires=['typeval.ctype is not None'],
         modifies=['typeval.target_giname'], raises={'KeyError': 'maybe'}, trusted=True,
         ensures={'giname_shape': "typeval.target_giname is None or typeval.target_giname != ''"},
         note='may set target_giname of the passed type')
contract('giscanner.ast.Node.add_symbol_reference', params={'self': 'Node', 'symbol': 'SourceSymbol'},
         modifies=['self.file_positions{}'], trusted=True)

# --- frozen oracle: unsigned integer types and their widths on this platform (LP64) -------------
U8 = ('guint8',)
U16 = ('guint16', 'gushort')
U32 = ('guint32', 'guint')
U64 = ('guint64', 'gulong', 'gsize', 'guintptr')


def unsigned_modulus(u):
    """2**width for unsigned integer types, None for every other type."""
    if denotes(u, U8):
        return 2 ** 8
    if denotes(u, U16):
        return 2 ** 16
    if denotes(u, U32):
        return 2 ** 32
    if denotes(u, U64):
        return 2 ** 64
    return None


def unaliased_of(self, t):
    """the type a constant's declared type stands for once typedef aliases are removed"""
    if t.target_giname and t.ctype:
        target = self.resolve_aliases(self.lookup_giname(t.target_giname))
        if isinstance(target, ast.Type):
            return target
    return t


def expected_int_text(self, t, n):
    u = unaliased_of(self, t)
    if denotes(u, U8):
        return str(n % 2 ** 8)
    if denotes(u, U16):
        return str(n % 2 ** 16)
    if denotes(u, U32):
        return str(n % 2 ** 32)
    if denotes(u, U64):
        return str(n % 2 ** 64)
    return str(n)


def is_public_header_symbol(symbol):
    return (not symbol.ident.startswith('_')) and symbol.source_filename is not None \
        and symbol.source_filename.endswith('.h')


contract(T + '_create_const',
         params={'self': 'Transformer', 'symbol': 'SourceSymbol'},
         returns='Constant?', props=('C13',), modifies=['*.target_giname'],
         requires=['symbol.ident is not None', 'not self._symbol_filter_cmd'],
         raises={'TransformerException': 'True', 'KeyError': 'True',
                 'AssertionError': "symbol.const_string is None and symbol.const_int is None and "
                                   "symbol.const_boolean is None and symbol.const_double is None"},
         let={'public': 'is_public_header_symbol(symbol)'},
         ensures={
             'C13.const.private_dropped': "implies(not public, result is None)",
             'C13.const.public_created': "implies(public, result is not None and result.ctype == symbol.ident "
                                         "and result.name == self._strip_symbol(symbol))",
             'C13.const.string_verbatim': "implies(public and symbol.const_string is not None, "
                                          "result.value == symbol.const_string and result.value_type.target_fundamental == 'utf8')",
             'C13.const.int_typed': "implies(public and symbol.const_string is None and symbol.const_int is not None "
                                    "and symbol.base_type is None, result.value_type.target_fundamental == 'gint')",
             'C13.const.int_value_in_range': "implies(public and symbol.const_string is None and symbol.const_int is not None, "
                                             "result.value == expected_int_text(self, result.value_type, symbol.const_int))",
             'C13.const.boolean': "implies(public and symbol.const_string is None and symbol.const_int is None "
                                  "and symbol.const_boolean is not None, "
                                  "result.value == ('true' if symbol.const_boolean else 'false') "
                                  "and result.value_type.target_fundamental == 'gboolean')",
             'C13.const.double': "implies(public and symbol.const_string is None and symbol.const_int is None "
                                 "and symbol.const_boolean is None and symbol.const_double is not None, "
                                 "result.value_type.target_fundamental == 'gdouble')",
         })
