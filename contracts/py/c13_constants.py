"""C13 - enumeration members and constants keep correct names, types and values."""
from givc.contracts import contract, inline
from . import schema   # noqa
from . import c04_symbols   # noqa  (_strip_symbol, split_csymbol)
from .c02_defaults import denotes
from giscanner import ast

T = 'giscanner.transformer.Transformer.'
SS = 'giscanner.sourcescanner.SourceSymbol.'
inline(SS + 'const_int', SS + 'const_double', SS + 'const_string', SS + 'const_boolean', SS + 'ident',
       SS + 'type', SS + 'base_type', SS + 'source_filename', SS + 'line', SS + 'private',
       'giscanner.sourcescanner.SourceType.__init__', 'giscanner.sourcescanner.SourceSymbol.__init__')

# --- assumed contracts of the surrounding transformer functions (not verified here) ---
# _create_type_from_base: see c02_defaults.py (verified there; the clause `has_ctype` is what _create_const relies on)
contract(T + '_resolve_type_from_ctype', params={'self': 'Transformer', 'typeval': 'Type'}, returns='bool',
         requires=['typeval.ctype is not None'],
         modifies=['typeval.target_giname'], raises={'KeyError': 'maybe'}, trusted=True,
         ensures={'giname_shape': "typeval.target_giname is None or typeval.target_giname != ''"},
         note='may set target_giname of the passed type')
contract('giscanner.ast.Node.add_symbol_reference', params={'self': 'Node', 'symbol': 'SourceSymbol'},
         modifies=['self.file_positions{}'], trusted=True)

# --- frozen oracle: unsigned integer types and their widths on this platform (LP64) -------------
U8 = ('guint8',)
U16 = ('guint16', 'gushort')
U32 = ('guint32', 'guint')
U64 = ('guint64', 'gulong', 'gsize', 'guintptr')


def unsigned_modulus(u):
    """2**width for unsigned integer types, None for every other type."""
    if denotes(u, U8):
        return 2 ** 8
    if denotes(u, U16):
        return 2 ** 16
    if denotes(u, U32):
        return 2 ** 32
    if denotes(u, U64):
        return 2 ** 64
    return None


def unaliased_of(self, t):
    """the type a constant's declared type stands for once typedef aliases are removed"""
    if t.target_giname and t.ctype:
        target = self.resolve_aliases(self.lookup_giname(t.target_giname))
        if isinstance(target, ast.Type):
            return target
    return t


def expected_int_text(self, t, n):
    u = unaliased_of(self, t)
    if denotes(u, U8):
        return str(n % 2 ** 8)
    if denotes(u, U16):
        return str(n % 2 ** 16)
    if denotes(u, U32):
        return str(n % 2 ** 32)
    if denotes(u, U64):
        return str(n % 2 ** 64)
    return str(n)


def is_public_header_symbol(symbol):
    return (not symbol.ident.startswith('_')) and symbol.source_filename is not None \
        and symbol.source_filename.endswith('.h')


contract(T + '_create_const',
         params={'self': 'Transformer', 'symbol': 'SourceSymbol'},
         returns='Constant?', props=('C13',), modifies=['*.target_giname'],
         requires=['symbol.ident is not None', 'not self._symbol_filter_cmd',
                   # data invariant of the C lexer's types: a pointer type has a pointee
                   'implies(symbol._symbol.base_type is not None and symbol._symbol.base_type.type == sourcescanner.CTYPE_POINTER, '
                   'symbol._symbol.base_type.base_type is not None)'],
         raises={'TransformerException': 'True', 'KeyError': 'True',
                 'AssertionError': "symbol.const_string is None and symbol.const_int is None and "
                                   "symbol.const_boolean is None and symbol.const_double is None"},
         let={'public': 'is_public_header_symbol(symbol)'},
         ensures={
             'C13.const.private_dropped': "implies(not public, result is None)",
             'C13.const.public_created': "implies(public, result is not None and result.ctype == symbol.ident "
                                         "and result.name == self._strip_symbol(symbol))",
             'C13.const.string_verbatim': "implies(public and symbol.const_string is not None, "
                                          "result.value == symbol.const_string and result.value_type.target_fundamental == 'utf8')",
             'C13.const.int_typed': "implies(public and symbol.const_string is None and symbol.const_int is not None "
                                    "and symbol.base_type is None, result.value_type.target_fundamental == 'gint')",
             'C13.const.int_value_in_range': "implies(public and symbol.const_string is None and symbol.const_int is not None, "
                                             "result.value == expected_int_text(self, result.value_type, symbol.const_int))",
             'C13.const.boolean': "implies(public and symbol.const_string is None and symbol.const_int is None "
                                  "and symbol.const_boolean is not None, "
                                  "result.value == ('true' if symbol.const_boolean else 'false') "
                                  "and result.value_type.target_fundamental == 'gboolean')",
             'C13.const.double': "implies(public and symbol.const_string is None and symbol.const_int is None "
                                 "and symbol.const_boolean is None and symbol.const_double is not None, "
                                 "result.value_type.target_fundamental == 'gdouble')",
         })


# ------------------------------------------------------------------------------------------------
# enumerations: one member per non-private enumerator, named by stripping the common prefix and lower-casing
from givc.contracts import helper_loop   # noqa
from giscanner import sourcescanner   # noqa
contract('giscanner.sourcescanner.SourceType.child_list', params={'self': 'SourceType'}, returns='list[SourceSymbol]',
         pure_keys=['self._stype'], trusted=True,
         ensures={'wrappers': 'len(result) >= 0'},
         note='generator property: one SourceSymbol wrapper per (non-NULL) child of the C type, in declaration order')
def common_word_prefix(a, b):
    """longest common prefix of a and b made of whole underscore-separated words, with a trailing underscore (the nested
    helper common_prefix of _enum_common_prefix; its word loop - zip over two split lists - is not under contract)"""


contract('contracts.py.c13_constants.common_word_prefix', params={'a': 'str', 'b': 'str'}, returns='str', pure_keys=['a', 'b'],
         trusted=True)
contract(T + '_enum_common_prefix.<locals>.common_prefix', params={'a': 'str', 'b': 'str'}, returns='str', trusted=True,
         pure_keys=['a', 'b'], ensures={'is_the_common_word_prefix': 'result == common_word_prefix(a, b)'})
PFX_FOLDS = {
    # the common word prefix of the first k enumerators (all of them, private ones included)
    'CP': {'type': 'str?', 'init': 'None',
           'step': '(%s[I1].ident if ACC is None else common_word_prefix(ACC, %s[I1].ident))' % ('symbol.base_type.child_list',
                                                                                                 'symbol.base_type.child_list')},
}
contract(T + '_enum_common_prefix', params={'self': 'Transformer', 'symbol': 'SourceSymbol'}, returns='str?', props=('C13',),
         pure_keys=['self', 'symbol'],
         requires=['symbol.base_type is not None'],
         loops={1: {'index': 'I1', 'folds': PFX_FOLDS, 'modifies': [], 'var_types': {'child': 'SourceSymbol', 'prefix': 'str?'},
                    'assume': ['implies(I1 < len(symbol.base_type.child_list), symbol.base_type.child_list[I1].ident is not None)'],
                    'invariant': ["prefix == FOLD('CP', I1)", "implies(I1 >= 1, prefix is not None)"]}},
         ensures={
             'C13.prefix.single_enumerator_has_no_common_prefix': 'implies(len(symbol.base_type.child_list) < 2, result is None)',
             'C13.prefix.is_the_common_word_prefix_of_all_enumerators':
                 "implies(result is not None, result == FOLD('CP', len(symbol.base_type.child_list)))",
         },
         note='the prefix is folded over ALL enumerators in declaration order (private ones included); None when an empty '
              'prefix is reached')
contract(T + 'strip_identifier', params={'self': 'Transformer', 'ident': 'str'}, returns='str',
         pure_keys=['self', 'ident'], trusted=True, raises={'TransformerException': 'maybe', 'ValueError': 'maybe'},
         note='identifier-prefix stripping: see C04 (_split_c_string_for_namespace_matches is the verified core)')
helper_loop('giscanner.ast.Enum.__init__', 1, {'invariant': ['True'], 'modifies': ['*.parent']})
helper_loop('giscanner.ast.Bitfield.__init__', 1, {'invariant': ['True'], 'modifies': ['*.parent']})

KIDS = 'symbol.base_type.child_list'
ENUM_FOLDS = {
    # number of public (non-private) enumerators among the first k
    'NP': {'type': 'int', 'init': '0', 'step': '(ACC if %s[I1].private else ACC + 1)' % KIDS},
}


def member_name(self, symbol, child):
    """the enumerator's identifier without the enumeration's common prefix (or, failing that, without the namespace
    prefix), lower-cased"""
    prefix = self._enum_common_prefix(symbol)
    if prefix:
        return child.ident[len(prefix):].lower()
    return self._strip_symbol(child).lower()


def member_ok(self, symbol, m, child):
    return m.name == member_name(self, symbol, child) and m.value == child.const_int and m.symbol == child.ident


contract(T + '_create_enum', params={'self': 'Transformer', 'symbol': 'SourceSymbol'}, returns='Enum|Bitfield', props=('C13',),
         ghost={'K': 'int'}, fresh_result=False,
         requires=['symbol.ident is not None', 'symbol.base_type is not None', 'not self._symbol_filter_cmd'],
         modifies=['*.parent'],
         raises={'TransformerException': 'True', 'ValueError': 'True', 'KeyError': 'True'},
         loops={1: {'index': 'I1', 'folds': ENUM_FOLDS, 'modifies': ['members[]'],
                    'assume': ['implies(I1 < len(%s), %s[I1].ident is not None and %s[I1].const_int is not None)' % (KIDS, KIDS, KIDS)],
                    'var_types': {'members': 'list[Member]', 'child': 'SourceSymbol', 'name': 'str'},
                    'invariant': [
                        'is_fresh(members)',
                        "len(members) == FOLD('NP', I1)",
                        "implies(0 <= K and K < I1 and not %s[K].private, 0 <= FOLD('NP', K) and FOLD('NP', K) < len(members) "
                        "and member_ok(self, symbol, members[FOLD('NP', K)], %s[K]))" % (KIDS, KIDS),
                    ]}},
         ensures={
             'C13.enum.one_member_per_public_enumerator': "len(result.members) == FOLD('NP', len(%s))" % KIDS,
             'C13.enum.member_name_value_identifier':
                 "implies(0 <= K and K < len(%s) and not %s[K].private, 0 <= FOLD('NP', K) and FOLD('NP', K) < len(result.members) and "
                 "member_ok(self, symbol, result.members[FOLD('NP', K)], %s[K]))" % (KIDS, KIDS, KIDS),
             'C13.enum.c_type_is_the_c_name': 'result.ctype == symbol.ident',
             'C13.enum.name_is_the_stripped_identifier': 'result.name == self.strip_identifier(symbol.ident)',
             'C13.enum.flags_become_a_bitfield': 'isinstance(result, ast.Bitfield) == bool(symbol.base_type.is_bitfield)',
         },
         note='members keep the declaration order: the member of the K-th enumerator stands at position NP(K) = number of '
              'public enumerators before it')
