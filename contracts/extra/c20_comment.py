"""C20 - native confirmation of the recorded comment finding and spec validation of the serialisation
meta-lemma against expat (spec validation, not proof)."""
from givc.extra import hook


@hook('C20')
def comment_and_expat(tier, seed):
    import random
    from xml.parsers import expat
    from giscanner.xmlwriter import XMLWriter, build_xml_tag
    out = {'detail': {}, 'samples': [], 'bounded': [], 'violations': []}
    w = XMLWriter()
    w.write_comment('a--b')
    with w.tagcontext('r', []):
        pass
    ok = True
    try:
        expat.ParserCreate().Parse(w.get_encoded_xml(), True)
    except expat.ExpatError as e:
        ok = False
        out['detail']['write_comment("a--b")'] = 'expat: %s' % e
    out['detail']['comment finding reproduces natively'] = (not ok)
    # spec validation: documents rendered by the real writer from random balanced traces parse back (expat)
    rnd = random.Random(seed)
    alphabet = ['a', 'B', '"', "'", '<', '>', '&', '\n', '\t', ' ', 'é', '中', ']]>', '--']
    n = 200 if tier == 'quick' else 3000
    bad = 0
    first = None
    for _ in range(n):
        def s():
            return ''.join(rnd.choice(alphabet) for _ in range(rnd.randint(0, 6)))
        attrs = [('a%d' % i, rnd.choice([None, s()])) for i in range(rnd.randint(0, 14))]
        text = rnd.choice([None, s()])
        w = XMLWriter()
        with w.tagcontext('root', attrs):
            w.write_tag('leaf', attrs, text)
        seen = []
        p = expat.ParserCreate()
        p.StartElementHandler = lambda name, a: seen.append((name, dict(a)))
        buf = []
        p.CharacterDataHandler = buf.append
        try:
            p.Parse(w.get_encoded_xml(), True)
        except expat.ExpatError as e:
            bad += 1
            first = first or {'attributes': attrs, 'text': text, 'xml': w.get_xml(), 'expat': str(e)}
            continue
        want = {k: v for k, v in attrs if v is not None}
        if len(seen) != 2 or seen[0][1] != want or seen[1][1] != want:
            bad += 1
            first = first or {'attributes': attrs, 'text': text, 'xml': w.get_xml(), 'parsed_attributes': [x[1] for x in seen]}
        if text is not None and '\r' not in text and ''.join(buf).strip('\n ') != text.strip('\n '):
            bad += 1
            first = first or {'attributes': attrs, 'text': text, 'xml': w.get_xml(), 'parsed_text': ''.join(buf)}
    out['bounded'].append({'what': 'meta-lemma "a balanced trace rendered per the proved serialisation spec parses back to that trace" '
                                   'validated with expat on random documents (spec validation, NOT counted as proved)',
                           'documents': n, 'mismatches': bad, 'seed': seed})
    if bad:
        import json
        import os
        here = os.path.dirname(os.path.dirname(os.path.dirname(os.path.abspath(__file__))))
        os.makedirs(os.path.join(here, 'replay', 'C20'), exist_ok=True)
        path = os.path.join('replay', 'C20', 'expat_round_trip.json')
        json.dump({'property': 'C20', 'obligation': 'expat round trip of the writer output (bounded spec validation)', 'input': first,
                   'note': "w = XMLWriter(); with w.tagcontext('root', attributes): w.write_tag('leaf', attributes, text); "
                           'expat must parse w.get_encoded_xml() back to the same attributes and text'},
                  open(os.path.join(here, path), 'w'), indent=1)
        out['violations'].append({'text': 'expat round trip of writer output failed on %d random documents (bounded spec validation)' % bad,
                                  'replay': path, 'confirmed': True})
    return out
