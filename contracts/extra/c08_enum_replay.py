"""C08 - native replay of the enum-storage finding: compute_enum_storage_type is extracted textually from
giroffsets.c (from its `static void` line to the closing brace in column 0) together with the nine probe
typedefs, compiled with gcc against minimal definitions of GList / GIrNodeEnum / GIrNodeValue, and run on a
value list; the result is compared with what gcc itself chooses for an enum with these values."""
import os
import re
import shutil
import subprocess
import tempfile
from givc.extra import hook


def run_real(values):
    from givc import harness
    src = open(os.path.join(harness.REPO, 'girepository/giroffsets.c')).read()
    blocks = re.findall(r'typedef enum \{[^}]*\} Enum\d+;', src)
    m = re.search(r'static void\ncompute_enum_storage_type \(GIrNodeEnum \*enum_node\)\n\{.*?\n\}\n', src, re.S)
    if not m:
        return None
    tags = dict(VOID=0, INT8=2, UINT8=3, INT16=4, UINT16=5, INT32=6, UINT32=7, INT64=8, UINT64=9)
    prog = ['#include <stdio.h>', '#include <stdlib.h>', '#include <limits.h>', '#include <stdint.h>',
            'typedef unsigned int guint; typedef int64_t gint64; typedef int gboolean; typedef void *gpointer;',
            '#define TRUE 1', '#define FALSE 0', '#define G_MAXSHORT SHRT_MAX', '#define G_MINSHORT SHRT_MIN',
            '#define G_MAXUSHORT USHRT_MAX', '#define G_MAXINT INT_MAX',
            '#define g_error(...) do { printf("g_error\\n"); exit(3); } while (0)',
            'typedef struct _GList { gpointer data; struct _GList *next; } GList;',
            'typedef struct { gint64 value; } GIrNodeValue;',
            'typedef struct { int storage_type; GList *values; } GIrNodeEnum;'] + \
           ['#define GI_TYPE_TAG_%s %d' % kv for kv in tags.items()] + blocks + [m.group(0)]
    prog.append('typedef enum { PROBE_A = %s } ProbeEnum;' % ', PROBE_B = '.join('%dLL' % v for v in values).replace('PROBE_B', 'PROBE_X', 0))
    prog[-1] = 'typedef enum { %s } ProbeEnum;' % ', '.join('PROBE_%d = %dLL' % (i, v) for i, v in enumerate(values))
    prog.append('int main(void) { GIrNodeEnum e = {0, 0}; GList cells[%d]; GIrNodeValue vals[%d];' % (len(values), len(values)))
    for i, v in enumerate(values):
        prog.append('vals[%d].value = %dLL; cells[%d].data = &vals[%d]; cells[%d].next = %s;' %
                    (i, v, i, i, i, '&cells[%d]' % (i + 1) if i + 1 < len(values) else '0'))
    prog.append('e.values = &cells[0]; compute_enum_storage_type(&e);')
    prog.append('printf("%d %zu %d\\n", e.storage_type, sizeof(ProbeEnum), ((ProbeEnum)-1) < 0); return 0; }')
    d = tempfile.mkdtemp(prefix='givc-c08-')
    try:
        open(os.path.join(d, 'r.c'), 'w').write('\n'.join(prog))
        subprocess.run(['gcc', '-w', '-o', os.path.join(d, 'r'), os.path.join(d, 'r.c')], check=True, capture_output=True)
        out = subprocess.run([os.path.join(d, 'r')], capture_output=True, text=True).stdout.split()
    finally:
        shutil.rmtree(d, ignore_errors=True)
    storage, size, signed = int(out[0]), int(out[1]), int(out[2])
    width = {2: 1, 3: 1, 4: 2, 5: 2, 6: 4, 7: 4, 8: 8, 9: 8}.get(storage)
    return {'values': values, 'storage_type_tag': storage, 'storage_width': width, 'gcc_sizeof_enum': size, 'gcc_signed': bool(signed)}


@hook('C08')
def enum_replay(tier, seed):
    out = {'detail': {}, 'samples': []}
    try:
        r = run_real([0, 4294967296])
        out['detail']['native replay compute_enum_storage_type([0, 2**32])'] = r
        out['samples'].append({'replay': r, 'mismatch': r is not None and r['storage_width'] != r['gcc_sizeof_enum']})
        r2 = run_real([0, 1, 200])
        out['detail']['native sanity compute_enum_storage_type([0, 1, 200])'] = r2
    except Exception as e:   # noqa
        out['detail']['replay error'] = str(e)
    return out
