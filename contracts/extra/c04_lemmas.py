"""C04 - bounded validation of the assumed library lemmas used by the contract of
MainTransformer._split_uscored_by_type (facts about str.rsplit / str.count / str.join).

The lemma texts are taken from contracts/py/c04_symbols.RSPLIT_LEMMAS (the very strings the verifier assumes) and
evaluated natively by CPython for every string over the alphabet {a, b, _} up to length 6, every prefix Q of it (and
one non-prefix), and every count from 0 to len+2.  This is a *bounded* check of an assumption, not a proof.
"""
import itertools
from givc.extra import hook


@hook('C04')
def validate_rsplit_lemmas(tier, seed):
    from contracts.py import c04_symbols as M
    ns = dict(vars(M))
    ns['implies'] = lambda a, b: (not a) or b
    maxlen = 6 if tier == 'quick' else 8
    codes = [(t, compile(t, '<lemma>', 'eval')) for t in M.RSPLIT_LEMMAS]
    n = 0
    bad = []
    for ln in range(0, maxlen + 1):
        for tup in itertools.product('ab_', repeat=ln):
            s = ''.join(tup)
            qs = [s[:k] for k in range(ln + 1)] + [s + 'x']
            for q in qs:
                for count in range(0, ln + 3):
                    env = dict(ns, uscored=s, Q=q, count=count)
                    for text, code in codes:
                        n += 1
                        try:
                            ok = bool(eval(code, env))
                        except Exception as e:      # an ill-defined instance is vacuous for the verifier (Implies(wd, ..))
                            ok = True
                        if not ok and len(bad) < 5:
                            bad.append({'lemma': text, 'uscored': s, 'Q': q, 'count': count})
    out = {'bounded': [{'what': 'assumed rsplit/count/join lemmas of _split_uscored_by_type evaluated natively',
                        'bound': 'all strings over {a,b,_} up to length %d, all prefixes Q, count <= len+2' % maxlen,
                        'instances': n, 'failed': len(bad)}],
           'detail': {'c04_lemma_instances': n}}
    if bad:
        out['violations'] = []
        out['undecided'] = ['assumed lemma refuted natively (the contract of _split_uscored_by_type rests on a false '
                            'assumption): %r' % (bad[0],)]
    return out
