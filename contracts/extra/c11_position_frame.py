"""C11 - frame obligation for the whole scanner package: a message.Position is never written after its construction.

Every diagnostic names the source position through a Position object that was built when the line / node was seen and is
stored (in GtkDocAnnotations, GtkDocParameter, GtkDocTag, ast nodes) until the diagnostic is emitted - possibly much later
(GtkDocCommentBlock.validate runs after the whole block was read).  "Diagnostics point at the source" therefore needs the
frame condition `no function other than Position.__init__ has a Position field in its write set`.

The obligation is decided for ALL functions of giscanner/*.py at once by a census of the real source, re-read on every run:
Position declares __slots__ (no instance dictionary), so its fields can only be written by an attribute store / delete,
setattr / object.__setattr__ / delattr.  The census lists every such store whose attribute is one of Position's slots and
fails unless it is `self.<slot> = ...` inside a class other than Position (whose `self` is not a Position) - that is the one
refinement, purely syntactic.  Dynamic setattr calls are listed as assumptions (today: two in scannermain.py on optparse values).
If the obligation fails, a native run looks for a diagnostic that names the wrong line (replayed input); if none is found the
violation is still reported, with no-failing-input-found."""
import ast as pyast
import glob
import io
import json
import os
from givc.extra import hook

SLOTS = ('filename', 'line', 'column', 'is_typedef')


def census(root):
    stores, dynamic, nfun = [], [], 0
    for path in sorted(glob.glob(os.path.join(root, 'giscanner', '*.py'))):
        tree = pyast.parse(open(path, encoding='utf-8').read())
        rel = os.path.relpath(path, root)

        def visit(node, cls, fn):
            nonlocal nfun
            for ch in pyast.iter_child_nodes(node):
                c2, f2 = cls, fn
                if isinstance(ch, pyast.ClassDef):
                    c2 = ch.name
                elif isinstance(ch, (pyast.FunctionDef, pyast.AsyncFunctionDef, pyast.Lambda)):
                    f2 = getattr(ch, 'name', '<lambda>')
                    nfun += 1
                if isinstance(ch, pyast.Attribute) and isinstance(ch.ctx, (pyast.Store, pyast.Del)) and ch.attr in SLOTS:
                    base_self = isinstance(ch.value, pyast.Name) and ch.value.id == 'self'
                    in_position = rel.endswith('message.py') and cls == 'Position'
                    if in_position and fn == '__init__' and base_self:
                        pass
                    elif base_self and cls is not None and not in_position:
                        pass     # a field of another class that happens to have the same name
                    else:
                        stores.append('%s:%d %s.%s writes .%s' % (rel, ch.lineno, cls or '<module>', fn or '<module>', ch.attr))
                if isinstance(ch, pyast.Call):
                    f = ch.func
                    name = f.id if isinstance(f, pyast.Name) else (f.attr if isinstance(f, pyast.Attribute) else None)
                    if name in ('setattr', '__setattr__', 'delattr', '__delattr__'):
                        arg = ch.args[1] if len(ch.args) > 1 else None
                        if isinstance(arg, pyast.Constant) and arg.value not in SLOTS:
                            pass
                        elif isinstance(arg, pyast.Constant):
                            stores.append('%s:%d %s(..., %r, ...)' % (rel, ch.lineno, name, arg.value))
                        else:
                            dynamic.append('%s:%d %s with a computed attribute name' % (rel, ch.lineno, name))
                visit(ch, c2, f2)
        visit(tree, None, None)
    return stores, dynamic, nfun


def native_witness():
    """a block whose first parameter carries a well-formed but invalid annotation: the diagnostic must name line 2"""
    from giscanner import annotationparser as AP, message
    out = io.StringIO()
    message.MessageLogger._instance = None
    logger = message.MessageLogger.get(namespace=None, output=out)
    logger.enable_warnings((message.WARNING, message.ERROR, message.FATAL))
    text = '/**\n * foo_bar:\n * @p: (nullable 1): a parameter\n * @q: another\n *\n * Description.\n *\n * Returns: nothing\n */'
    try:
        AP.GtkDocCommentBlockParser().parse_comment_block(text, 'w.c', 10)
    except Exception as e:      # noqa
        return {'comment': text, 'raised': repr(e)}
    lines = [l for l in out.getvalue().splitlines() if l.startswith('w.c:')]
    if lines and not lines[0].startswith('w.c:12:'):
        return {'comment': text, 'lineno': 10, 'diagnostic': lines[0], 'expected_prefix': 'w.c:12:'}
    return None


@hook('C11')
def position_frame(tier, seed):
    import giscanner
    root = os.path.dirname(os.path.dirname(os.path.abspath(giscanner.__file__)))
    stores, dynamic, nfun = census(root)
    out = {'obligations': 1, 'discharged': 0 if stores else 1,
           'detail': {'position_frame': {'functions_scanned': nfun, 'stores_to_position_slots': stores, 'dynamic_setattr': dynamic,
                                         'method': 'syntactic write-set census of giscanner/*.py (frame obligation '
                                                   'C11.position.never_written_after_construction)'}},
           'assumptions': ['C11.position frame: setattr with a computed name does not target a Position: ' + d for d in dynamic] +
                          ['C11.position frame: Position keeps __slots__ (checked) and no C extension writes its fields']}
    from giscanner import message
    if not hasattr(message.Position, '__slots__'):
        stores.append('message.Position no longer declares __slots__: writes through __dict__ are not excluded')
        out['discharged'] = 0
    if stores:
        here = os.path.dirname(os.path.dirname(os.path.dirname(os.path.abspath(__file__))))
        os.makedirs(os.path.join(here, 'replay', 'C11'), exist_ok=True)
        path = os.path.join('replay', 'C11', 'position_frame.json')
        wit = None
        try:
            wit = native_witness()
        except Exception as e:      # noqa
            wit = None
        json.dump({'property': 'C11', 'obligation': 'C11.position.never_written_after_construction',
                   'verifier_output': stores, 'input': wit,
                   'note': 'frame obligation over all functions of giscanner/*.py; input (if any): '
                           'GtkDocCommentBlockParser().parse_comment_block(comment, "w.c", lineno) with warnings enabled'},
                  open(os.path.join(here, path), 'w'), indent=1)
        out['violations'] = [{'text': 'failed obligation C11.position.never_written_after_construction (frame, all functions): '
                                      + '; '.join(stores)[:300], 'replay': path, 'confirmed': wit is not None}]
    return out
