"""C11 - BOUNDED stand-in for the line bookkeeping at the head of GtkDocCommentBlockParser.parse_comment_block.

parse_comment_block (500 lines, 15 regular expressions) is not within reach of the verifier.  The one expression on which
every reported line number rests - how the comment text is cut into lines - is extracted mechanically from the real source on
every run (the right-hand side of the assignment to `comment_lines`), evaluated by CPython, and compared with an independent
statement of the rule: a line ends at LF, CR LF or a lone CR and nowhere else (vertical tab, form feed, the C1/Unicode line
and paragraph separators do not end a line, because the C lexer that supplies `lineno` does not count them), there is one more
line than there are line ends, and no character other than the line ends is lost.

Bound: every string over the alphabet below up to the stated length (quick: 5, thorough: 6).  Never counted as proved.
"""
import ast as pyast
import inspect
import itertools
import re
from givc.extra import hook

ALPHABET = ['a', '*', ' ', '\n', '\r', '\x0b', '\x0c', '\x1c', '\x85', ' ']


def reference_lines(text):
    out, cur, i = [], [], 0
    while i < len(text):
        ch = text[i]
        if ch == '\r' and i + 1 < len(text) and text[i + 1] == '\n':
            out.append(''.join(cur)); cur = []; i += 2
        elif ch in '\r\n':
            out.append(''.join(cur)); cur = []; i += 1
        else:
            cur.append(ch); i += 1
    out.append(''.join(cur))
    return out


def extract():
    from giscanner import annotationparser as AP
    src = inspect.getsource(AP.GtkDocCommentBlockParser.parse_comment_block)
    import textwrap
    fn = pyast.parse(textwrap.dedent(src)).body[0]
    for node in pyast.walk(fn):
        if isinstance(node, pyast.Assign) and len(node.targets) == 1 and isinstance(node.targets[0], pyast.Name) \
                and node.targets[0].id == 'comment_lines':
            code = compile(pyast.Expression(node.value), '<comment_lines>', 'eval')
            return code, pyast.unparse(node.value), vars(AP)
    raise ValueError('assignment to comment_lines not found in parse_comment_block')


@hook('C11')
def line_splitting(tier, seed):
    code, text, ns = extract()
    maxlen = 5 if tier == 'quick' else 6
    n = 0
    bad = None
    for ln in range(0, maxlen + 1):
        for tup in itertools.product(ALPHABET, repeat=ln):
            s = ''.join(tup)
            n += 1
            try:
                got = eval(code, dict(ns, comment=s))
            except Exception as e:
                got = 'raised %s' % type(e).__name__
            if got != reference_lines(s):
                bad = {'comment': s, 'got': got, 'expected': reference_lines(s)}
                break
        if bad:
            break
    out = {'bounded': [{'what': 'line splitting of parse_comment_block: `comment_lines = %s` (extracted from the real source) '
                                'against the rule "lines end at LF, CR LF or CR only"' % text,
                        'bound': 'all strings over %r up to length %d' % (''.join(ALPHABET), maxlen), 'instances': n,
                        'failed': 0 if bad is None else 1}],
           'obligations': 0, 'discharged': 0}
    if bad:
        import json, os
        root = os.path.dirname(os.path.dirname(os.path.dirname(os.path.abspath(__file__))))
        os.makedirs(os.path.join(root, 'replay', 'C11'), exist_ok=True)
        path = os.path.join('replay', 'C11', 'line_splitting.json')
        json.dump({'property': 'C11', 'obligation': 'C11.lines.split_at_line_ends_only (bounded)', 'expression': text, 'input': bad,
                   'note': 'evaluate the expression with comment=<input.comment> on the real module'}, open(os.path.join(root, path), 'w'))
        out['violations'] = [{'text': 'failed obligation C11.lines.split_at_line_ends_only (bounded stand-in): comment %r is cut '
                                      'into %r, expected %r' % (bad['comment'], bad['got'], bad['expected']),
                              'replay': path, 'confirmed': True}]
    return out
