"""C10 - BOUNDED stand-in for the line state machine GtkDocCommentBlockParser.parse_comment_block (outside the verifier's reach:
500 lines driven by 15 regular expressions).

Two statements of the property are checked on the real parser and the real comment writer for every block of a small,
exhaustively enumerated family:
  * layout independence: the same content laid out with all annotations on the line of its parameter / tag, or continued on
    the following line(s), or with extra indentation in front of the asterisks, or with CR LF line ends, parses to the same block;
  * write/parse fixed point: writing the parsed block with GtkDocCommentBlockWriter and parsing that again gives the same block.
Bound: the family below (identifier annotations x parameter annotations x Returns annotations x other tags x 4 layouts).
Never counted as proved."""
import itertools
from givc.extra import hook

PARAM_ANNS = [[], ['(out)'], ['(transfer full)', '(nullable)'], ['(array length=n)', '(element-type utf8)']]
RET_ANNS = [[], ['(transfer full)'], ['(transfer full)', '(nullable)'], ['(array zero-terminated=1)', '(transfer none)']]
IDENT_ANNS = [[], ['(skip)'], ['(rename-to foo_bar)', '(method)']]
TAGS = [[], ['Since: 1.2'], ['Deprecated: 1.4: Use bar() instead.', 'Stability: Stable']]


def render(ident, pann, rann, tags, layout):
    """layout: 'inline' | 'continued' | 'indented' | 'crlf' | 'tabs' (annotation groups separated by a TAB)"""
    pre = '    ' if layout == 'indented' else ''
    lines = ['/**']

    def item(head, anns, desc):
        if not anns:
            return [' * %s: %s' % (head, desc)] if desc else [' * %s:' % head]
        if layout == 'continued' and len(anns) >= 1:
            out = [' * %s: %s' % (head, anns[0])]
            for a in anns[1:]:
                out.append(' *   %s' % a)
            out[-1] = out[-1] + (': %s' % desc if desc else ':')
            return out
        return [' * %s: %s: %s' % (head, ('\t' if layout == 'tabs' else ' ').join(anns), desc)]
    lines += item('foo_bar', ident, '')
    lines += item('@p', pann, 'the parameter')
    lines += item('@n', [], 'a length')
    lines.append(' *')
    lines.append(' * Description of foo_bar.')
    lines.append(' *')
    lines += item('Returns', rann, 'something')
    for t in tags:
        lines.append(' * ' + t)
    lines.append(' */')
    text = ('\r\n' if layout == 'crlf' else '\n').join(pre + l for l in lines)
    return text


def snapshot(block):
    if block is None:
        return None

    def anns(a):
        return [(k, (list(v.items()) if hasattr(v, 'items') else list(v) if v is not None else None)) for k, v in a.items()]
    return (block.name, anns(block.annotations), block.description,
            [(n, anns(p.annotations), p.description) for n, p in block.params.items()],
            [(n, anns(t.annotations), t.value, t.description) for n, t in block.tags.items()])


def ann_names(anns):
    return [a[1:-1].split(' ')[0].split('=')[0] for a in anns]


def expected(ident, pann, rann, tags):
    """what the grammar says the block contains: names of annotations in order, descriptions, tag names"""
    return ('foo_bar', ann_names(ident), 'Description of foo_bar.',
            [('p', ann_names(pann), 'the parameter'), ('n', [], 'a length')],
            [('returns', ann_names(rann), 'something')] + [(t.split(':')[0].lower(), [], None) for t in tags])


def summary(block):
    return (block.name, list(block.annotations.keys()), block.description,
            [(n, list(p.annotations.keys()), p.description) for n, p in block.params.items()],
            [(n, list(t.annotations.keys()), t.description if n == 'returns' else None) for n, t in block.tags.items()])


def written(writer, block):
    """the writer ends its text with a line terminator for printing; a comment as the scanner hands it to the parser ends at '*/'"""
    text = writer.write(block)
    return text[:-1] if text.endswith('\n') else text


@hook('C10')
def layouts_and_round_trip(tier, seed):
    from giscanner import annotationparser as AP, message
    import io
    message.MessageLogger._instance = None
    message.MessageLogger.get(namespace=None, output=io.StringIO())
    parser = AP.GtkDocCommentBlockParser()
    writer = AP.GtkDocCommentBlockWriter(indent=False)
    n = 0
    bad = None
    for ident, pann, rann, tags in itertools.product(IDENT_ANNS, PARAM_ANNS, RET_ANNS, TAGS):
        ref = None
        for layout in ('inline', 'continued', 'indented', 'crlf', 'tabs'):
            text = render(ident, pann, rann, tags, layout)
            n += 1
            try:
                block = parser.parse_comment_block(text, 'test.c', 1)
                snap = snapshot(block)
            except Exception as e:
                snap = 'raised %s: %s' % (type(e).__name__, e)
            if ref is None:
                ref = snap
                want = expected(ident, pann, rann, tags)
                got = summary(block) if not isinstance(snap, str) and block is not None else snap
                if got != want and bad is None:
                    bad = {'kind': 'content', 'comment': text, 'got': repr(got)[:600], 'expected': repr(want)[:600]}
            elif snap != ref and bad is None:
                bad = {'kind': 'layout', 'layout': layout, 'comment': text, 'got': repr(snap)[:600], 'inline_layout_gives': repr(ref)[:600]}
            if layout == 'inline' and bad is None and not isinstance(snap, str) and block is not None:
                try:
                    again = snapshot(parser.parse_comment_block(written(writer, block), 'test.c', 1))
                except Exception as e:
                    again = 'raised %s: %s' % (type(e).__name__, e)
                if again != snap:
                    bad = {'kind': 'write/parse', 'comment': text, 'got': repr(again)[:600], 'expected': repr(snap)[:600]}
        if bad:
            break
    out = {'bounded': [{'what': 'parse_comment_block + GtkDocCommentBlockWriter: layout independence (inline / continued / indented / '
                                'CR LF / TAB-separated groups) and write/parse fixed point, on the real parser and writer',
                        'bound': '%d contents x 5 layouts (exhaustive over the family in contracts/extra/c10_layouts.py)'
                                 % (len(IDENT_ANNS) * len(PARAM_ANNS) * len(RET_ANNS) * len(TAGS)),
                        'instances': n, 'failed': 0 if bad is None else 1}]}
    if bad:
        import json, os
        root = os.path.dirname(os.path.dirname(os.path.dirname(os.path.abspath(__file__))))
        os.makedirs(os.path.join(root, 'replay', 'C10'), exist_ok=True)
        path = os.path.join('replay', 'C10', 'layouts.json')
        json.dump({'property': 'C10', 'obligation': 'C10.block.layout_independent_and_write_parse_fixed_point (bounded)', 'input': bad,
                   'note': 'GtkDocCommentBlockParser().parse_comment_block(<comment>, "test.c", 1)'}, open(os.path.join(root, path), 'w'))
        out['violations'] = [{'text': 'failed obligation C10.block.layout_independent_and_write_parse_fixed_point (bounded stand-in): '
                                      '%s differs for the %s' % (bad['kind'], 'layout ' + bad.get('layout', '') if bad['kind'] == 'layout' else 'inline block'),
                              'replay': path, 'confirmed': True}]
    return out
