"""C19 - the library pattern of shlibs._ldd_library_pattern, decided as a regular-language lemma.

The pattern template is extracted from the real source on every run (the string constant that is the
left operand of `%` inside _ldd_library_pattern), parsed with Python's own sre parser under re.VERBOSE
and translated mechanically (givc/regex.py) into an SMT regular expression in which the escaped
library name is a *symbolic* literal.  Obligations are universally quantified over name and word.
Assumed: re.escape(name) matches exactly the literal name; Python's `re` implements regular-language
semantics for this pattern; words contain no whitespace (they come from str.split()).
"""
import ast as pyast
import inspect
import os
import re
import subprocess
import tempfile
import time
import z3
from givc.extra import hook
from givc.regex import pattern_to_z3, pattern_components

ROOT = os.path.dirname(os.path.dirname(os.path.dirname(os.path.abspath(__file__))))
NAMECHARS = z3.Union(z3.Range('a', 'z'), z3.Range('A', 'Z'), z3.Range('0', '9'), z3.Re('_'), z3.Re('-'))


def extract_template():
    from giscanner import shlibs
    tree = pyast.parse(inspect.getsource(shlibs))
    fn = [n for n in tree.body if isinstance(n, pyast.FunctionDef) and n.name == '_ldd_library_pattern'][0]
    tmpl = flags = None
    for n in pyast.walk(fn):
        if isinstance(n, pyast.Call) and isinstance(n.func, pyast.Attribute) and n.func.attr == 'compile':
            arg = n.args[0]
            if isinstance(arg, pyast.BinOp) and isinstance(arg.op, pyast.Mod) and isinstance(arg.left, pyast.Constant) \
                    and isinstance(arg.right, pyast.Call) and getattr(arg.right.func, 'attr', '') == 'escape':
                tmpl = arg.left.value
                flags = 0
                for f in n.args[1:]:
                    flags |= getattr(re, f.attr)
    if tmpl is None or tmpl.count('%s') != 1:
        raise ValueError('pattern construction in _ldd_library_pattern not of the shape re.compile(<str> % re.escape(name), flags)')
    return tmpl, flags


def decide(formula, timeout_ms=20000):
    t0 = time.time()
    s = z3.Solver()
    s.set('timeout', timeout_ms)
    s.add(formula)
    r = s.check()
    if r == z3.unknown:
        smt2 = s.to_smt2().replace('(set-info :status unknown)', '(set-logic ALL)')
        with tempfile.NamedTemporaryFile('w', suffix='.smt2', delete=False) as f:
            f.write(smt2)
        try:
            p = subprocess.run(['/usr/bin/cvc5', '--strings-exp', '--tlimit=60000', f.name], capture_output=True, text=True, timeout=70)
            first = (p.stdout.strip().splitlines() or [''])[0]
            if first in ('sat', 'unsat'):
                return first, 'cvc5', time.time() - t0, None
        except Exception:
            pass
        finally:
            os.unlink(f.name)
        return 'unknown', 'z3-api', time.time() - t0, None
    return str(r), 'z3-api', time.time() - t0, (s.model() if r == z3.sat else None)


def spec_matches(name, word):
    """the statement: the base name of the word is lib<name> followed by a character other than a letter, digit, underscore
    or hyphen"""
    base = word.rsplit('/', 1)[-1]
    stem = 'lib' + name
    return base.startswith(stem) and len(base) > len(stem) and not re.match(r'[A-Za-z0-9_-]', base[len(stem)])


def bounded_fallback(tmpl, flags, tier, out, why):
    """the pattern uses a construct outside the translated subset of regular expressions (e.g. a zero-width assertion):
    BOUNDED stand-in - the real compiled pattern against the statement on all short words; never counted as proved"""
    import itertools
    alphabet = ['a', 'b', '-', '.', '/', 'l', 'i', '+', '_', '1']
    names = ['a', 'ab', 'b', 'a-b', 'a+b']
    maxlen = 7 if tier == 'quick' else 8
    n = 0
    bad = None
    for nm in names:
        rx = re.compile(tmpl % re.escape(nm), flags)
        for ln in range(0, maxlen + 1):
            for tup in itertools.product(alphabet, repeat=ln):
                w = ''.join(tup)
                # candidates worth looking at contain the stem (everything else is rejected by both sides or found quickly)
                n += 1
                got = rx.match(w) is not None
                if got != spec_matches(nm, w):
                    bad = {'name': nm, 'word': w, 'pattern_matches': got, 'statement': spec_matches(nm, w)}
                    break
            if bad:
                break
        if bad:
            break
    out['bounded'] = [{'what': 'library pattern (not translatable: %s) against the statement, natively' % why,
                       'bound': 'names %r, all words over %r up to length %d' % (names, ''.join(alphabet), maxlen),
                       'instances': n, 'failed': 0 if bad is None else 1}]
    if bad:
        import json
        rp = os.path.join(ROOT, 'replay', 'C19')
        os.makedirs(rp, exist_ok=True)
        path = os.path.join(rp, 'pattern_bounded.json')
        json.dump({'property': 'C19', 'obligation': 'C19.pattern.equals_the_statement (bounded)', 'input': bad,
                   'note': 're.compile(<template> % re.escape(name), flags).match(word) on the real module'}, open(path, 'w'))
        out['violations'].append({'text': 'failed obligation C19.pattern.equals_the_statement (bounded stand-in): name %r, word %r: '
                                          'pattern %s, statement %s' % (bad['name'], bad['word'], bad['pattern_matches'], bad['statement']),
                                  'replay': os.path.relpath(path, ROOT), 'confirmed': True})
    else:
        out.setdefault('undecided', []).append('library pattern uses a construct outside the translated regex subset (%s); the '
                                               'bounded comparison found no difference' % why)
    return out


@hook('C19')
def library_pattern(tier, seed):
    out = {'obligations': 0, 'discharged': 0, 'violations': [], 'samples': [], 'detail': {}, 'trusted': [
        're.escape(name) matches exactly the literal name', "python `re` = regular-language semantics for the pattern",
        'givc/regex.py (sre parse tree -> SMT regex translation)']}
    tmpl, flags = extract_template()
    name, word, d, base = z3.Strings('name word dir base')
    try:
        rx = pattern_to_z3(tmpl % 'ZZNAMEZZ', flags, {'ZZNAMEZZ': name})
    except (ValueError, KeyError, NotImplementedError) as e:
        return bounded_fallback(tmpl, flags, tier, out, str(e))
    m = z3.InRe(word, rx)
    ws = z3.Union(*[z3.Re(c) for c in ' \t\n\r\f\v'])
    nows = lambda s: z3.Not(z3.InRe(s, z3.Concat(z3.Full(z3.ReSort(z3.StringSort())), ws, z3.Full(z3.ReSort(z3.StringSort())))))
    noslash = lambda s: z3.Not(z3.Contains(s, z3.StringVal('/')))
    pre = z3.And(nows(word), noslash(name), word == z3.Concat(d, base), noslash(base),
                 z3.Or(d == z3.StringVal(''), z3.SuffixOf(z3.StringVal('/'), d)))
    stem = z3.Concat(z3.StringVal('lib'), name)
    nxt = z3.SubString(base, z3.Length(stem), 1)
    spec = z3.And(z3.PrefixOf(stem, base), z3.Length(base) > z3.Length(stem), z3.Not(z3.InRe(nxt, NAMECHARS)))
    # The statement's "base name is lib<name> followed by a character other than a letter, digit, underscore or
    # hyphen" is used in its decomposition form
    #     word = prefix + 'lib' + name + c + rest,  prefix == '' or prefix ends in '/',  c one character outside
    #     [A-Za-z0-9_-] and != '/',  '/' not in rest
    # (equivalence of the two phrasings for names without '/' is a string lemma independent of the code: assumed).
    # Membership in a concatenation is unfolded mechanically (exact): word in L1...Ln <=> exists wi. word = w1..wn, wi in Li.
    # So the pattern equals the spec iff it has the five components below, each equal to the spec's component.
    comps = pattern_components(tmpl % 'ZZNAMEZZ', flags, {'ZZNAMEZZ': name})
    w = z3.String('w')
    full = z3.Full(z3.ReSort(z3.StringSort()))
    RS = z3.ReSort(z3.StringSort())
    anych = z3.AllChar(RS)
    notslash = z3.Intersect(anych, z3.Complement(z3.Re('/')))
    nows_re = z3.Star(z3.Intersect(anych, z3.Complement(ws)))
    w_nows = z3.InRe(w, nows_re)
    # the statement's components, written as regular expressions / equalities
    spec_components = [
        ('prefix', lambda x: z3.InRe(x, z3.Union(z3.Re(''), z3.Concat(full, z3.Re('/'))))),
        ('lib', lambda x: x == z3.StringVal('lib')),
        ('name', lambda x: x == name),
        ('separator', lambda x: z3.InRe(x, z3.Intersect(anych, z3.Complement(z3.Union(NAMECHARS, z3.Re('/')))))),
        ('rest', lambda x: z3.InRe(x, z3.Star(notslash))),
    ]
    obligations = []
    if len(comps) == len(spec_components):
        for (label, sp), L in zip(spec_components, comps):
            obligations.append(('C19.pattern.%s.sound' % label, 'pattern component %s accepts only what the statement allows' % label,
                                z3.And(w_nows, z3.InRe(w, L), z3.Not(sp(w)))))
            obligations.append(('C19.pattern.%s.complete' % label, 'pattern component %s accepts everything the statement allows' % label,
                                z3.And(w_nows, sp(w), z3.Not(z3.InRe(w, L)))))
    else:
        # different shape: search for a counterexample to the whole equivalence (a refutation is replayed; `unknown` = undecided)
        pfx, c1, rst = z3.Strings('pfx c1 rst')
        dec = z3.And(word == z3.Concat(pfx, z3.StringVal('lib'), name, c1, rst), spec_components[0][1](pfx),
                     spec_components[3][1](c1), noslash(rst))
        obligations.append(('C19.pattern.sound', 'match(word) => word decomposes as the statement says',
                            z3.And(nows(word), noslash(name), m, z3.ForAll([pfx, c1, rst], z3.Not(dec)))))
        obligations.append(('C19.pattern.complete', 'word decomposes as the statement says => match(word)',
                            z3.And(nows(word), noslash(name), dec, z3.Not(m))))
    # corollaries of the statement (concrete names)
    def concrete(nm, w, expect):
        rxc = pattern_to_z3(tmpl % re.escape(nm), flags)
        return z3.InRe(z3.StringVal(w), rxc) != z3.BoolVal(expect)
    for nm, w, expect in (('pango', 'libpangoft2-1.0.so.0', False), ('pango', '/usr/lib/libpango-1.0/x', False),
                          ('foo', 'liblibfoo.so', False), ('foo', 'libfoo-bar.so', False), ('foo', '/a/libfoo.so.1', True),
                          ('a+b', 'liba+b.so', True), ('a.b', 'libaxb.so', False), ('x(', 'libx(.dylib', True)):
        obligations.append(('C19.pattern.example[%s~%s]' % (nm, w), 'lib name %r vs word %r -> %s' % (nm, w, expect),
                            concrete(nm, w, expect)))
    for oname, text, f in obligations:
        status, backend, secs, model = decide(f)
        out['obligations'] += 1
        if status == 'unsat':
            out['discharged'] += 1
        elif status == 'sat':
            rp = os.path.join(ROOT, 'replay', 'C19')
            os.makedirs(rp, exist_ok=True)
            path = os.path.join(rp, oname.replace('/', '_') + '.json')
            rec = {'obligation': oname, 'clause': text}
            confirmed = False
            if model is not None:
                from giscanner import shlibs
                import json
                try:
                    nm = model.eval(name, model_completion=True).as_string() or 'x'
                    if '.component' in oname or oname.count('.') == 3:
                        # component lemma: embed the witness component into a full word
                        wv = model.eval(z3.String('w'), model_completion=True).as_string()
                        label = oname.split('.')[2]
                        wd_ = {'prefix': wv + 'lib' + nm + '.so', 'lib': wv + nm + '.so', 'name': 'lib' + nm + '.so',
                               'separator': 'lib' + nm + wv + 'so', 'rest': 'lib' + nm + '.' + wv}[label]
                    else:
                        wd_ = model.eval(word, model_completion=True).as_string()
                    w = wd_
                    got = bool(shlibs._ldd_library_pattern(nm).match(w))
                    b = w.rsplit('/', 1)[-1]
                    want = b.startswith('lib' + nm) and len(b) > len('lib' + nm) and not re.match('[A-Za-z0-9_-]', b[len('lib' + nm)])
                    rec.update({'name': nm, 'word': w, 'real_match': got, 'spec': want})
                    confirmed = (got != want)
                except Exception as e:   # noqa
                    rec['replay_error'] = str(e)
                json.dump(rec, open(path, 'w'), indent=1)
            out['violations'].append({'text': 'failed obligation %s: %s' % (oname, text), 'replay': os.path.relpath(path, ROOT),
                                      'confirmed': confirmed})
        else:
            out.setdefault('undecided', []).append('%s: solvers returned unknown' % oname)
        if len(out['samples']) < 3:
            out['samples'].append({'obligation': oname, 'clause': text, 'status': status, 'backend': backend, 'seconds': round(secs, 3)})
    out['detail']['pattern template (extracted from source)'] = tmpl
    return out
