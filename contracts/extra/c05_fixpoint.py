"""C05 - global closure clause `validate.closed`.

Local closure + monotonicity (proved per function in contracts/py/c05_introspectable.py) imply global
closure only if the callable analysis is iterated to a fixpoint.  The VC generator cannot decide that
for `validate` (an unbounded walk in arbitrary order), so this clause is handled as follows: the
history that refutes it on the pinned tree (a dependency chain of callbacks A->B->C->D, D not
bindable, appended in the order A,B,C,D) is rebuilt with the real classes and run through the real
IntrospectablePass.validate(); if closure fails natively the result is reported as the recorded
finding (or as a violation if it is not recorded).  Nothing is claimed as proved by this hook.
"""
import io
import json
import os
from givc.extra import hook

ROOT = os.path.dirname(os.path.dirname(os.path.dirname(os.path.abspath(__file__))))


def build_chain(order, depth=4):
    from giscanner import ast, message
    from giscanner.transformer import Transformer
    message.MessageLogger._instance = None
    message.MessageLogger.get(namespace=None, output=io.StringIO())
    ns = ast.Namespace('T', '1.0')
    tr = Transformer(ns)
    tr.disable_cache()
    names = [chr(ord('A') + i) for i in range(depth)]
    cbs = {}
    for i, n in enumerate(names):
        if i == depth - 1:
            params = [ast.Parameter('args', ast.Varargs())]
        else:
            params = [ast.Parameter('cb', ast.Type(target_giname='T.' + names[i + 1], ctype=names[i + 1]),
                                    transfer='none', scope='call')]
        ret = ast.Return(ast.TYPE_NONE.clone(), transfer='none')
        cbs[n] = ast.Callback(n, ret, params, False, ctype='T' + n)
    for n in order:
        ns.append(cbs[n])
    return tr, ns, cbs, names


def closed(tr, ns):
    """global closure: an introspectable, non-skipped callable only uses introspectable definitions"""
    from giscanner import ast
    bad = []
    for node in ns.values():
        if isinstance(node, ast.Callable) and node.introspectable and not node.skip:
            for p in node.parameters:
                if p.type.target_giname:
                    tgt = tr.lookup_typenode(p.type)
                    if tgt is None or not tgt.introspectable or tgt.skip:
                        bad.append((node.name, p.type.target_giname))
                if isinstance(p.type, ast.Varargs):
                    bad.append((node.name, '<varargs>'))
    return bad


@hook('C05')
def fixpoint(tier, seed):
    from giscanner.introspectablepass import IntrospectablePass
    out = {'obligations': 0, 'discharged': 0, 'violations': [], 'known': [], 'samples': [], 'detail': {}}
    results = {}
    for label, order, depth in (('chain of 4, forward A,B,C,D', 'ABCD', 4), ('chain of 4, reverse D,C,B,A', 'DCBA', 4),
                                ('chain of 3, forward A,B,C', 'ABC', 3), ('chain of 2, forward A,B', 'AB', 2)):
        tr, ns, cbs, names = build_chain(order, depth)
        IntrospectablePass(tr, {}).validate()
        results[label] = closed(tr, ns)
    out['detail']['validate.closed native histories'] = {k: v for k, v in results.items()}
    out['samples'].append({'history': 'callbacks A->B->C->D(varargs) appended A,B,C,D; real IntrospectablePass.validate()',
                           'open references after validate': results['chain of 4, forward A,B,C,D']})
    rp = os.path.join(ROOT, 'replay', 'C05')
    known = [l for l in open(os.path.join(ROOT, 'known_findings.txt')) if l.startswith('property=C05') and 'C05.validate.closed' in l]
    # the recorded finding is exactly: chain of 4 in forward order leaves the single open reference A -> B.
    expected_known = {'chain of 4, forward A,B,C,D': [('A', 'T.B')]}
    for label, opens in results.items():
        if not opens:
            continue
        os.makedirs(rp, exist_ok=True)
        path = os.path.join(rp, 'validate.closed.%s.json' % label.split(',')[0].replace(' ', '_'))
        json.dump({'property': 'C05', 'obligation': 'C05.validate.closed', 'history': label,
                   'open_references': opens, 'note': 'reproduce with contracts/extra/c05_fixpoint.py'}, open(path, 'w'), indent=1)
        if known and expected_known.get(label) == [tuple(o) for o in opens]:
            out['known'].append('callable introspectability is not iterated to a fixpoint: a user preceding a dependency chain '
                                'of length >= 3 stays introspectable [IntrospectablePass.validate C05.validate.closed, %s]' % label)
        else:
            out['violations'].append({'text': 'failed obligation C05.validate.closed on history "%s": open references %r' % (label, opens),
                                      'replay': os.path.relpath(path, ROOT), 'confirmed': True})
    return out
