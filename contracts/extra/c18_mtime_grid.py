"""C18 - native companion of the obligation C18.valid.never_older_than_source (proved in the model where a time stamp is an exact
value): the real CacheStore._cache_is_valid is run on real files whose modification times are set with nanosecond resolution,
for every pair of a small grid of times (same second, neighbouring seconds, equal times).  Its only purpose is to attach a
failing input to a violation of that obligation (the counter-model of the verifier has no files behind it).  BOUNDED, never
counted as proved."""
import json
import os
import shutil
import tempfile
from givc.extra import hook

GRID_NS = [1700000000 * 10 ** 9 + d for d in (0, 1, 300000000, 700000000, 999999999, 10 ** 9, 10 ** 9 + 300000000, 2 * 10 ** 9)]


@hook('C18')
def mtime_grid(tier, seed):
    from giscanner import cachestore
    d = tempfile.mkdtemp(prefix='givc-c18-')
    bad = None
    n = 0
    try:
        entry, source = os.path.join(d, 'entry'), os.path.join(d, 'source.gir')
        for p in (entry, source):
            open(p, 'w').close()
        store = object.__new__(cachestore.CacheStore)
        store._directory = d
        for te in GRID_NS:
            for ts in GRID_NS:
                os.utime(entry, ns=(te, te))
                os.utime(source, ns=(ts, ts))
                # compare what the file system really stored (some file systems round)
                e_ns, s_ns = os.stat(entry).st_mtime_ns, os.stat(source).st_mtime_ns
                n += 1
                got = store._cache_is_valid(entry, source)
                if got and e_ns < s_ns and bad is None:
                    bad = {'entry_mtime_ns': e_ns, 'source_mtime_ns': s_ns, '_cache_is_valid': bool(got)}
    finally:
        shutil.rmtree(d, ignore_errors=True)
    out = {'bounded': [{'what': 'CacheStore._cache_is_valid on real files: an entry older than its source is never reported valid',
                        'bound': '%d x %d modification times with nanosecond resolution' % (len(GRID_NS), len(GRID_NS)),
                        'instances': n, 'failed': 0 if bad is None else 1}]}
    if bad:
        here = os.path.dirname(os.path.dirname(os.path.dirname(os.path.abspath(__file__))))
        os.makedirs(os.path.join(here, 'replay', 'C18'), exist_ok=True)
        path = os.path.join('replay', 'C18', 'mtime_grid.json')
        json.dump({'property': 'C18', 'obligation': 'C18.valid.never_older_than_source (native companion, bounded)', 'input': bad,
                   'note': 'two files with these st_mtime_ns (os.utime(ns=...)); CacheStore._cache_is_valid(entry, source) must be False'},
                  open(os.path.join(here, path), 'w'), indent=1)
        out['violations'] = [{'text': 'failed obligation C18.valid.never_older_than_source, native input: entry %d ns older than its '
                                      'source is reported valid' % (bad['source_mtime_ns'] - bad['entry_mtime_ns']),
                              'replay': path, 'confirmed': True}]
    return out
