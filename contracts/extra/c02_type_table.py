"""C02 - the C-spelling -> canonical-type table (giscanner/ast.py: type_names) evaluated on the spellings the property names.

The contracts of _canonicalize_ctype / create_type_from_ctype_string are proved for *whatever* the table contains (the engine reads
the real dictionary).  That the table itself says what the property says - int is gint, char* is utf8, _Bool is gboolean, the
stdint / GLib aliases are their fixed-width types - is a finite set of facts about constants: they are evaluated here natively,
exhaustively over the list below (a complete check of these entries, no sampling)."""
from givc.extra import hook

EXPECTED = {
    'int': 'gint', 'signed int': 'gint', 'signed': 'gint', 'unsigned int': 'guint', 'unsigned': 'guint',
    'short': 'gshort', 'unsigned short': 'gushort', 'long': 'glong', 'unsigned long': 'gulong',
    'char': 'gchar', 'signed char': 'gint8', 'unsigned char': 'guint8', 'char*': 'utf8', 'void*': 'gpointer', 'void': 'none',
    'float': 'gfloat', 'double': 'gdouble',
    'int8_t': 'gint8', 'uint8_t': 'guint8', 'int16_t': 'gint16', 'uint16_t': 'guint16', 'int32_t': 'gint32', 'uint32_t': 'guint32',
    'int64_t': 'gint64', 'uint64_t': 'guint64',
    'gint8': 'gint8', 'guint8': 'guint8', 'gint16': 'gint16', 'guint16': 'guint16', 'gint32': 'gint32', 'guint32': 'guint32',
    'gint64': 'gint64', 'guint64': 'guint64', 'gboolean': 'gboolean', 'gchar*': 'utf8', 'gpointer': 'gpointer',
    'gsize': 'gsize', 'gssize': 'gssize', 'size_t': 'gsize', 'ssize_t': 'gssize',
}


@hook('C02')
def type_table(tier, seed):
    from giscanner import ast
    bad = []
    for spelling, fundamental in sorted(EXPECTED.items()):
        t = ast.type_names.get(spelling)
        got = t.target_fundamental if t is not None else None
        if got != fundamental:
            bad.append((spelling, fundamental, got))
    out = {'obligations': len(EXPECTED), 'discharged': len(EXPECTED) - len(bad),
           'detail': {'c02_type_table_entries_checked': len(EXPECTED)}}
    if bad:
        import json, os
        root = os.path.dirname(os.path.dirname(os.path.dirname(os.path.abspath(__file__))))
        os.makedirs(os.path.join(root, 'replay', 'C02'), exist_ok=True)
        path = os.path.join('replay', 'C02', 'type_table.json')
        json.dump({'property': 'C02', 'obligation': 'C02.table.spelling_maps_to_documented_type', 'wrong_entries': bad,
                   'note': 'giscanner.ast.type_names[<spelling>].target_fundamental'}, open(os.path.join(root, path), 'w'))
        out['violations'] = [{'text': 'failed obligation C02.table.spelling_maps_to_documented_type: %r is %r, documented %r'
                                      % (bad[0][0], bad[0][2], bad[0][1]), 'replay': path, 'confirmed': True}]
    return out
