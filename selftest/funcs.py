"""Small pure functions exercising the Python constructs the VC generator encodes.  The CPython cross-check
(givc/crosscheck.py) runs each on random concrete inputs natively and through the symbolic semantics and
requires equal results (value or exception class).  This validates the tool, not any property."""


class Box(object):
    def __init__(self, a=None, b=0):
        self.a = a
        self.b = b

    @property
    def double(self):
        return self.b * 2

    def __eq__(self, other):
        return self.b == other.b

    def __hash__(self):
        return hash(self.b)


class SubBox(Box):
    def __init__(self, a=None, b=0, c='x'):
        Box.__init__(self, a, b)
        self.c = c

    @property
    def double(self):
        return self.b * 3


def f_truthy(x):
    if x:
        return 1
    return 0


def f_and_or(a, b):
    return (a and b) or 'none'


def f_str_ops(s, t):
    out = []
    out.append(s.startswith(t))
    out.append(s.endswith(t))
    out.append(t in s)
    out.append(s.find(t))
    out.append(len(s))
    out.append(s[1:])
    out.append(s[:-1])
    out.append(s[-1:] == t[-1:])
    return tuple(out)


def f_index(s, i):
    try:
        return s[i]
    except IndexError:
        return 'IndexError'


def f_slice(s, a, b):
    return s[a:b]


def f_fmt(s, i):
    return '%s=%d;%s' % (s, i, i) + f'[{s}:{i}]' + '{0}-{1}'.format(s, i) + str(i) + str(s)


def f_int(s):
    try:
        return int(s)
    except ValueError:
        return -99999


def f_arith(a, b):
    return (a + b, a - b, a * 3, a % 7, a // 4, -a, a & 8, a & 15, 2 ** 5, abs_(a), a % 2 ** 8)


def abs_(a):
    return a if a >= 0 else -a


def f_cmp(a, b):
    return (a < b, a <= b, a == b, a != b, a > b, a >= b, 0 < a < 10, a is None, a is not None)


def f_in_tuple(s):
    return (s in ('a', 'bb', ''), s not in ['x', 'y'], s in {'k': 1, 'bb': 2})


def f_dict(k1, k2, v):
    d = {}
    d[k1] = v
    r1 = d.get(k2)
    r2 = d.get(k2, 'dflt')
    r3 = k2 in d
    r4 = len(d)
    d[k2] = 7
    try:
        r5 = d['zz']
    except KeyError:
        r5 = 'KeyError'
    return (r1, r2, r3, r4, len(d), r5, d.pop(k1, None))


def f_list(a, b):
    l = [a]
    l.append(b)
    l.insert(0, 'first')
    l.extend((a, b))
    n = 0
    for x in l:
        if x == a:
            n += 1
    return (len(l), l[0], l[-1], n, a in l)


def f_loop_break(a, b, c):
    res = None
    for i, x in enumerate((a, b, c)):
        if x < 0:
            continue
        if x > 100:
            res = ('big', i)
            break
    else:
        res = ('none', -1)
    return res


def f_try_finally(a):
    log = []
    try:
        try:
            if a < 0:
                raise ValueError('neg')
            log.append('ok')
        finally:
            log.append('fin')
    except ValueError:
        log.append('caught')
    return tuple(log)


def f_obj(a, b):
    x = Box(a, b)
    y = SubBox(a, b + 1, 'c')
    return (x.double, y.double, x == y, x != y, isinstance(y, Box), isinstance(x, SubBox), hasattr(x, 'c'), hasattr(y, 'c'),
            getattr(x, 'c', 'nope'), y.c, x.a is y.a)


def f_obj_in(a, b):
    x = Box(None, a)
    lst = (Box(None, 1), Box(None, b))
    return (x in lst, x == lst[1])


def f_setattr(a):
    x = Box()
    x.b = a
    x.newattr = a + 1
    return (x.b, x.newattr, hasattr(x, 'newattr'), x.double)


def f_ifexp(a, s):
    return ('big' if a > 3 else 'small') + (s or 'empty')


def f_unpack(a, b):
    (x, y), z = (a, b), a + b
    x, y = y, x
    return (x, y, z)


def f_none_attr(flag):
    x = Box(1, 2) if flag else None
    try:
        return x.b
    except AttributeError:
        return 'AttributeError'


def f_assert(a):
    try:
        assert a > 0, 'must be positive'
        return 'ok'
    except AssertionError:
        return 'AssertionError'


def f_str_methods(s):
    return (s.replace('a', ''), 'x'.join(('a', s, 'b')), s.count('a') > 0, '-' * 3 + s, s + s == s * 2 if False else True)


def f_nested(a, b):
    def helper(v, scale=2):
        return v * scale + b
    g = lambda v: helper(v, 3)
    return (helper(a), g(a))


def f_walrus(a):
    if (n := a + 1) > 3:
        return n
    return -n


def f_bool_int(a):
    return (bool(a), not a, not not a, bool('') , bool('x'), len('abc'), str(a), str(None), str(True))


def f_bits(a):
    m = 4 | 8
    return (a & 4, a & 12, a & 5, a & 255, (a & m) == 4, (a & m) == m, 1 << 3, 6 ^ 3)


def _tag(s):
    return '<' + s + '>'


def f_lazy_iterables(s, a):
    """`in map(...)`, list(map(...)) and getattr with a list default"""
    r = 0
    if s in map(_tag, ('a', 'b', 'ab')):
        r += 1
    names = list(map(_tag, ('x', 'y')))
    if ('<' + s + '>') in names:
        r += 2
    r += len(names)
    b = Box(a)
    r += 100 * len(getattr(b, 'no_such_attribute', []))
    r += 1000 * len(getattr(b, 'no_such_attribute', [1, 2]))
    return r
