#!/bin/sh
# tools_seed3.sh <WT> <NAME> [check-props...]: confirm an agent-made mutation in worktree <WT> and run the checks on a scratch copy with the patch
WT=$1; NAME=$2; shift; shift
echo "== demo on changed tree"; (cd $WT && timeout 600 /venv/bin/python MUTATION/demo.py >/tmp/demo_changed.log 2>&1; echo "exit=$?"; tail -2 /tmp/demo_changed.log | cut -c1-200)
echo "== demo on unchanged tree"; (cd $WT && git apply -R MUTATION/patch.diff && timeout 600 /venv/bin/python MUTATION/demo.py >/tmp/demo_orig.log 2>&1; echo "exit=$?"; tail -1 /tmp/demo_orig.log | cut -c1-200; git apply MUTATION/patch.diff)
echo "== tests on changed tree"; (cd $WT && /venv/bin/python -m pytest -q -p no:cacheprovider --timeout=900 --continue-on-collection-errors 2>&1 | tail -1)
D=$(mktemp -d /tmp/givc-seed.XXXXXX); cp -r /repo/giscanner /repo/girepository $D/; (cd $D && git apply $WT/MUTATION/patch.diff) || echo "PATCH FAILED"
for c in "$@"; do echo "== check $c"; GIVC_REPO=$D /verif/check $c | grep -E "^(VIOLATION|UNDECIDED|CHECKER|  failed|C[0-9]+:)" | cut -c1-260; done
rm -rf $D
mkdir -p /verif/seeded/$NAME; cp $WT/MUTATION/patch.diff $WT/MUTATION/demo.py $WT/MUTATION/notes.md /verif/seeded/$NAME/ 2>/dev/null
