#!/bin/sh
# tools_seed.sh <PROP> <NAME> [check-props...]: confirm an agent-made mutation in /tmp/wt-<PROP> and run the checks on it
P=$1; NAME=$2; shift; shift; WT=/tmp/wt-$P
echo "== demo on changed tree"; (cd $WT && timeout 300 /venv/bin/python MUTATION/demo.py >/tmp/demo_changed.log 2>&1; echo "exit=$?"; tail -3 /tmp/demo_changed.log)
echo "== demo on unchanged tree"; (cd $WT && git apply -R MUTATION/patch.diff && timeout 300 /venv/bin/python MUTATION/demo.py >/tmp/demo_orig.log 2>&1; echo "exit=$?"; tail -2 /tmp/demo_orig.log; git apply MUTATION/patch.diff)
echo "== tests on changed tree"; (cd $WT && /venv/bin/python -m pytest -q -p no:cacheprovider --timeout=900 --continue-on-collection-errors 2>&1 | tail -1)
D=$(mktemp -d /tmp/givc-seed.XXXXXX); cp -r /repo/giscanner /repo/girepository $D/; (cd $D && git apply $WT/MUTATION/patch.diff) || echo "PATCH FAILED"
for c in "$@"; do echo "== check $c"; GIVC_REPO=$D /verif/check $c | grep -E "^(VIOLATION|UNDECIDED|CHECKER|  failed|C[0-9]+:)" | cut -c1-260; done
rm -rf $D
mkdir -p /verif/seeded/$NAME; cp $WT/MUTATION/patch.diff $WT/MUTATION/demo.py $WT/MUTATION/notes.md /verif/seeded/$NAME/ 2>/dev/null
