/* Stub of <glib.h> for parsing only (the real GLib headers are not installed in this sandbox).
 * Declares the types, constants and prototypes used by girepository C files; control-flow macros are defined
 * equivalently (g_return_val_if_fail -> if(!(e)) return v; g_assert -> givc_assert; g_error -> noreturn). */
#ifndef GIVC_GLIB_STUB_H
#define GIVC_GLIB_STUB_H
#include <stddef.h>
#include <stdint.h>
#include <limits.h>
typedef char gchar; typedef short gshort; typedef long glong; typedef int gint; typedef gint gboolean;
typedef unsigned char guchar; typedef unsigned short gushort; typedef unsigned long gulong; typedef unsigned int guint;
typedef float gfloat; typedef double gdouble; typedef void* gpointer; typedef const void *gconstpointer;
typedef int8_t gint8; typedef uint8_t guint8; typedef int16_t gint16; typedef uint16_t guint16;
typedef int32_t gint32; typedef uint32_t guint32; typedef int64_t gint64; typedef uint64_t guint64;
typedef size_t gsize; typedef ptrdiff_t gssize; typedef gsize GType; typedef guint32 GQuark; typedef guint32 gunichar;
typedef intptr_t gintptr; typedef uintptr_t guintptr; typedef gint64 goffset;
#define TRUE 1
#define FALSE 0
#ifndef NULL
#define NULL ((void*)0)
#endif
#define G_MAXSHORT SHRT_MAX
#define G_MINSHORT SHRT_MIN
#define G_MAXUSHORT USHRT_MAX
#define G_MAXINT INT_MAX
#define G_MININT INT_MIN
#define G_MAXUINT UINT_MAX
#define G_MAXUINT16 0xffff
#define G_MAXUINT32 0xffffffffu
#define G_MAXINT64 INT64_MAX
#define G_GNUC_UNUSED
#define G_GNUC_CONST
#define G_GNUC_PRINTF(a,b)
#define G_GNUC_NORETURN __attribute__((noreturn))
#define G_GNUC_INTERNAL
#define G_GNUC_BEGIN_IGNORE_DEPRECATIONS
#define G_GNUC_END_IGNORE_DEPRECATIONS
#define G_BEGIN_DECLS
#define G_END_DECLS
#define G_STMT_START do
#define G_STMT_END while (0)
#define G_STRFUNC __func__
#define G_LIKELY(x) (x)
#define G_UNLIKELY(x) (x)
#define G_N_ELEMENTS(a) (sizeof(a)/sizeof((a)[0]))
#define G_DIR_SEPARATOR '/'
#define G_DIR_SEPARATOR_S "/"
#define G_SEARCHPATH_SEPARATOR_S ":"
#define G_STRUCT_OFFSET(t,m) offsetof(t,m)
#define GPOINTER_TO_INT(p) ((gint)(glong)(p))
#define GINT_TO_POINTER(i) ((gpointer)(glong)(i))
#define GUINT_TO_POINTER(i) ((gpointer)(gulong)(i))
#define GPOINTER_TO_UINT(p) ((guint)(gulong)(p))
#define GPOINTER_TO_SIZE(p) ((gsize)(p))
#define GSIZE_TO_POINTER(s) ((gpointer)(gsize)(s))
#define MAX(a,b) (((a) > (b)) ? (a) : (b))
#define MIN(a,b) (((a) < (b)) ? (a) : (b))
#define CLAMP(x,lo,hi) (((x) > (hi)) ? (hi) : (((x) < (lo)) ? (lo) : (x)))
#define ABS(a) (((a) < 0) ? -(a) : (a))
typedef struct _GList GList; struct _GList { gpointer data; GList *next; GList *prev; };
typedef struct _GSList GSList; struct _GSList { gpointer data; GSList *next; };
typedef struct _GHashTable GHashTable; typedef struct _GString GString; struct _GString { gchar *str; gsize len; gsize allocated_len; };
typedef struct _GError GError; struct _GError { GQuark domain; gint code; gchar *message; };
typedef struct _GMappedFile GMappedFile; typedef struct _GDir GDir; typedef struct _GModule GModule;
typedef struct _GPtrArray GPtrArray; struct _GPtrArray { gpointer *pdata; guint len; };
typedef struct _GArray GArray; struct _GArray { gchar *data; guint len; };
typedef struct _GBytes GBytes; typedef struct _GOptionGroup GOptionGroup;
typedef struct { gpointer a; gpointer b; gint c; gboolean d; gpointer e; gint f; } GHashTableIter;
typedef struct { volatile gint x; } GOnce;
typedef gint (*GCompareFunc)(gconstpointer a, gconstpointer b);
typedef void (*GDestroyNotify)(gpointer data);
typedef void (*GFunc)(gpointer data, gpointer user_data);
typedef guint (*GHashFunc)(gconstpointer key);
typedef gboolean (*GEqualFunc)(gconstpointer a, gconstpointer b);
typedef void (*GHFunc)(gpointer key, gpointer value, gpointer user_data);
void givc_assert(int cond);
void givc_fatal(const char *fmt, ...) __attribute__((noreturn));
void givc_message(const char *fmt, ...);
#define g_assert(e) givc_assert(!!(e))
#define g_assert_not_reached() givc_fatal("unreachable")
#define g_assert_cmpint(a,op,b) givc_assert((a) op (b))
#define g_error(...) givc_fatal(__VA_ARGS__)
#define g_warning(...) givc_message(__VA_ARGS__)
#define g_debug(...) givc_message(__VA_ARGS__)
#define g_message(...) givc_message(__VA_ARGS__)
#define g_critical(...) givc_message(__VA_ARGS__)
#define g_printerr(...) givc_message(__VA_ARGS__)
#define g_return_val_if_fail(e,v) do { if (!(e)) return (v); } while (0)
#define g_return_if_fail(e) do { if (!(e)) return; } while (0)
#define g_return_val_if_reached(v) do { return (v); } while (0)
#define g_new(t,n) ((t*)g_malloc(sizeof(t)*(n)))
#define g_new0(t,n) ((t*)g_malloc0(sizeof(t)*(n)))
void *givc_new_struct(const char *type_name);   /* givc: translated to a fresh zero-initialised struct object */
#define g_slice_new(t) ((t*)givc_new_struct(#t))
#define g_slice_new0(t) ((t*)givc_new_struct(#t))
#define g_slice_free(t,p) g_free(p)
#define g_newa(t,n) ((t*)__builtin_alloca(sizeof(t)*(n)))
#define g_alloca(n) __builtin_alloca(n)
gpointer g_malloc(gsize n); gpointer g_malloc0(gsize n); gpointer g_realloc(gpointer p, gsize n); void g_free(gpointer p);
gpointer g_memdup2(gconstpointer p, gsize n);
gchar *g_strdup(const gchar *s); gchar *g_strndup(const gchar *s, gsize n); gchar *g_strdup_printf(const gchar *fmt, ...);
gchar *g_strconcat(const gchar *s, ...); gchar **g_strsplit(const gchar *s, const gchar *d, gint max); void g_strfreev(gchar **v);
guint g_strv_length(gchar **v); gchar *g_strjoinv(const gchar *sep, gchar **v); gchar *g_strchug(gchar *s); gchar *g_strchomp(gchar *s);
gboolean g_str_has_prefix(const gchar *s, const gchar *p); gboolean g_str_has_suffix(const gchar *s, const gchar *p);
gboolean g_str_equal(gconstpointer a, gconstpointer b); guint g_str_hash(gconstpointer v); gint g_strcmp0(const char *a, const char *b);
gint g_ascii_strcasecmp(const gchar *a, const gchar *b); gint64 g_ascii_strtoll(const gchar *n, gchar **e, guint b);
guint64 g_ascii_strtoull(const gchar *n, gchar **e, guint b); gdouble g_ascii_strtod(const gchar *n, gchar **e);
gchar *g_build_filename(const gchar *first, ...); gchar *g_path_get_basename(const gchar *f); gchar *g_path_get_dirname(const gchar *f);
const gchar *g_getenv(const gchar *v); const gchar *g_get_user_data_dir(void); const gchar *const *g_get_system_data_dirs(void);
GList *g_list_prepend(GList *l, gpointer d); GList *g_list_append(GList *l, gpointer d); GList *g_list_reverse(GList *l);
GList *g_list_sort(GList *l, GCompareFunc f); void g_list_free(GList *l); guint g_list_length(GList *l); GList *g_list_last(GList *l);
GList *g_list_delete_link(GList *l, GList *k); GList *g_list_find(GList *l, gconstpointer d); GList *g_list_insert_sorted(GList *l, gpointer d, GCompareFunc f);
GList *g_list_remove(GList *l, gconstpointer d); GList *g_list_concat(GList *a, GList *b); GList *g_list_copy(GList *l); gpointer g_list_nth_data(GList *l, guint n);
void g_list_foreach(GList *l, GFunc f, gpointer u); void g_list_free_full(GList *l, GDestroyNotify f);
GSList *g_slist_prepend(GSList *l, gpointer d); GSList *g_slist_append(GSList *l, gpointer d); GSList *g_slist_reverse(GSList *l);
GSList *g_slist_sort(GSList *l, GCompareFunc f); void g_slist_free(GSList *l); guint g_slist_length(GSList *l); void g_slist_foreach(GSList *l, GFunc f, gpointer u);
GSList *g_slist_delete_link(GSList *l, GSList *k); GSList *g_slist_find_custom(GSList *l, gconstpointer d, GCompareFunc f); GSList *g_slist_copy(GSList *l);
void g_slist_free_full(GSList *l, GDestroyNotify f); GSList *g_slist_remove(GSList *l, gconstpointer d);
GHashTable *g_hash_table_new(GHashFunc h, GEqualFunc e); GHashTable *g_hash_table_new_full(GHashFunc h, GEqualFunc e, GDestroyNotify k, GDestroyNotify v);
gpointer g_hash_table_lookup(GHashTable *t, gconstpointer k); gboolean g_hash_table_insert(GHashTable *t, gpointer k, gpointer v);
gboolean g_hash_table_replace(GHashTable *t, gpointer k, gpointer v); gboolean g_hash_table_remove(GHashTable *t, gconstpointer k);
gboolean g_hash_table_lookup_extended(GHashTable *t, gconstpointer k, gpointer *ok, gpointer *v); guint g_hash_table_size(GHashTable *t);
void g_hash_table_destroy(GHashTable *t); void g_hash_table_unref(GHashTable *t); GHashTable *g_hash_table_ref(GHashTable *t); void g_hash_table_foreach(GHashTable *t, GHFunc f, gpointer u);
void g_hash_table_iter_init(GHashTableIter *i, GHashTable *t); gboolean g_hash_table_iter_next(GHashTableIter *i, gpointer *k, gpointer *v);
gboolean g_hash_table_contains(GHashTable *t, gconstpointer k); void g_hash_table_remove_all(GHashTable *t); GList *g_hash_table_get_keys(GHashTable *t);
guint g_direct_hash(gconstpointer v); gboolean g_direct_equal(gconstpointer a, gconstpointer b);
GString *g_string_new(const gchar *s); GString *g_string_append(GString *s, const gchar *v); GString *g_string_append_c(GString *s, gchar c);
GString *g_string_append_printf(GString *s, const gchar *f, ...); gchar *g_string_free(GString *s, gboolean f); GString *g_string_sized_new(gsize n); GString *g_string_append_len(GString *s, const gchar *v, gssize l);
void g_set_error(GError **e, GQuark d, gint c, const gchar *f, ...); void g_set_error_literal(GError **e, GQuark d, gint c, const gchar *m);
void g_propagate_error(GError **d, GError *s); void g_clear_error(GError **e); void g_error_free(GError *e); GQuark g_quark_from_static_string(const gchar *s);
GQuark g_quark_try_string(const gchar *s); GQuark g_quark_from_string(const gchar *s); const gchar *g_quark_to_string(GQuark q);
GMappedFile *g_mapped_file_new(const gchar *f, gboolean w, GError **e); gsize g_mapped_file_get_length(GMappedFile *f); gchar *g_mapped_file_get_contents(GMappedFile *f); void g_mapped_file_unref(GMappedFile *f);
GDir *g_dir_open(const gchar *p, guint fl, GError **e); const gchar *g_dir_read_name(GDir *d); void g_dir_close(GDir *d);
gboolean g_once_init_enter(volatile void *l); void g_once_init_leave(volatile void *l, gsize r);
GPtrArray *g_ptr_array_new(void); void g_ptr_array_add(GPtrArray *a, gpointer d); gpointer *g_ptr_array_free(GPtrArray *a, gboolean f); void g_ptr_array_unref(GPtrArray *a);
#define g_ptr_array_index(a,i) ((a)->pdata)[i]
gint g_atomic_int_get(const volatile gint *a); void g_atomic_int_inc(volatile gint *a); gboolean g_atomic_int_dec_and_test(volatile gint *a);
gboolean g_file_test(const gchar *f, int t); gboolean g_file_get_contents(const gchar *f, gchar **c, gsize *l, GError **e);
gint g_snprintf(gchar *s, gulong n, const gchar *f, ...); gchar *g_strdup_value_contents(const void *v); gchar *g_strstr_len(const gchar *h, gssize l, const gchar *n);
gboolean g_ascii_isdigit(gchar c); gboolean g_ascii_isalpha(gchar c); gboolean g_ascii_isalnum(gchar c); gboolean g_ascii_isupper(gchar c); gchar g_ascii_tolower(gchar c); gchar g_ascii_toupper(gchar c); gchar *g_ascii_strdown(const gchar *s, gssize l); gchar *g_ascii_strup(const gchar *s, gssize l);
#define G_FILE_TEST_EXISTS 1
#define G_FILE_TEST_IS_DIR 2
#define G_LOG_DOMAIN "givc"
#define G_STATIC_ASSERT(e) _Static_assert(e, "static")
#define G_DEFINE_QUARK(QN, q_n) GQuark q_n##_quark(void);
#define G_LOCK_DEFINE_STATIC(n) static int g__##n##_lock
#define G_LOCK(n) ((void)0)
#define G_UNLOCK(n) ((void)0)
#define G_DEPRECATED
#define G_DEPRECATED_FOR(f)
#define G_UNAVAILABLE(a,b)
#define G_GNUC_WARN_UNUSED_RESULT
#define G_GNUC_MALLOC
#define G_GNUC_NULL_TERMINATED
#define G_GNUC_PURE
#define G_GNUC_FALLTHROUGH
#define G_OS_UNIX 1
#define GLIB_CHECK_VERSION(a,b,c) 1
#define G_ENCODE_VERSION(a,b) ((a) << 16 | (b) << 8)
#define g_clear_pointer(pp, destroy) do { if (*(pp)) { destroy(*(pp)); *(pp) = NULL; } } while (0)
#endif
#ifndef GIVC_GLIB_STUB_EXTRA
#define GIVC_GLIB_STUB_EXTRA
#define GLIB_SIZEOF_SIZE_T 8
#define GLIB_SIZEOF_LONG 8
#define GLIB_SIZEOF_VOID_P 8
#define GLIB_SIZEOF_SSIZE_T 8
typedef gpointer (*GBoxedCopyFunc)(gpointer boxed);
typedef void (*GBoxedFreeFunc)(gpointer boxed);
#undef G_STATIC_ASSERT
#define G_STATIC_ASSERT(e) typedef char givc_static_assert_##__LINE__[(e) ? 1 : -1]
#endif
