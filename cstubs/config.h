/* stub of the meson-generated config.h */
#define GIR_DIR "/usr/share/gir-1.0"
#define GIR_SUFFIX "gir-1.0"
#define GOBJECT_INTROSPECTION_LIBDIR "/usr/lib"
#define GOBJECT_INTROSPECTION_DATADIR "/usr/share"
#define GOBJECT_INTROSPECTION_RELATIVE_LIBDIR "lib"
#define SIZEOF_CHAR 1
#define SIZEOF_SHORT 2
#define SIZEOF_INT 4
#define SIZEOF_LONG 8
#define HAVE_GETTEXT 0
