#ifndef GIVC_GMODULE_STUB_H
#define GIVC_GMODULE_STUB_H
#include <glib.h>
typedef enum { G_MODULE_BIND_LAZY = 1, G_MODULE_BIND_LOCAL = 2 } GModuleFlags;
GModule *g_module_open(const gchar *f, GModuleFlags fl); gboolean g_module_symbol(GModule *m, const gchar *s, gpointer *p); gboolean g_module_close(GModule *m);
const gchar *g_module_error(void); gchar *g_module_build_path(const gchar *d, const gchar *n);
#endif
