#include <glib-object.h>
