#ifndef GIVC_GOBJECT_STUB_H
#define GIVC_GOBJECT_STUB_H
#include <glib.h>
typedef struct _GValue GValue; struct _GValue { GType g_type; union { gint v_int; gint64 v_int64; gdouble v_double; gpointer v_pointer; } data[2]; };
typedef struct _GTypeClass GTypeClass; struct _GTypeClass { GType g_type; }; typedef struct _GTypeInstanceS { GTypeClass *g_class; } GTypeInstanceS;
typedef struct _GObject GObject; struct _GObject { GTypeInstanceS g_type_instance; guint ref_count; gpointer qdata; }; typedef struct _GObjectClass GObjectClass; struct _GObjectClass { GTypeClass g_type_class; gpointer pad[16]; };
 typedef struct _GTypeInterface GTypeInterface; typedef struct _GTypeInstance GTypeInstance;
typedef struct _GClosure GClosure; typedef struct _GParamSpec GParamSpec; typedef struct _GTypeInfo GTypeInfo;
typedef enum { G_PARAM_READABLE = 1, G_PARAM_WRITABLE = 2, G_PARAM_READWRITE = 3, G_PARAM_CONSTRUCT = 4, G_PARAM_CONSTRUCT_ONLY = 8 } GParamFlags;
typedef enum { G_SIGNAL_RUN_FIRST = 1, G_SIGNAL_RUN_LAST = 2, G_SIGNAL_RUN_CLEANUP = 4, G_SIGNAL_NO_RECURSE = 8, G_SIGNAL_DETAILED = 16, G_SIGNAL_ACTION = 32, G_SIGNAL_NO_HOOKS = 64 } GSignalFlags;
#define G_TYPE_INVALID ((GType)0)
#define G_TYPE_NONE ((GType)4)
#define G_TYPE_INTERFACE ((GType)8)
#define G_TYPE_BOXED ((GType)72)
#define G_TYPE_OBJECT ((GType)80)
#define G_TYPE_FUNDAMENTAL(t) (g_type_fundamental(t))
GType g_type_fundamental(GType t); const gchar *g_type_name(GType t); GType g_type_from_name(const gchar *n); GType g_type_parent(GType t);
gboolean g_type_is_a(GType t, GType is_a); GType *g_type_interfaces(GType t, guint *n); gpointer g_type_class_ref(GType t); void g_type_class_unref(gpointer c);
GType g_boxed_type_register_static(const gchar *n, gpointer c, gpointer f);
#define G_DEFINE_TYPE(TN, t_n, T_P) GType t_n##_get_type(void);
#define G_DEFINE_TYPE_WITH_CODE(TN, t_n, T_P, C) GType t_n##_get_type(void);
#define G_ADD_PRIVATE(TN)
#define G_TYPE_CHECK_INSTANCE_CAST(i,t,c) ((c*)(i))
#define G_TYPE_CHECK_CLASS_CAST(i,t,c) ((c*)(i))
#define G_TYPE_CHECK_INSTANCE_TYPE(i,t) (1)
#define G_TYPE_CHECK_CLASS_TYPE(i,t) (1)
#define G_TYPE_INSTANCE_GET_CLASS(i,t,c) ((c*)0)
#define G_OBJECT_CLASS(c) ((GObjectClass*)(c))
#define G_OBJECT(o) ((GObject*)(o))
gpointer g_object_new(GType t, const gchar *f, ...); gpointer g_object_ref(gpointer o); void g_object_unref(gpointer o);
#define G_DEFINE_BOXED_TYPE(TN, t_n, copy, free) GType t_n##_get_type(void);
#endif
