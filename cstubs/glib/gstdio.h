#include <glib.h>
