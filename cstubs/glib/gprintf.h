#include <glib.h>
