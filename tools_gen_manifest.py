#!/usr/bin/env python3
"""Regenerate MANIFEST.json from manifest_src.py (kept as data so it stays valid)."""
import json, sys
sys.path.insert(0, '/verif')
from manifest_src import MANIFEST
json.dump(MANIFEST, open('/verif/MANIFEST.json', 'w'), indent=1)
import jsonschema
jsonschema.validate(MANIFEST, json.load(open('/root/.vp/MANIFEST.schema.json')))
print('MANIFEST ok: %d checks, %d not applicable' % (len(MANIFEST['checks']), len(MANIFEST['not_applicable'])))
