BASE = "cd /repo && /venv/bin/python -m pytest -ra -q -p no:cacheprovider --timeout=900 --continue-on-collection-errors"

def chk(pid, text, note, design, technique='deductive verification: ast->VC generator (givc) on the real functions + z3/cvc5'):
    return {
        "property_id": pid,
        "quick_cmd": "./check %s --tier quick" % pid,
        "thorough_cmd": "./check %s --tier thorough" % pid,
        "evidence_file": "evidence/%s.json" % pid,
        "replay_cmd_template": "./check %s --replay {path}" % pid,
        "engine": "givc",
        "level_claimed": {"category": "proof", "text": text, "design_ref": design},
        "level_note": note,
        "technique": technique,
    }

CHECKS = [
    chk("C07", "Read/write cycle for parameter elements: the writer is proved to emit EMIT_x(p) for every attribute x, and the reader, "
        "given an element carrying exactly those attributes, is proved to rebuild a parameter from which the writer emits the same "
        "attributes again (attribute-level byte identity), although not_nullable / caller_allocates-on-in are normalised; also "
        "emission contracts for constants, members, properties and functions.",
        "Trusted: givc, ElementTree, _parse_type and _parse_generic_attribs by assumed contract, XML layer (C20). Only parameter "
        "elements have both directions under contract; for <array>/<type> the writer side is under contract (_write_type, with the "
        "reader's zero-terminated default rule as specification) and the reader of the generic attributes and documentation children "
        "(_parse_generic_attribs: every <doc*> child is read whenever present), of <array> / <type> / <varargs> elements "
        "(_parse_type_simple: kind, C type, fixed size, zero-termination with the reader's default) and of the array length index "
        "(_parse_type_array_length). Also both directions for <property> (_write_property / _parse_property: name, readable, writable, "
        "construct, construct-only, transfer-ownership, setter, getter, default-value) and <field> (_write_field / _parse_field: name, "
        "readable, writable, bits, private), and type names: _type_to_name drops exactly the qualifier of the namespace being "
        "written (a namespace whose name merely starts with it stays qualified) and the reader's Namespace.type_from_name gives "
        "the same GI name back; _write_type writes that name. Assumed data invariants: a property has a transfer mode, a field has "
        "a type or an anonymous node, the writer runs inside _write_namespace. _write_class is NOT under contract (a contract was "
        "withdrawn because its vacuity guard was unstable under load; the seeded change there is recorded as missed). Return values, records, classes, documents as a "
        "whole and the shipped GIR files are not yet covered.", "DESIGN.md section 4 C07"),
    chk("C09", "The section-offset arithmetic of the real GIObjectInfo accessors (get_property/method/vfunc/constant, signal offset, "
        "field offset walk over embedded callbacks) is proved equal to the ObjectBlob layout of gitypelib-internal.h written as a "
        "table; each accessor creates its info at section_start + n*size with the right info type, and rejects non-object infos.",
        "Trusted: givc C front end, stub headers, g_info_new/g_base_info_get_type by assumed contract, count*size products by "
        "congruence (no overflow modelling). Also under contract: the interface accessors (InterfaceBlob layout), "
        "g_struct_get_field_offset, g_union_info_get_field/method, g_enum_info_get_value/method and the attribute run lookup "
        "(_attribute_blob_find_first), and the type slots handed out as GITypeInfo (_g_type_info_new / _g_type_info_init: a slot "
        "whose low 24 bits are zero is an inline basic type, any other value is the offset of the complex type blob; the union / "
        "bit-field layout of SimpleTypeBlob on a little-endian GCC target is an assumed precondition), and g_property_info_get_setter / "
        "get_getter (the method recorded in the PropertyBlob, available exactly when writable and not construct-only / readable and "
        "not the sentinel). Callable accessors, the "
        "gitypeinfo.c accessors, g_irepository_get_info / find_by_name and the g-ir-generate text are not under contract.",
        "DESIGN.md section 4 C09",
        technique="deductive verification: clang-AST -> VC generator (givc C front end) on the real C functions + z3"),
    chk("C17", "The real version-election functions of girepository.c are proved: compare_version is the numeric (major, minor) "
        "order, compare_candidate_reverse is 'higher version first, earlier directory among equals' and is a total preorder "
        "(reflexive, antisymmetric, transitive lemmas), find_namespace_version returns the file of the first search-path directory "
        "that has <ns>-<version>.typelib and NULL otherwise, find_namespace_latest elects a candidate no other candidate beats, "
        "check_version_conflict refuses a different loaded version; enumerate_namespace_versions maps and lists only directory "
        "entries named <namespace>-<...>.typelib, each candidate carrying the path of its entry (call-discipline clauses); "
        "load_dependencies_recurse: the loop is left only at the terminating NULL of the dependency vector and every entry "
        "before it went through g_irepository_require with exactly its namespace (text before the last dash) and version (a ghost "
        "map namespace -> loaded version is maintained by the assumed contract of g_irepository_require), a failing entry returns FALSE.",
        "Trusted: givc C front end, stub headers, GLib by assumed contract (g_mapped_file_new, g_build_filename, g_slist_sort as sorted "
        "permutation, g_str_equal), parse_version (strtol scanning), the set and order of directory entries, the version text cut out by strrchr / g_strndup and the hash table of seen versions are not modelled (the resulting candidate list is only named). require/register/"
        "and call histories (g_irepository_require itself, register_internal, the transitive closure of dependencies) are not under "
        "contract.", "DESIGN.md section 4 C17",
        technique="deductive verification: clang-AST -> VC generator (givc C front end) on the real C functions + z3"),
    chk("C14", "The real lookup functions of gitypelib.c (by name incl. the hashed path, by GType name, by error domain) are proved: "
        "a returned entry always carries exactly the probed string (the mandatory final comparison), lies among the local entries, "
        "the linear searches find the first matching entry and return NULL only when no entry matches; g_typelib_get_dir_entry returns "
        "the location directory + (index-1)*entry_blob_size for every 16-bit index (conversions to 8/16-bit unsigned types are "
        "reduced modulo 2**bits, so an offset squeezed through a narrow temporary is refuted). Repository level: the per-typelib "
        "callback of g_irepository_find_by_error_domain never loses or overwrites a hit and keeps entry and typelib paired.",
        "Trusted: givc C front end, stub headers, strcmp / get_section_by_id by assumed contract, the directory layout as the "
        "definition of ENTRY, header counts within their 16-bit range, byte layout "
        "of the mapped file abstracted as locations, wider integer arithmetic mathematical, CMPH (hash returns some index below n_entries). Index construction (gthash.c), "
        "prefix matching and repository-level find_* are not yet under contract.", "DESIGN.md section 4 C14",
        technique="deductive verification: clang-AST -> VC generator (givc C front end) on the real C functions + z3"),
    chk("C08", "The real C functions of giroffsets.c (clang JSON AST, translated mechanically) are proved against the System V ABI "
        "layout rule written as folds over the member list: struct offsets/size/alignment, union size/alignment, unknown member "
        "=> unknown layout (-1), GI_ALIGN on powers of two, enum storage type against the GCC rule, one-member size/alignment.",
        "Trusted: givc and its C front end (cfront.py), stub GLib headers (cstubs/), mathematical integers (no overflow), casts "
        "follow node type tags, &p->f by copy-in/copy-out, libffi descriptor table; get_interface_size_alignment and the "
        "recursion driver by assumed contract. One known finding (enum values beyond 32 bits), replayed natively with gcc.",
        "DESIGN.md section 4 C08",
        technique="deductive verification: clang-AST -> VC generator (givc C front end) on the real C functions + z3"),
    chk("C12", "Contracts on the real GDumpParser functions: every reported property becomes one Property whose readable/writable/"
        "construct/construct-only flags equal the reported flag bits (for every flag word), with the reported name and default; "
        "class/interface structures are linked to their type in both directions; instance structures give ctype and read-only "
        "fields; interface / prerequisite lists are filtered on a copy (_resolve_and_filter_type_list: the given list is never "
        "changed, every entry is resolved once and in order); plus the emission of property flags by the GIR writer.",
        "Also: _introspect_signals (one Signal per reported signal with its name, run stage, no-recurse / detailed / action / no-hooks "
        "flags and one parameter per <param>, the first being the instance). "
        "GDumpParser.parse: the function named by the get-type symbol of EVERY registered type of the namespace (also records / "
        "unions paired with a boxed or pointer GType; `intern` excepted) is put on the removal list in namespace order (loop "
        "invariant + loop postcondition over a ghost position) and exactly the listed nodes are handed to Namespace.remove. "
        "Trusted: givc, ElementTree (findall, iteration), Node.create_type, Transformer.resolve_type, list.remove (coarse); inside "
        "parse the merging functions _introspect_type / _introspect_error_quark / _pair_boxed_type / _pair_pointer_type by coarse "
        "assumed frames, dict iteration order as a ghost key list, namespace nodes have a name and a namespace (assumed data "
        "invariant), no symbol filter command. _pass_type_resolution (loop postconditions): the parent type of a class is an entry "
        "of the reported parent chain whose target is known, a class without a known entry keeps its parent (none is invented), "
        "an interface falls back to GObject.Object. _introspect_enum: enumeration vs bitfield is decided by the runtime registration "
        "(<enum> / <flags>) alone, one member per reported value with its nick and registered name. The parent-chain fallback, virtual methods and error quarks are not under contract; "
        "gdump.c is out of scope.", "DESIGN.md section 4 C12"),
    chk("C03", "Contracts on the real identifier-level annotation functions: generic metadata (doc, Since/Deprecated/Stability, skip, "
        "foreign, constructor only on functions, method, set/get-property), block-name selection, and rename-to as a mutually "
        "consistent shadows/shadowed-by pair without multiple shadowing (a rename-to target that is not a function only warns: "
        "genuine defect repaired by /repo 63076e1). Struct.field and Class:property block targeting, emission of constants / members / "
        "properties / functions / fields. Callables: finish-func / sync-func / async-func and the dispatch of one block to metadata, "
        "parameters and return value (_apply_annotations_callable). Virtual invokers (_pass_read_annotations2, loop postconditions): "
        "the FIRST slot of the owning class named by (virtual SLOT) gets this function as invoker whatever automatic pairing set "
        "before, every other slot keeps its invoker, the invoker's block is merged into that slot; a (virtual) on a method of a type "
        "without slots raises nothing (genuine defect repaired by /repo 3f401a8). Enumeration members: a block carrying the member's "
        "own C name wins over the @MEMBER line of the enumeration block (its (skip) takes effect).",
        "Trusted: givc, schema incl. ownership regions of dictionaries; _apply_annotations_params (assumed, frame incomplete for the "
        "parameters' attribute dictionaries - stated in its note), _check_instance_parameter; slots pairwise distinct objects and "
        "scanned slots have a C return type (assumed data invariants). Signals, copy/free/ref/unref functions and the automatic "
        "pairing _pair_class_virtuals are not under contract (a seeded change there is recorded as missed).", "DESIGN.md section 4 C03"),
    chk("C18", "Sequential contracts on the real CacheStore functions: an entry older than its source is never reported valid or "
        "served, an entry that fails to unpickle is discarded and never propagated as an exception, load validates before "
        "unpickling and never writes, store writes only a private temp file, completes it before the single rename into place, and "
        "uses no other way of writing; the version purge precedes the new stamp; removing an entry that has vanished meanwhile "
        "(FileNotFoundError from unlink, e.g. a concurrent scanner) is never an error.",
        "Trusted: givc, file-system primitives by assumed contract (os.unlink raising FileNotFoundError / PermissionError / other "
        "OSError with the errno CPython attaches), time stamps: st_mtime_ns an exact integer, st_mtime an exact value with a fraction (float kind: only "
        "comparison and int() truncation are modelled, anything else is refused; the two fields are unrelated in the model, so "
        "code that falls back to the lossy float is refuted); genuine defect F11 (float comparison) repaired by /repo 2049799; "
        "a native grid of real files (bounded) supplies failing inputs; _get_versionhash (which source times feed the version stamp) is "
        "assumed - a seeded change there is recorded as missed, os.stat as a function of the path (NO interference between steps: concurrent "
        "schedules and crash points are not decided beyond call order and tolerated ENOENT), rename atomicity.",
        "DESIGN.md section 4 C18"),
    chk("C19", "The library pattern is extracted from the real source, translated mechanically to an SMT regular expression with a "
        "symbolic library name and proved component-wise equal to the statement's language (regular-language lemmas, z3); "
        "resolve_from_ldd_output is under contract with loop invariants: normal return only when every request was resolved, "
        "SystemExit otherwise; sanitize_shlib_path returns the base name.",
        "Trusted: givc and its regex translation, re engine = regular-language semantics, re.escape, str.split/splitlines, "
        "os.path functions. Also under contract: extract_libtool_shlib. First-match order is not yet under contract. If the pattern "
        "uses a construct the translator does not know (e.g. \\b), the check falls back to a BOUNDED comparison of the real "
        "compiled pattern with the specification over a finite family of names and words (labelled bounded, never proved).",
        "DESIGN.md section 4 C19",
        technique="deductive verification: VC generator on the real functions + regular-language lemmas on the extracted pattern (z3/cvc5)"),
    chk("C05", "Contracts on the real introspectable-pass functions: local closure of every analysis function, monotonicity, "
        "frame, skip propagation, and range/first-match contracts of the index lookups; loops by invariants with a ghost index.",
        "Trusted: givc, schema, Transformer lookups (uninterpreted). The global clause (validate iterates to a fixpoint) is a "
        "known finding replayed natively. Also under contract: _introspectable_pass3 (fields follow their types / anonymous types, "
        "signals analysed as callables) and _introspectable_property_analysis (a property of an unbindable type is closed together "
        "with its setter / getter; afterwards no method's set-property / get-property names a closed property; nested search loops "
        "with loop postconditions). Namespace lookups never return properties, signals or virtual functions (assumed). Emitted GIR "
        "files are not under contract.", "DESIGN.md section 4 C05"),
    chk("C20", "Contracts on the real xmlwriter functions: collect_attributes equals the fold of the declarative attribute step "
        "(None omitted, separators whitespace, quoteattr), stack discipline of push/pop, tagcontext closes on normal and "
        "exceptional exit, text is escaped.",
        "Trusted: givc, saxutils.escape/quoteattr contracts, io.StringIO as accumulated text, with-bodies abstracted as balanced "
        "writer use; XML meta-lemma validated with expat on random documents (spec validation only). One known finding "
        "(write_comment).", "DESIGN.md section 4 C20"),
    chk("C01", "Contracts on the real annotation-application functions (_apply_annotations_param_ret_common, "
        "_apply_transfer_annotation, _is_pointer_type): every clause of the property for direction, caller-allocation, "
        "nullable/optional/not, skip, doc and transfer validity is a named obligation discharged for all field valuations; "
        "array annotations (_apply_annotations_array, _get_validate_parameter_name/_field_name): zero-termination, fixed size, "
        "length parameter as written, the length parameter follows the direction, unknown length name is fatal; emission of "
        "every parameter / return / array attribute by GIRWriter._write_parameter/_write_return_type/_write_type.",
        "Also under contract: _adjust_container_type (dispatcher), _apply_annotations_element_type (lists, arrays, maps), "
        "_apply_annotations_param_callback (scope / destroy / closure; invalid on non-callbacks: one warning each, nothing changes) "
        "and _apply_annotations_param_closure. "
        "Trusted: givc, schema, Transformer lookups (uninterpreted), _resolve_toplevel, _resolve (type strings; `resolved_from` "
        "ghost), Callable.get_parameter and _check_array_element_type by assumed contract; int(str) on canonical decimals only.",
        "DESIGN.md section 4 C01"),
    chk("C11", "Counting half: MessageLogger.log and every module-level logging entry point increment the diagnostic counter "
        "exactly once on every exit (suppressed, printed, SystemExit for fatal). Parser half, annotation level: "
        "_parse_annotations / _parse_annotation / the option parsers / _parse_fields raise nothing on any text, a malformed "
        "annotation list yields success=False with nothing returned and at least one diagnostic, and the annotations parsed so far "
        "(the object passed in) are never modified - a failing continuation line is ignored rather than half-applied; "
        "parse_comment_blocks raises nothing whatever parse_comment_block does (any Exception becomes one counted error, the other "
        "comments are still parsed, each exactly once and in order). BOUNDED stand-in (not a proof): the line-splitting expression "
        "of parse_comment_block, extracted from the source on every run, against the rule 'lines end at LF, CR LF or CR only'. "
        "Positions: frame obligation C11.position.never_written_after_construction for ALL functions of giscanner/*.py - a "
        "message.Position (slots only) is written nowhere but in its constructor, so a diagnostic issued later (validate() runs "
        "after the block was read) still names the line the object was built for; decided by a write-set census of the real "
        "source on every run, a failure is replayed natively. GtkDocAnnotatable.validate raises nothing for any annotation "
        "dictionary (annotations without options included) and only diagnoses; the ~40 _do_validate_* methods it selects by name "
        "go by one assumed contract.",
        "Trusted: givc, schema, MessageLogger.get singleton, Position.format, str.split/strip/lower/isspace as uninterpreted "
        "functions. The line state machine of parse_comment_block, positions/carets and the warn_fatal gate are not under contract; "
        "list mode of _parse_annotations (parse_options=False) is excluded by precondition.", "DESIGN.md section 4 C11"),
    chk("C10", "Annotation level of the comment-block grammar on the real parser functions: every parenthesised group is handed to "
        "_parse_annotation as exactly the text between its parentheses (stripped) with its source column; the annotation name is the "
        "first word lower-cased (deprecated spellings mapped), list annotations get their options as the space-separated list in "
        "order, (array)/(attributes) as key=value pairs where each key maps to the value of its last item (None for a bare key) and "
        "no other key is present, unknown annotations keep their option text; _parse_fields hands the field to _parse_annotations "
        "unchanged.",
        "Trusted: givc, str.split/strip/lower/replace/isspace and ''.join as uninterpreted functions (join with its defining "
        "equation at append). NOT under contract: the line state machine parse_comment_block and its 15 regular expressions "
        "(identifier, parameters, tags, description paragraphs, continuation lines, line endings), the comment writer and the "
        "write/parse round trip; relation between the returned options of the option parsers and the stored annotation value is by "
        "call discipline only. BOUNDED stand-in (never counted as proved) for the state machine, which is outside the verifier's "
        "reach: contracts/extra/c10_layouts.py runs the real parser and writer on an exhaustively enumerated family of 144 block "
        "contents x 4 layouts (inline, annotations continued on following lines, indented asterisks, CR LF) and compares each "
        "with the expected content, the layouts with each other and write-then-parse with the block.", "DESIGN.md section 4 C10"),
    chk("C13", "Contract on the real Transformer._create_const: typing clauses and the unsigned-wrap range clause are "
        "integer/string VCs discharged for all symbols; counter-models are replayed natively.",
        "Trusted: givc, schema, assumed contracts for _create_type_from_base/_resolve_type_from_ctype/lookup_giname/"
        "resolve_aliases, str(int) as injective UF. Also under contract: Transformer._create_enum (one member per public "
        "enumerator in declaration order, name = identifier without the common prefix - else without the namespace prefix - "
        "lower-cased, value and C identifier kept, bitfield for flags) with strip_identifier and the enumerator list (child_list) by "
        "assumed contract; Transformer._enum_common_prefix verified against its body (the result is the fold of the word-wise "
        "common prefix over ALL enumerators, private ones included, None when it is empty or has no underscore; the nested closure "
        "common_prefix by its own contract, common_word_prefix as the specification function); and the emission of constants, members and the <enumeration> / <bitfield> "
        "elements (name, c:type, registered type, error domain, one <member> per member in declaration order). "
        "One known finding (platform-width unsigned types are not wrapped).", "DESIGN.md section 4 C13"),
    chk("C04", "Contracts on the real prefix matcher Transformer._split_c_string_for_namespace_matches (three loops, inner break, "
        "sort with key, map) and on _sort_matches, _strip_symbol, _create_function, Namespace.append/remove and "
        "MainTransformer._is_method: if any prefix of the current namespace matches, the best match (last element) is the "
        "current namespace; every stripped name is the suffix left after a prefix and, for symbols, the prefix ends at an "
        "underscore; ValueError only when no prefix of any namespace matches; a function is described under its C name, "
        "underscore symbols are left out, a name is never silently overwritten in a namespace; a method has an in instance "
        "parameter of a type of this namespace and carries its prefix unless annotated.",
        "Trusted: givc, schema, _iter_namespaces (generator: current namespace first), list.sort / list(map()) as "
        "permutation / element-wise image instantiated at witness indices, valid string lemma instances, split_csymbol and "
        "Namespace.track by assumed contract, filter commands excluded by precondition. _split_uscored_by_type (the longest "
        "registered type prefix of a symbol, candidates = prefixes ending in front of an underscore) is under contract with "
        "seven assumed lemmas about str.rsplit / count / join that are validated natively (bounded: all strings over {a,b,_} "
        "up to length 6). Pairing: _pair_function (roles tried in the order constructor, method, static function, each judged on the "
        "prefix-stripped symbol, no further role once one was set up; call-discipline clauses), _is_constructor (named like a "
        "constructor or annotated; returns a constructible type; belongs to the type whose prefix it carries, of this namespace; "
        "a boxed constructor returns exactly its type), _get_constructor_class, _guess_constructor_by_name, _pair_static_method "
        "(class: moved into the class; other types: a copy plus moved-to on the original), _get_constructor_name (the remainder after "
        "the owning type's prefix), Namespace.float. "
        "Assumed: _set_up_constructor / _setup_method (coarse frames), Function.clone, is_type_meta_function, _get_uscored_prefix. "
        "Not under contract: tag-namespace typedef/struct handling, the parent-chain walk inside _is_constructor (invariant: "
        "diagnostics only), to_underscores, the exactly-once statement over a whole scan (a whole-history property), get-type "
        "folding.", "DESIGN.md section 4 C04"),
    chk("C02", "Function contracts on the real transfer-default functions of maintransformer.py (documented defaults for all type / "
        "direction combinations), on _pass3_callable_throws (a trailing GError** is removed and the callable marked as throwing, "
        "nothing else changes) and on _pass3_callable_callbacks: destroy name, scope, transfer and closure name of every "
        "parameter equal left folds over the parameter list (a destroy notify marks the most recent plain callback before it "
        "notified / transfer none / destroy = its name, an untyped `...data` pointer becomes its closure, well-known callback "
        "types get async scope) and a parameter named as a closure becomes nullable unless (not nullable). C type spellings: "
        "_canonicalize_ctype (a table spelling maps to its fundamental type, an unknown non-pointer is kept, a pointer is the "
        "canonical pointee plus one star - one level per step, so char** is utf8*) and create_type_from_ctype_string (original "
        "spelling kept as c:type, _Bool/bool are gboolean, a returned char** and GStrv are arrays of utf8, table types become "
        "their fundamental, unknown ones stay unresolved) are proved for whatever the real dictionary ast.type_names contains; "
        "that the dictionary holds the documented entries (int=gint, char*=utf8, stdint aliases ...) is a finite evaluation "
        "of 40 constants (contracts/extra/c02_type_table.py, complete for that list, reported under bounded). _create_type_from_base: "
        "the const-ness handed on is that of the POINTEE's qualifier bits (never read from the spelled type), the spellings come "
        "from the lexer type (_create_source_type / _create_complete_source_type by assumed contract).",
        "Trusted: givc VC generator, class schema, Transformer lookups (lookup_typenode, resolve_aliases) as uninterpreted "
        "functions, parameters pairwise distinct objects (precondition, instantiated at every pair of read positions). The C type "
        "table as the real dictionary read at verification time; _create_bare_container_type (GList / GHashTable ... by name) by assumed "
        "contract; str.rstrip/strip with a character set as uninterpreted functions. _create_callback is not under contract.",
        "DESIGN.md section 4 C02"),
]

NA_ALL = {
 "C06": "needs a byte-level memory model and GLib contracts for ~7k lines of C (girparser.c, girnode.c, girmodule.c); no C verifier installed and the code cannot be built here",
 
 "C15": "acceptance by the typelib compiler is a statement about the girparser.c state machine (same obstacle as C06); a producer-side contract cannot express it",
 "C16": "determinism is a 2-safety property; the commutativity / self-composition obligations were not built; no claim is made (DESIGN.md section 9)",
}
claimed = {c["property_id"] for c in CHECKS}
MANIFEST = {
    "version": 1,
    "setup_cmd": "python3-vt -B -c \"import z3, sys; sys.path.insert(0,'/verif'); import givc.check\" && test -x /usr/bin/cvc5",
    "hooks": {"guard": "GOBJECT_INTROSPECTION_VERIF", "enable": "none needed: contracts are sidecar files, /repo is not instrumented",
              "baseline_off_cmd": BASE, "source_commits": [], "add_only": True},
    "engines": [{"name": "givc", "path": "givc/", "serves_properties": sorted(claimed),
                 "kind_free_text": "self-built VC generator: Python ast -> SMT (z3 API, cvc5/z3-new CLI fallback), sidecar contracts in contracts/py"}],
    "checks": CHECKS,
    "not_applicable": [{"property_id": k, "reason": v} for k, v in sorted(NA_ALL.items()) if k not in claimed],
    "notes": "See DESIGN.md. Exit codes of ./check: 0 held, 1 VIOLATION, 2 undecided, 3 checker error.",
}
