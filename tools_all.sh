#!/bin/sh
# run every registered quick check, print the summary line and exit code of each
cd /verif
for p in $(python3 -c "import json;print(' '.join(c['property_id'] for c in json.load(open('MANIFEST.json'))['checks']))") "$@"; do
  out=$(./check $p 2>&1); rc=$?
  echo "$out" | grep -E "^(VIOLATION|UNDECIDED|CHECKER|C[0-9]+:)" | cut -c1-220
  echo "  exit=$rc"
done
