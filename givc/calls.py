"""Calls: inlining, call-by-contract, builtins, container/str methods, loops."""
import ast as pyast
import inspect
import textwrap
import types
import z3

from .vals import *    # noqa
from .model import *   # noqa
from .engine import State, Exit, Frame, UNBOUND

_src_cache = {}


_mod_ast = {}


def func_ast(f):
    """AST of the real function object, located by line number in the (re-read) source file of its module."""
    if f in _src_cache:
        return _src_cache[f]
    path = inspect.getsourcefile(f)
    if path not in _mod_ast:
        with open(path) as fh:
            tree = pyast.parse(fh.read(), path)
        idx = {}
        for n in pyast.walk(tree):
            if isinstance(n, (pyast.FunctionDef, pyast.Lambda)):
                idx.setdefault(n.lineno, n)
                for d in getattr(n, 'decorator_list', []):
                    idx.setdefault(d.lineno, n)
        _mod_ast[path] = idx
    first = f.__code__.co_firstlineno
    node = _mod_ast[path].get(first)
    if node is None or (isinstance(node, pyast.FunctionDef) and node.name != f.__name__):
        raise EngineError('cannot locate source of %s' % f.__qualname__)
    _src_cache[f] = node
    return node


def qualname(f):
    return '%s.%s' % (f.__module__, f.__qualname__)


class CallMixin(object):

    # ------------------------------------------------------------------ python-level calls
    def e_Call(self, st, e):
        line = getattr(e, 'lineno', 0)
        fr = self.frame()
        if isinstance(e.func, pyast.Name) and getattr(fr, 'spec_mode', False):
            n = e.func.id
            if n == 'old':
                return self.eval(fr.old_state_copy(), e.args[0])
            if n == 'all_calls':
                qual = self.const_str(self.eval(st, e.args[0]))
                expr = self.const_str(self.eval(st, e.args[1]))
                return V(mkB(self.calls_satisfy(st, qual, expr, fr.contract)), parse_spec('bool'))
            if n == 'forall_range':
                lo = Val.i(self.eval(st, e.args[0]).t)
                hi = Val.i(self.eval(st, e.args[1]).t)
                lam = e.args[2]
                if not isinstance(lam, pyast.Lambda) or len(lam.args.args) != 1:
                    raise EngineError('forall_range expects a one-argument lambda')
                k = fresh('q_' + lam.args.args[0].arg, IntS)
                s2 = State(dict(st.vars), dict(st.heap), And(st.guard, lo <= k, k < hi))
                s2.vars[lam.args.args[0].arg] = V(mkI(k), parse_spec('int'))
                n_as = len(self.assumes)
                body = self.truthy(s2, self.eval(s2, lam.body))
                side = self.assumes[n_as:]
                del self.assumes[n_as:]
                # side facts discovered while evaluating the body (typing of loaded values) hold for every k in range
                inner = z3.Implies(And(lo <= k, k < hi), z3.Implies(And(*side) if side else z3.BoolVal(True), body))
                for sf in side:
                    self.assumes.append(z3.ForAll([k], sf))
                return V(mkB(z3.ForAll([k], inner)), parse_spec('bool'))
            if n == 'is_fresh':
                # the object was allocated during this call (so no object reachable from the parameters is the same)
                xv = self.as_v(st, self.eval(st, e.args[0]))
                return V(mkB(And(Val.is_R(xv.t), Val.r(xv.t) > self.alloc0)), parse_spec('bool'))
            if n == 'same_list':
                # sufficient condition for list equality: same length and the same element sequence (as element arrays)
                la, lb = self.eval(st, e.args[0]), self.eval(st, e.args[1])
                la, lb = self.as_v(st, la), self.as_v(st, lb)
                ra, rb = Val.r(la.t), Val.r(lb.t)
                ea, eb = z3.Select(self.harr(st, '$ELEM'), ra), z3.Select(self.harr(st, '$ELEM'), rb)
                return V(mkB(And(Val.is_R(la.t), Val.is_R(lb.t), self.list_len(st, ra) == self.list_len(st, rb),
                                 self.list_off(st, ra) == self.list_off(st, rb), ea == eb)), parse_spec('bool'))
            if n == 'all_distinct':
                lv = self.eval(st, e.args[0])
                r = Val.r(lv.t)
                i, j = z3.Ints('qi qj')
                elems = z3.Select(self.harr(st, '$ELEM'), r)
                n_ = self.list_len(st, r)
                off_ = self.list_off(st, r)
                body = z3.Implies(And(0 <= i, i < j, j < n_), z3.Select(elems, off_ + i) != z3.Select(elems, off_ + j))
                return V(mkB(z3.ForAll([i, j], body)), parse_spec('bool'))
            if n == 'attr_of':
                return self.glist_attr(st, self.eval(st, e.args[0]), self.eval(st, e.args[1]))
            if n == 'attr_count':
                return self.glist_attr_count(st, self.eval(st, e.args[0]), self.eval(st, e.args[1]))
            if n == 'attr_before':
                return self.glist_attr_before(st, self.eval(st, e.args[0]), self.eval(st, e.args[1]), self.eval(st, e.args[2]))
            if n == 'each_call_preceded':
                a = self.const_str(self.eval(st, e.args[0]))
                b = self.const_str(self.eval(st, e.args[1]))
                return V(mkB(self.calls_preceded(a, b)), parse_spec('bool'))
            if n == 'calls_ordered':
                a = self.const_str(self.eval(st, e.args[0]))
                b = self.const_str(self.eval(st, e.args[1]))
                return V(mkB(self.calls_ordered(a, b)), parse_spec('bool'))
            if n == 'FOLD':
                name = self.const_str(self.eval(st, e.args[0]))
                k = self.eval(st, e.args[1])
                return self.fold_value(name, Val.i(k.t))
            if n == 'implies':
                c = self.truthy(st, self.eval(st, e.args[0]))

                def conseq(s):
                    saved = dict(s.vars)
                    self.refine(s, e.args[0], True)
                    try:
                        return V(mkB(self.truthy(s, self.eval(s, e.args[1]))), parse_spec('bool'))
                    finally:
                        s.vars.clear()
                        s.vars.update(saved)
                return self.branch(st, c, conseq, lambda s: V(TRUE, parse_spec('bool')))
        fv = self.eval(st, e.func)
        args = []
        for a in e.args:
            if isinstance(a, pyast.Starred):
                sv = self.eval(st, a.value)
                if isinstance(sv, PyTuple):
                    args.extend(sv.items)
                elif isinstance(sv, GList) and all(z3.is_true(x.guard) for x in sv.entries):
                    args.extend(x.val for x in sv.entries)
                else:
                    raise EngineError('starred argument')
            else:
                args.append(self.eval(st, a))
        kwargs = {}
        for k in e.keywords:
            if k.arg is None:
                kv = self.eval(st, k.value)
                if isinstance(kv, PyObj) and isinstance(kv.o, dict) and all(isinstance(x, str) for x in kv.o):
                    for kk, vv in kv.o.items():
                        kwargs[kk] = vv
                    continue
                raise EngineError('**kwargs call')
            kwargs[k.arg] = self.eval(st, k.value)
        return self.call_value(st, fv, args, kwargs, line)

    def assume_region_invariants(self, st, h, t, elem):
        """values read from a dictionary of an ownership region satisfy the (assumed, listed) data invariant of that region;
        only while executing code, never inside specifications"""
        from .model import REGION_INVARIANTS
        inv = REGION_INVARIANTS.get(h.region) if getattr(h, 'region', None) else None
        if not inv or getattr(self, '_in_region_inv', False) or any(getattr(f, 'spec_mode', False) for f in self.frames):
            return
        self._in_region_inv = True
        try:
            for expr in inv:
                env = dict(getattr(self, 'top_env', {}))
                env['VALUE'] = V(t, elem.with_opt(False) if elem is not None else None)
                s2 = State(dict(st.vars), dict(st.heap), And(st.guard, t != ABSENT))
                wd, truth = self.eval_spec(s2, expr, self.cur_contract, env, self.top_pre)
                self.assume(st, z3.Implies(t != ABSENT, z3.Implies(wd, truth)))
                self.trust('assumed data invariant of the values in region %s: %s' % (h.region, expr))
        finally:
            self._in_region_inv = False

    def call_value(self, st, fv, args, kwargs, line=0):
        if isinstance(fv, Closure):
            return self.call_closure(st, fv, args, kwargs)
        if isinstance(fv, Bound) and isinstance(fv.func, tuple) and fv.func[0] == 'dyn':
            items = fv.func[1]

            def rec(s, i):
                fn, ds = items[i]
                run = lambda s2: self.call_function(s2, fn, [fv.selfv] + args, kwargs, line=line)
                if i == len(items) - 1:
                    return run(s)
                cnd = Or(*[cls_of(Val.r(fv.selfv.t)) == UNIVERSE.cid(d) for d in ds])
                return self.branch(s, cnd, run, lambda s2: rec(s2, i + 1))
            return rec(st, 0)
        if isinstance(fv, Bound):
            if fv.func is None or not isinstance(fv.func, types.FunctionType):
                return self.call_method_builtin(st, fv.selfv, fv.name, args, kwargs, line)
            return self.call_function(st, fv.func, [fv.selfv] + args, kwargs, line=line)
        if isinstance(fv, PyObj) and isinstance(fv.o, tuple) and fv.o and fv.o[0] == 'dyncontract':
            return self.apply_contract(st, fv.o[1], None, [fv.o[2]] + list(args), kwargs, line)
        if isinstance(fv, PyObj) and isinstance(fv.o, tuple) and fv.o and fv.o[0] == 'classchoice':
            _, cnd, ca, cb = fv.o
            return self.branch(st, cnd, lambda s2: self.call_value(s2, ca, list(args), dict(kwargs), line),
                               lambda s2: self.call_value(s2, cb, list(args), dict(kwargs), line))
        if isinstance(fv, PyObj):
            o = fv.o
            from .cruntime import CFunction
            if isinstance(o, CFunction):
                c = self.registry.get('c:' + o.name)
                if c is None:
                    raise EngineError('call to C function %s has no contract (line %d)' % (o.name, line))
                return self.apply_contract(st, c, None, args, kwargs, line)
            if isinstance(o, types.FunctionType):
                return self.call_function(st, o, args, kwargs, line=line)
            if isinstance(o, types.MethodType):
                return self.call_function(st, o.__func__, [self.lift(o.__self__)] + args, kwargs, line=line)
            if inspect.isclass(o):
                return self.call_class(st, o, args, kwargs, line)
            return self.call_builtin(st, o, args, kwargs, line)
        if isinstance(fv, V) and fv.hint is not None and fv.hint.kind == 'opaque':
            self.trust('method calls on opaque objects (output streams etc.) have no effect on the modelled state')
            return V(fresh('opaque_call'), parse_spec('opaque'))
        raise EngineError('call of %r' % (fv,))

    def bind(self, fnode, args, kwargs, defaults_from=None, st=None):
        a = fnode.args
        if a.posonlyargs:
            raise EngineError('positional-only args in callee %s' % getattr(fnode, 'name', '<lambda>'))
        names = [x.arg for x in a.args]
        env = {}
        if len(args) > len(names):
            if not a.vararg:
                raise EngineError('too many arguments')
            env[a.vararg.arg] = PyTuple(args[len(names):])
            args = args[:len(names)]
        elif a.vararg:
            env[a.vararg.arg] = PyTuple([])
        for n, v in zip(names, args):
            env[n] = v
        known = set(names) | {x.arg for x in a.kwonlyargs}
        extra = {}
        for k, v in kwargs.items():
            if k in env:
                raise EngineError('duplicate argument')
            if k not in known:
                if not a.kwarg:
                    raise EngineError('unexpected keyword argument %s' % k)
                extra[k] = v
                continue
            env[k] = v
        if a.kwarg:
            env[a.kwarg.arg] = PyObj(dict(extra))
        ndef = len(a.defaults)
        for i, n in enumerate(names):
            if n not in env:
                di = i - (len(names) - ndef)
                if di < 0:
                    raise EngineError('missing argument %s' % n)
                d = a.defaults[di]
                env[n] = self.eval(st, d)
        for kw, d in zip(a.kwonlyargs, a.kw_defaults):
            if kw.arg not in env:
                env[kw.arg] = self.eval(st, d)
        return env

    def run_body(self, st, fnode, env, module, closure_env, name, extra_globals=None):
        """Execute a function body in a fresh frame; returns merged result; st is updated to the
        merged post-state.  Exceptional exits are propagated to the caller frame."""
        if self.depth > self.MAX_INLINE_DEPTH:
            raise EngineError('inline depth exceeded in %s' % name)
        fr = Frame(name, module, closure_env)
        fr.extra_globals = extra_globals
        fr.c_mode = getattr(self, 'c_mode', False) and getattr(module, '__name__', '') == 'c_translation_unit'
        caller_vars = st.vars
        st.vars = env
        self.frames.append(fr)
        self.depth += 1
        try:
            if isinstance(fnode, pyast.Lambda):
                v = self.eval(st, fnode.body)
                if not st.dead():
                    fr.exits.append(Exit('return', st.copy(), value=v))
                st.guard = z3.BoolVal(False)
            else:
                self.exec_block(st, fnode.body)
                if not st.dead():
                    fr.exits.append(Exit('return', st.copy(), value=self.lift(None)))
        finally:
            self.depth -= 1
            self.frames.pop()
        rets = [x for x in fr.exits if x.kind == 'return' and not x.state.dead()]
        others = [x for x in fr.exits if x.kind != 'return']
        for x in others:
            if x.kind in ('break', 'continue'):
                raise EngineError('loop exit escaped function')
        result = None
        cur = State(guard=z3.BoolVal(False))
        if self.depth == 0:
            self.top_returns = [(x.state.copy(), x.value) for x in rets]
        if any(isinstance(x.value, V) for x in rets) and any(isinstance(x.value, (GList, PyTuple)) for x in rets):
            for x in rets:
                if isinstance(x.value, (GList, PyTuple)):
                    x.value = self.as_v(x.state, x.value)
        for x in rets:
            if cur.dead():
                cur = x.state
                result = x.value
            else:
                sel = x.state.guard
                result = self.merge_values(sel, x.value, result)
                cur = self.merge_states(None, x.state, cur)
        st.heap, st.guard = cur.heap, cur.guard
        st.vars = caller_vars
        return result, others

    def propagate(self, others):
        if self.frames:
            self.frame().exits.extend(others)
        else:
            self.top_exits.extend(others)

    def call_closure(self, st, c, args, kwargs):
        cc = self.registry.get(c.qual) if c.qual and c.qual != '<lambda>' else None
        if cc is not None:
            # a nested function under (assumed) contract, e.g. a helper abstracted as an uninterpreted pure function
            return self.apply_contract(st, cc, None, args, kwargs, getattr(c.node, 'lineno', 0))
        env = self.bind(c.node, args, kwargs, st=st)
        res, others = self.run_body(st, c.node, env, c.module, c.env, c.qual)
        for x in others:
            x.state.vars = st.vars
        self.propagate(others)
        return res if res is not None else self.lift(None)

    def call_cruntime(self, st, name, args, line):
        from . import cruntime
        if name == '__newcell':
            r = self.new_ref(st, cruntime.Cell)
            v = self.as_v(st, args[0]) if args else self.lift(0)
            self.store(st, r, 'val', v.t)
            return V(mkR(r), TypeSpec('obj', (cruntime.Cell,)))
        if name == '__uninit':
            return V(fresh('uninit'), None)
        if name == '__truth':
            v = args[0]
            if isinstance(v, V):
                h = v.hint
                if h is not None and h.kind == 'bool' and not h.opt:
                    return v
                if h is not None and h.kind == 'int' and not h.opt:
                    return V(mkB(Val.i(v.t) != 0), parse_spec('bool'))
                if h is not None and h.kind in ('obj', 'list') :
                    return V(mkB(Not(Val.is_N(v.t))), parse_spec('bool'))
                t = v.t
                return V(mkB(z3.If(Val.is_B(t), Val.b(t), z3.If(Val.is_I(t), Val.i(t) != 0, Not(Val.is_N(t))))), parse_spec('bool'))
            return V(mkB(self.truthy(st, v)), parse_spec('bool'))
        if name == '__cbool':
            return V(mkI(z3.If(self.truthy(st, args[0]), 1, 0)), parse_spec('int'))
        if name == '__cast':
            v, tn = args
            tname = self.const_str(tn)
            spec = parse_spec(tname + '?')
            self.trust('C casts between GIrNode structs follow the node type tag (assumed)')
            if isinstance(v, V):
                self.assume(st, spec.assumption(v.t))
                opt = v.hint.opt if v.hint is not None and v.hint.kind == 'obj' else (v.hint is not None)
                return V(v.t, spec.with_opt(opt))
            return v
        if name == '__align_mask':
            x, a = args
            xi, ai = Val.i(x.t), Val.i(a.t)
            pow2 = Or(*[ai == k for k in (1, 2, 4, 8, 16, 32, 64)])
            self.oblige(st, 'align.power_of_two@%d' % line, pow2, 'GI_ALIGN: the alignment is a power of two (<= 64)')
            self.oblige(st, 'align.nonnegative@%d' % line, xi >= 0, 'GI_ALIGN: the rounded value is not negative')
            return V(mkI(xi - (xi % ai)), parse_spec('int'))
        if name == '__elemref':
            uf = self.get_uf('c_elemref', Val, IntS, Val)
            base, off = args
            t = uf(base.t, Val.i(off.t))
            self.trust('&buffer[offset] is an abstract location: a function of (buffer, offset)')
            self.assume(st, Val.is_R(t))
            self.known_ref(st, t)
            return V(t, None)
        if name == '__ptradd':
            pv, k = args
            self.trust('arrays of structs: consecutive elements are consecutive references (pointer arithmetic on references)')
            return V(mkR(Val.r(pv.t) + Val.i(k.t)), pv.hint)
        if name == '__ptrint':
            return V(mkI(Val.r(args[0].t)), parse_spec('int'))
        if name == '__newstruct':
            from .model import _lookup_class
            cls = _lookup_class(self.const_str(args[0]))
            r = self.new_ref(st, cls)
            return V(mkR(r), TypeSpec('obj', (cls,), exact=True))
        if name == '__cdiv':
            a, b = args
            ai, bi = Val.i(a.t), Val.i(b.t)
            self.raise_exit(st, ZeroDivisionError, bi == 0, line)
            q = z3.If(ai >= 0, z3.If(bi > 0, ai / bi, -(ai / (-bi))), z3.If(bi > 0, -((-ai) / bi), (-ai) / (-bi)))
            return V(mkI(q), parse_spec('int'))
        raise EngineError('C runtime function %s' % name)

    def call_function(self, st, f, args, kwargs, inline=False, line=0):
        if getattr(f, '__module__', '') == 'givc.cruntime':
            return self.call_cruntime(st, f.__name__, args, line)
        f = inspect.unwrap(f) if not hasattr(f, '__wrapped__') or not getattr(f, '_givc_keep', False) else f
        q = qualname(f)
        mode = 'inline' if inline else self.registry.mode_for(q, self.cur_contract)
        if mode is None and (f.__module__.startswith('contracts') or f.__name__ == '__init__'):
            mode = 'inline'
        if mode is None and f.__module__ in ('operator',):
            return self.call_builtin(st, f, args, kwargs, line)
        if mode is None and self.cur_contract is not None and '.' not in f.__qualname__ and \
                self.cur_contract.qual.startswith(f.__module__ + '.') and len(self.cur_contract.qual[len(f.__module__) + 1:].split('.')) == 1:
            # a module-level helper of the same module without a contract of its own (e.g. extracted by a refactoring)
            # is executed inline; reported in the evidence
            mode = 'inline'
        if mode is None:
            raise EngineError('call to %s has neither contract nor inline mark (line %d)' % (q, line))
        if mode == 'inline':
            self.used_inline.add(q)
            fnode = func_ast(f)
            mod = inspect.getmodule(f)
            env = self.bind(fnode, args, kwargs, st=st)
            res, others = self.run_body(st, fnode, env, mod, None, q)
            for x in others:
                x.state.vars = st.vars
            self.propagate(others)
            return res if res is not None else self.lift(None)
        c = self.registry.get(q)
        return self.apply_contract(st, c, f, args, kwargs, line)

    def call_class(self, st, cls, args, kwargs, line):
        if issubclass(cls, BaseException):
            return PyObj(cls)
        if cls in (str, int, bool, list, set, dict, tuple, len, sorted, enumerate, zip, range, reversed, map, filter):
            return self.call_builtin(st, cls, args, kwargs, line)
        import collections
        if issubclass(cls, tuple) and hasattr(cls, '_fields'):
            # collections.namedtuple: an immutable tuple whose items can also be read by field name
            fields = tuple(cls._fields)
            items = list(args)
            for fname in fields[len(items):]:
                if fname not in kwargs:
                    raise EngineError('namedtuple %s: missing field %s' % (cls.__name__, fname))
                items.append(kwargs[fname])
            if len(items) != len(fields):
                raise EngineError('namedtuple %s: wrong number of fields' % cls.__name__)
            return PyTuple(items, fields=fields)
        if cls is collections.OrderedDict and not args:
            return self.new_dict(st, UNIVERSE.classes[UNIVERSE.register(collections.OrderedDict) - 1])
        if cls not in UNIVERSE.ids:
            raise EngineError('instantiation of unregistered class %r' % (cls,))
        q = '%s.%s' % (cls.__module__, cls.__qualname__)
        mode = self.registry.mode_for(q, self.cur_contract)
        if issubclass(cls, dict):
            # a dict subclass (e.g. GtkDocAnnotations): starts out as an empty mapping
            dv = self.new_dict(st, cls)
            r = Val.r(dv.t)
            obj = V(dv.t, TypeSpec('dict', (cls,), False, None, exact=True))
        else:
            r = self.new_ref(st, cls)
            obj = V(mkR(r), TypeSpec('obj', (cls,), exact=True))
        init = None
        for k in cls.__mro__:
            if '__init__' in vars(k):
                init = vars(k)['__init__']
                break
        if init is not None and isinstance(init, types.FunctionType):
            self.call_function(st, init, [obj] + args, kwargs, inline=True, line=line)
        return obj

    # ------------------------------------------------------------------ builtins
    def call_builtin(self, st, o, args, kwargs, line):
        import operator, collections
        if o is isinstance:
            v, cl = args
            classes = [x.o for x in cl.items] if isinstance(cl, PyTuple) else [cl.o]
            if isinstance(v, PyTuple):
                return self.lift(any(issubclass(tuple, c) for c in classes if inspect.isclass(c)))
            if isinstance(v, GList):
                return self.lift(any(issubclass(list, c) for c in classes))
            if isinstance(v, (PyObj, Closure, Bound)):
                return self.lift(isinstance(getattr(v, 'o', None), tuple(classes)))
            return V(mkB(self.isinstance_hinted(v, classes)), parse_spec('bool'))
        if o is len:
            return V(mkI(self.length(st, args[0], line)), parse_spec('int'))
        if o is str:
            if not args:
                return self.lift('')
            return V(mkS(self.to_str(st, args[0])), parse_spec('str'))
        if o is bool:
            return V(mkB(self.truthy(st, args[0])), parse_spec('bool'))
        if o is int:
            v = args[0]
            if v.hint is not None and v.hint.kind == 'int' and not v.hint.opt:
                return v
            if v.hint is not None and v.hint.kind == 'float' and not v.hint.opt:
                # truncation towards zero of a scaled value
                from .model import FLOAT_SCALE
                f = Val.i(v.t)
                q = fresh('trunc', IntS)
                self.assume(st, z3.If(f >= 0, And(q * FLOAT_SCALE <= f, f < (q + 1) * FLOAT_SCALE),
                                      And((q - 1) * FLOAT_SCALE < f, f <= q * FLOAT_SCALE)))
                return V(mkI(q), parse_spec('int'))
            s = Val.s(v.t)
            iv, canonical = self.str_to_int(s)
            self.raise_exit(st, TypeError, Not(Or(Val.is_S(v.t), Val.is_I(v.t))), line)
            self.raise_exit(st, ValueError, And(Val.is_S(v.t), Not(canonical)), line)
            self.trust('int(str): defined on canonical decimal strings only (other accepted spellings such as "+5", " 5", "05" are treated as ValueError)')
            return V(mkI(z3.If(Val.is_I(v.t), Val.i(v.t), iv)), parse_spec('int'))
        if o is hasattr:
            return self.hasattr(st, args[0], self.const_str(args[1]))
        if o is getattr:
            name = self.const_str(args[1])
            if name is None:
                # getattr(obj, <computed name>): a method chosen at run time; all candidates are abstracted by ONE assumed contract
                # registered as '<module>.<Class>.<dynamic>' (its note says which family of methods it stands for)
                h0 = args[0].hint if isinstance(args[0], V) else None
                if h0 is not None and h0.kind == 'obj' and len(args) == 2:
                    for cls in h0.classes:
                        for k in cls.__mro__:
                            c0 = self.registry.get('%s.%s.<dynamic>' % (k.__module__, k.__qualname__))
                            if c0 is not None:
                                self.trust('getattr with a computed name: every method it may select obeys the assumed contract %s' % c0.qual)
                                return PyObj(('dyncontract', c0, args[0]))
                raise EngineError('getattr with non-literal name')
            if len(args) == 3:
                h = self.truthy(st, self.hasattr(st, args[0], name))
                # a literal list as the default (getattr(x, 'items', [])) becomes a heap list so that it can merge with the attribute
                return self.branch(st, h, lambda s: self.getattr(s, args[0], name, line),
                                   lambda s: self.as_v(s, args[2]) if isinstance(args[2], GList) else args[2])
            return self.getattr(st, args[0], name, line)
        if o is print:
            return self.lift(None)
        if o in (list, tuple):
            if not args:
                return GList([])
            v = args[0]
            if isinstance(v, PyObj) and isinstance(v.o, tuple) and len(v.o) == 2 and v.o[0] is map and len(v.o[1]) == 2 \
                    and isinstance(v.o[1][1], V) and v.o[1][1].hint is not None and v.o[1][1].hint.kind == 'list':
                return self.list_of_map(st, v.o[1][0], v.o[1][1], line)
            if isinstance(v, PyTuple):
                return GList([GEntry(z3.BoolVal(True), x) for x in v.items]) if o is list else v
            if isinstance(v, GList):
                if o is tuple:
                    if all(z3.is_true(simp(en.guard)) or en.guard.eq(st.guard) for en in v.entries):
                        return PyTuple([en.val for en in v.entries])
                    raise EngineError('tuple() of a conditionally built list')
                return v.copy()
            if isinstance(v, PyObj) and isinstance(v.o, tuple) and v.o and v.o[0] == 'dictview':
                # list(d.values()) / list(d.keys()): a fresh list of the dict's size; the elements are the dict's values / keys in
                # some order (left unconstrained apart from their declared type)
                view, dv = v.o[1], v.o[2]
                if view == 'items':
                    raise EngineError('list(d.items())')
                nr = self.new_ref(st, list)
                st.heap['$LEN'] = z3.Store(self.harr(st, '$LEN'), nr, self.list_len(st, Val.r(dv.t)))
                st.heap['$ELEM'] = z3.Store(self.harr(st, '$ELEM'), nr, fresh('listofview', z3.ArraySort(IntS, Val)))
                st.heap['$OFF'] = z3.Store(self.harr(st, '$OFF'), nr, z3.IntVal(0))
                self.trust('list(dict view): elements in unspecified order (unconstrained apart from the declared type)')
                es = parse_spec('str') if view == 'keys' else dv.hint.elem
                from .model import TypeSpec
                return V(mkR(nr), TypeSpec('list', (), False, es))
            if isinstance(v, PyObj) and isinstance(v.o, tuple) and len(v.o) == 2 and callable(v.o[0]):
                # list(map(f, <constants>)) / list(zip(...)) / list(range(...)) over concrete items
                items = self.iter_items(st, v)
                if items is None:
                    raise EngineError('list() of a lazy iterable over a symbolic sequence')
                return GList([GEntry(z3.BoolVal(True), x) for x in items]) if o is list else PyTuple(items)
            if isinstance(v, PyObj) and isinstance(v.o, (list, tuple, set, frozenset, dict)):
                return self.lift(list(v.o))
            if isinstance(v, V) and v.hint is not None and v.hint.kind in ('list', 'tuple'):
                return self.copy_list(st, v)
            if isinstance(v, V):
                # list(<set or other iterable>): a fresh list of the same size, element order unknown
                ok = isinstance_term(v.t, (list, tuple, set, dict))
                self.raise_exit(st, TypeError, Not(ok), line)
                nr = self.new_ref(st, list)
                st.heap['$LEN'] = z3.Store(self.harr(st, '$LEN'), nr, self.list_len(st, Val.r(v.t)))
                st.heap['$ELEM'] = z3.Store(self.harr(st, '$ELEM'), nr, fresh('listof', z3.ArraySort(IntS, Val)))
                st.heap['$OFF'] = z3.Store(self.harr(st, '$OFF'), nr, z3.IntVal(0))
                self.trust('list(set): elements in unspecified order (unconstrained)')
                return V(mkR(nr), parse_spec('list'))
            raise EngineError('list() of %r' % (v,))
        if o is set:
            if not args:
                return self.new_dict(st, set)
            v = args[0]
            if isinstance(v, (PyTuple,)):
                return v
            if isinstance(v, GList) and not v.entries:
                return self.new_dict(st, set)
            raise EngineError('set() of %r' % (v,))
        if o is dict and not args:
            return self.new_dict(st)
        if o is sorted:
            return self.call_sorted(st, args, kwargs, line)
        if o in (enumerate, zip, range, reversed, map, filter, iter):
            return PyObj((o, args))
        if o is min or o is max:
            if len(args) == 2 and all(isinstance(a, V) for a in args):
                a, b = args
                lt = self.compare(st, pyast.Lt(), b, a) if o is min else self.compare(st, pyast.Lt(), a, b)
                return self.merge_values(lt, b, a)
        if o in (operator.eq, operator.ne, operator.lt, operator.gt, operator.le, operator.ge):
            opn = {operator.eq: pyast.Eq, operator.ne: pyast.NotEq, operator.lt: pyast.Lt,
                   operator.gt: pyast.Gt, operator.le: pyast.LtE, operator.ge: pyast.GtE}[o]()
            return V(mkB(self.compare(st, opn, args[0], args[1])), parse_spec('bool'))
        if o is id:
            return V(mkI(Val.r(args[0].t)), parse_spec('int'))
        import collections as _c
        if o in (dict.__init__, _c.OrderedDict.__init__) and len(args) == 1 and not kwargs:
            return self.lift(None)      # the base initialiser of an (already empty) mapping, without items
        q = getattr(o, '__module__', '?') or '?'
        name = '%s.%s' % (q, getattr(o, '__qualname__', getattr(o, '__name__', repr(o))))
        mode = self.registry.mode_for(name, self.cur_contract)
        if mode is not None:
            return self.apply_contract(st, self.registry.get(name), o, args, kwargs, line)
        raise EngineError('unsupported builtin/external call %s (line %d)' % (name, line))

    def isinstance_hinted(self, v, classes):
        """isinstance with static pruning from the value's type hint."""
        h = v.hint
        classes = tuple(classes)
        if h is not None:
            prim = {'str': str, 'int': int, 'bool': bool, 'none': type(None), 'list': list, 'tuple': tuple,
                    'set': set}
            if h.kind in prim:
                yes = any(inspect.isclass(c) and issubclass(prim[h.kind], c) for c in classes)
                if not h.opt:
                    return z3.BoolVal(yes)
                none_yes = type(None) in classes
                if yes == none_yes:
                    return z3.BoolVal(yes)
                return Val.is_N(v.t) if none_yes else Not(Val.is_N(v.t))
            if h.kind == 'obj' or (h.kind == 'dict' and h.classes):
                subs = []
                for c in h.classes:
                    subs.extend(UNIVERSE.subclasses(c))
                yes = [d for d in subs if issubclass(d, classes)]
                if not yes:
                    return Val.is_N(v.t) if (h.opt and type(None) in classes) else z3.BoolVal(False)
                if len(yes) == len(subs):
                    if not h.opt:
                        return z3.BoolVal(True)
                    return z3.BoolVal(True) if type(None) in classes else Not(Val.is_N(v.t))
                r = Val.r(v.t)
                core = Or(*[cls_of(r) == UNIVERSE.cid(d) for d in dict.fromkeys(yes)])
                if h.opt:
                    core = And(Val.is_R(v.t), core)
                    if type(None) in classes:
                        core = Or(Val.is_N(v.t), core)
                return core
        return isinstance_term(v.t, classes)

    def hasattr(self, st, v, name):
        if isinstance(v, PyObj):
            return self.lift(hasattr(v.o, name))
        if not isinstance(v, V):
            return self.lift(False)
        # class-based: attribute exists iff the dynamic class defines it (class attr / property / __init__ field)
        alts = []
        missing = []
        for c in UNIVERSE.classes:
            if c in (list, tuple, dict, set):
                continue
            if self.class_has_attr(c, name):
                alts.append(cls_of(Val.r(v.t)) == UNIVERSE.cid(c))
            else:
                missing.append(c)
        r = Val.r(v.t)
        dyn = z3.BoolVal(False)
        if not name.startswith('__'):
            h0 = z3.Select(self.init_arr(name), r)
            if missing:
                self.assumes.append(z3.Implies(And(r <= self.alloc0, Or(*[cls_of(r) == UNIVERSE.cid(d) for d in missing])),
                                               h0 == ABSENT))
            self.assumes.append(z3.Implies(r > self.alloc0, h0 == ABSENT))
            dyn = self.load(st, r, name) != ABSENT
        return V(mkB(And(Val.is_R(v.t), Or(Or(*alts), dyn))), parse_spec('bool'))

    _attr_cache = {}

    def class_has_attr(self, c, name):
        key = (c, name)
        if key in self._attr_cache:
            return self._attr_cache[key]
        res = False
        from .model import SCHEMA
        try:
            inspect.getattr_static(c, name)
            res = True
        except AttributeError:
            if any((k, name) in SCHEMA for k in c.__mro__):
                res = True
            for k in c.__mro__:
                init = vars(k).get('__init__')
                if isinstance(init, types.FunctionType):
                    try:
                        node = func_ast(init)
                    except (OSError, TypeError):
                        continue
                    for n in pyast.walk(node):
                        if isinstance(n, pyast.Attribute) and isinstance(n.ctx, pyast.Store) and n.attr == name \
                                and isinstance(n.value, pyast.Name) and n.value.id == 'self':
                            res = True
        self._attr_cache[key] = res
        return res

    def length(self, st, v, line=0):
        if isinstance(v, PyTuple):
            return z3.IntVal(len(v.items))
        if isinstance(v, GList):
            return z3.Sum([z3.If(e.guard, 1, 0) for e in v.entries]) if v.entries else z3.IntVal(0)
        if isinstance(v, PyObj):
            return z3.IntVal(len(v.o))
        h = v.hint
        if h is not None and h.kind == 'str':
            if h.opt:
                self.raise_exit(st, TypeError, Val.is_N(v.t), line)
            return z3.Length(Val.s(v.t))
        if h is not None and h.kind in ('list', 'tuple', 'dict', 'set'):
            if h.opt:
                self.raise_exit(st, TypeError, Val.is_N(v.t), line)
            n = self.list_len(st, Val.r(v.t))
            self.assume(st, n >= 0)
            return n
        self.raise_exit(st, TypeError, Not(Or(Val.is_S(v.t), Val.is_R(v.t))), line)
        n = self.list_len(st, Val.r(v.t))
        self.assume(st, z3.Implies(Val.is_R(v.t), n >= 0))
        return z3.If(Val.is_S(v.t), z3.Length(Val.s(v.t)), n)

    def copy_list(self, st, v):
        r = Val.r(v.t)
        nr = self.new_ref(st, list)
        st.heap['$LEN'] = z3.Store(self.harr(st, '$LEN'), nr, self.list_len(st, r))
        el = self.harr(st, '$ELEM')
        st.heap['$ELEM'] = z3.Store(el, nr, z3.Select(el, r))
        st.heap['$OFF'] = z3.Store(self.harr(st, '$OFF'), nr, self.list_off(st, r))
        return V(mkR(nr), TypeSpec('list', (), False, v.hint.elem))

    def call_sorted(self, st, args, kwargs, line):
        """sorted(L, key=f) for a symbolic list: a new list, a copy of L that is then sorted like list.sort (a
        permutation whose last element has a maximal key; see list_sort)"""
        src = args[0]
        if isinstance(src, (GList, PyTuple)):
            src = self.as_v(st, src)
        if not (isinstance(src, V) and src.hint is not None and src.hint.kind in ('list', 'tuple')) or 'reverse' in kwargs:
            raise EngineError('sorted() of %r' % (src,))
        r = Val.r(src.t)
        nr = self.new_ref(st, list)
        n = self.list_len(st, r)
        st.heap['$LEN'] = z3.Store(self.harr(st, '$LEN'), nr, n)
        st.heap['$OFF'] = z3.Store(self.harr(st, '$OFF'), nr, self.list_off(st, r))
        st.heap['$ELEM'] = z3.Store(self.harr(st, '$ELEM'), nr, z3.Select(self.harr(st, '$ELEM'), r))
        copy = V(mkR(nr), TypeSpec('list', (), False, src.hint.elem))
        self.list_sort(st, copy, {'key': kwargs['key']} if 'key' in kwargs else {}, line)
        return copy

    # ------------------------------------------------------------------ methods of builtin types
    def call_method_builtin(self, st, selfv, name, args, kwargs, line):
        if isinstance(selfv, V):
            import re as _re
            t = simp(selfv.t)
            if z3.is_app(t) and t.decl().name() == 'R' and z3.is_int_value(t.arg(0)):
                for (ref, obj) in self.conc.values():
                    if ref == t.arg(0).as_long() and isinstance(obj, _re.Pattern):
                        selfv = PyObj(obj)
        if isinstance(selfv, GList):
            return self.glist_method(st, selfv, name, args, line)
        if isinstance(selfv, PyTuple):
            if name == 'index' or name == 'count':
                raise EngineError('tuple.%s' % name)
        if isinstance(selfv, PyObj):
            o = selfv.o
            if isinstance(o, dict) and name == 'get':
                return self.pydict_get(st, o, args[0], args[1] if len(args) > 1 else None, line)
            if isinstance(o, dict) and name in ('items', 'keys', 'values'):
                return self.lift(list(getattr(o, name)()))
            if isinstance(o, dict) and name == 'pop' and args and self.const_str(args[0]) is not None:
                k = self.const_str(args[0])
                if k in o:
                    return o.pop(k)
                if len(args) > 1:
                    return args[1]
                self.raise_exit(st, KeyError, None, line)
                return self.lift(None)
            if isinstance(o, str):
                return self.str_method(st, self.lift(o), name, args, kwargs, line)
            import re as _re
            if isinstance(o, _re.Pattern) and name in ('search', 'match', 'fullmatch') and len(args) == 1:
                from .regex import pattern_to_z3
                rx = pattern_to_z3(o.pattern, o.flags & (_re.VERBOSE | _re.DOTALL | _re.IGNORECASE | _re.MULTILINE))
                if o.flags & (_re.IGNORECASE | _re.MULTILINE):
                    raise EngineError('regex flags IGNORECASE/MULTILINE')
                full = z3.Full(z3.ReSort(StrS))
                if name == 'search':
                    lang = z3.Concat(full, rx, full)
                elif name == 'match':
                    lang = z3.Concat(rx, full)
                else:
                    lang = rx
                self.trust("python `re` = regular-language semantics (only the truth value of a match is modelled)")
                hit = z3.InRe(Val.s(args[0].t), lang)
                return V(Ite(hit, mkB(True), NONE), None)
            raise EngineError('method %s on python object %r' % (name, type(o)))
        h = selfv.hint
        if h is not None and h.kind == 'obj':
            for cls in h.classes:
                q = '%s.%s.%s' % (cls.__module__, cls.__qualname__, name)
                if self.registry.get(q) is not None:
                    return self.apply_contract(st, self.registry.get(q), None, [selfv] + args, kwargs, line)
        if h is not None and h.kind == 'opaque':
            self.trust('method calls on opaque objects (output streams etc.) have no effect on the modelled state')
            return V(fresh('opaque_' + name), None)
        if h is None:
            raise EngineError('method %s on value without static type' % name)
        if h.kind == 'str':
            return self.str_method(st, selfv, name, args, kwargs, line)
        if h.kind in ('dict',):
            return self.dict_method(st, selfv, name, args, line)
        if h.kind == 'set':
            return self.set_method(st, selfv, name, args, line)
        if h.kind in ('list', 'tuple'):
            if name == 'sort':
                return self.list_sort(st, selfv, kwargs, line)
            return self.list_method(st, selfv, name, args, line)
        raise EngineError('method %s on %r' % (name, h))

    def glist_method(self, st, gl, name, args, line):
        if name == 'append':
            gl.entries.append(GEntry(self.local_guard(st), args[0]))
            return self.lift(None)
        if name == 'insert':
            ci = self.const_int(args[0])
            if ci != 0:
                raise EngineError('list.insert at non-zero index')
            gl.entries.insert(0, GEntry(self.local_guard(st), args[1]))
            return self.lift(None)
        if name == 'extend':
            other = args[0]
            if isinstance(other, PyTuple):
                for x in other.items:
                    gl.entries.append(GEntry(self.local_guard(st), x))
                return self.lift(None)
            if isinstance(other, GList):
                for en in other.entries:
                    gl.entries.append(GEntry(And(self.local_guard(st), en.guard), en.val))
                return self.lift(None)
            raise EngineError('list.extend with %r' % (other,))
        if name == 'copy':
            return gl.copy()
        raise EngineError('method %s on local list' % name)

    def _pairs(self, gl):
        """entries of a guarded attribute list as (guard, key V, value V)"""
        if isinstance(gl, PyTuple):
            gl = GList([GEntry(z3.BoolVal(True), x) for x in gl.items])
        if not isinstance(gl, GList):
            raise EngineError('attr_of: attribute list is not a locally built list')
        out = []
        for en in gl.entries:
            if not (isinstance(en.val, PyTuple) and len(en.val.items) == 2):
                raise EngineError('attr_of: entry is not a (name, value) pair')
            out.append((en.guard, en.val.items[0], en.val.items[1]))
        return out

    def glist_attr(self, st, gl, name):
        """value of the first present (name, value) pair with that name, else None"""
        res = self.lift(None)
        for g, k, v in reversed(self._pairs(gl)):
            c = And(g, k.t == name.t)
            res = V(Ite(c, v.t, res.t), None)
        return res

    def glist_attr_count(self, st, gl, name):
        terms = [z3.If(And(g, k.t == name.t), 1, 0) for g, k, v in self._pairs(gl)]
        return V(mkI(z3.Sum(terms) if terms else z3.IntVal(0)), parse_spec('int'))

    def glist_attr_before(self, st, gl, a, b):
        """some present pair named a stands before some present pair named b"""
        ps = self._pairs(gl)
        alts = []
        for i, (g1, k1, _) in enumerate(ps):
            for (g2, k2, _) in ps[i + 1:]:
                alts.append(And(g1, g2, k1.t == a.t, k2.t == b.t))
        return V(mkB(Or(*alts)), parse_spec('bool'))

    def local_guard(self, st):
        """Guard relative to the function entry (guards of guarded-list entries are absolute)."""
        return st.guard

    def dict_method(self, st, d, name, args, line):
        r = Val.r(d.t)
        h = d.hint
        if h.opt:
            self.raise_exit(st, AttributeError, Val.is_N(d.t), line)
        if name == 'get':
            t = self.dict_get(st, r, args[0].t)
            elem = h.elem_for_key(self.const_str(args[0]))
            if elem is not None:
                self.assume(st, z3.Implies(t != ABSENT, elem.assumption(t)))
            self.known_ref(st, t)
            self.assume_region_invariants(st, h, t, elem)
            default = args[1] if len(args) > 1 else self.lift(None)
            hint = None
            if elem is not None:
                hint = self.join_hints(elem, default.hint) if isinstance(default, V) else None
            if isinstance(default, V):
                return V(Ite(t == ABSENT, default.t, t), hint)
            return self.branch(st, t == ABSENT, lambda s: default, lambda s: V(t, elem))
        if name == 'pop':
            t = self.dict_get(st, r, args[0].t)
            if len(args) < 2:
                self.raise_exit(st, KeyError, t == ABSENT, line)
                res = V(t, h.elem)
            else:
                res = V(Ite(t == ABSENT, args[1].t, t), None)
            if h.elem is not None:
                self.assume(st, z3.Implies(t != ABSENT, h.elem.assumption(t)))
            self.dict_del(st, r, args[0].t)
            return res
        if name in ('items', 'keys', 'values'):
            return PyObj(('dictview', name, d))
        if name == 'copy' and not args:
            # a shallow copy: a new mapping object of the same class with the same contents; attributes of a
            # subclass instance (set by its __init__ / __copy__) hold some value of their declared type
            import collections
            cls = h.classes[0] if h.classes else dict
            nv = self.new_dict(st, cls)
            nr = Val.r(nv.t)
            st.heap['$DMAP'] = z3.Store(self.harr(st, '$DMAP'), nr, z3.Select(self.harr(st, '$DMAP'), r))
            st.heap['$LEN'] = z3.Store(self.harr(st, '$LEN'), nr, self.list_len(st, r))
            from .model import SCHEMA
            for (kk, fname) in list(SCHEMA):
                if kk in cls.__mro__:
                    fs = field_spec((cls,), fname)
                    fv = fresh('copied_' + fname)
                    if fs is not None:
                        self.assume(st, fs.assumption(fv))
                    self.known_ref(st, fv)
                    self.store(st, nr, fname, fv)
            return V(nv.t, TypeSpec(h.kind, h.classes, False, h.elem, h.keyed, h.exact, h.region))
        if name == 'update':
            raise EngineError('dict.update')
        raise EngineError('dict method %s' % name)

    def set_method(self, st, s, name, args, line):
        r = Val.r(s.t)
        if name == 'add':
            self.dict_set(st, r, args[0].t, TRUE)
            return self.lift(None)
        if name == 'update':
            raise EngineError('set.update')
        raise EngineError('set method %s' % name)

    def list_method(self, st, l, name, args, line):
        r = Val.r(l.t)
        if l.hint.opt:
            self.raise_exit(st, AttributeError, Val.is_N(l.t), line)
        if name == 'append':
            hv = self.as_v(st, args[0])
            es = l.hint.elem
            if es is not None and not isinstance(es, (list, tuple)) and (hv.hint is None or repr(hv.hint) != repr(es)):
                # declared element types are assumed at loads, so they are obligations at stores
                self.oblige(st, 'elemtype.append@%d' % line, self.spec_formula(st, es, hv.t),
                            'the appended value has the declared element type %r of the list' % (es,))
            n = self.list_len(st, r)
            el = self.harr(st, '$ELEM')
            new_inner = z3.Store(z3.Select(el, r), self.list_off(st, r) + n, hv.t)
            if hv.hint is not None and hv.hint.kind == 'str' and not hv.hint.opt:
                # defining equation of ''.join at an append:  ''.join(L + [x]) == ''.join(L) + x
                ujoin = self.get_uf('str_join', StrS, z3.ArraySort(IntS, Val), IntS, IntS, StrS)
                e0 = z3.StringVal('')
                off0 = self.list_off(st, r)
                self.assume(st, ujoin(e0, new_inner, off0, n + 1) == z3.Concat(ujoin(e0, z3.Select(el, r), off0, n), Val.s(hv.t)))
            st.heap['$ELEM'] = z3.Store(el, r, new_inner)
            st.heap['$LEN'] = z3.Store(self.harr(st, '$LEN'), r, n + 1)
            return self.lift(None)
        if name == 'remove' and len(args) == 1:
            # removes the first element equal to the argument: modelled coarsely - the list becomes one element shorter
            # with unspecified contents (ValueError when no element is equal is a possible outcome)
            n = self.list_len(st, r)
            self.assume(st, n >= 0)
            may = fresh('remove_not_found', BoolS)
            self.raise_exit(st, ValueError, Or(n == 0, may), line)
            st.heap['$ELEM'] = z3.Store(self.harr(st, '$ELEM'), r, fresh('after_remove', z3.ArraySort(IntS, Val)))
            st.heap['$OFF'] = z3.Store(self.harr(st, '$OFF'), r, z3.IntVal(0))
            st.heap['$LEN'] = z3.Store(self.harr(st, '$LEN'), r, n - 1)
            self.trust('list.remove: one element shorter, remaining contents unspecified')
            return self.lift(None)
        if name == 'sort':
            return self.list_sort(st, l, kwargs if isinstance(kwargs, dict) else {}, line)
        if name == 'pop':
            n = self.list_len(st, r)
            self.assume(st, n >= 0)
            self.raise_exit(st, IndexError, n == 0, line)
            if not args:
                t = self.list_elem(st, r, n - 1)
                st.heap['$LEN'] = z3.Store(self.harr(st, '$LEN'), r, n - 1)
            else:
                ci = self.const_int(args[0])
                if ci != 0:
                    raise EngineError('list.pop(i) with i != 0')
                t = self.list_elem(st, r, z3.IntVal(0))
                st.heap['$OFF'] = z3.Store(self.harr(st, '$OFF'), r, self.list_off(st, r) + 1)
                st.heap['$LEN'] = z3.Store(self.harr(st, '$LEN'), r, n - 1)
            if l.hint.elem is not None:
                self.assume(st, l.hint.elem.assumption(t))
            self.known_ref(st, t)
            return V(t, l.hint.elem)
        raise EngineError('list method %s' % name)

    def key_le(self, st, a, b):
        """python  a <= b  for sort keys: ints, strings, or tuples of those (lexicographic)"""
        def unpack(x):
            h = x.hint if isinstance(x, V) else None
            if h is not None and h.kind == 'tuple' and not h.opt and isinstance(h.elem, (list, tuple)):
                r = Val.r(x.t)
                items = []
                for i, es in enumerate(h.elem):
                    t = self.list_elem(st, r, z3.IntVal(i))
                    if es is not None:
                        self.assume(st, es.assumption(t))
                    items.append(V(t, es))
                return PyTuple(items)
            return x
        a, b = unpack(a), unpack(b)
        if isinstance(a, PyTuple) and isinstance(b, PyTuple) and len(a.items) == len(b.items):
            if not a.items:
                return z3.BoolVal(True)
            lt = self.compare(st, pyast.Lt(), a.items[0], b.items[0])
            eq = self.py_eq(st, a.items[0], b.items[0])
            return Or(lt, And(eq, self.key_le(st, PyTuple(a.items[1:]), PyTuple(b.items[1:]))))
        return self.compare(st, pyast.LtE(), a, b)

    def witness_indices(self, n):
        """index terms at which the (otherwise quantified) facts about sorted / mapped lists are instantiated:
        the ends of the list and the universally quantified ghost indices of the contract under verification"""
        return [z3.IntVal(0), n - 1] + list(getattr(self, 'ghost_ints', []))

    def list_sort(self, st, l, kwargs, line):
        """list.sort(key=f): the list becomes a permutation of itself whose last element has a maximal key
        (assumed contract of the built-in sort; stability / full sortedness are not used).  The permutation and its
        inverse are Skolem functions; their defining facts are instantiated at the witness indices only (sound:
        every instance is a consequence of the sort contract; incomplete for other indices)."""
        r = Val.r(l.t)
        n = self.list_len(st, r)
        keyf = kwargs.get('key')
        old_inner = z3.Select(self.harr(st, '$ELEM'), r)
        old_off = self.list_off(st, r)
        new_inner = fresh('sorted_elems', z3.ArraySort(IntS, Val))
        st.heap['$ELEM'] = z3.Store(self.harr(st, '$ELEM'), r, new_inner)
        st.heap['$OFF'] = z3.Store(self.harr(st, '$OFF'), r, z3.IntVal(0))
        self.trust('list.sort: permutation of the elements whose last element has a maximal key (instantiated at '
                   'the list ends and the ghost indices)')
        p = self.get_uf('sort_perm_%d' % len(self.assumes), IntS, IntS)
        q = self.get_uf('sort_inv_%d' % len(self.assumes), IntS, IntS)
        W = self.witness_indices(n)
        es = l.hint.elem
        for w in W:
            rng = And(0 <= w, w < n)
            self.assume(st, z3.Implies(rng, And(0 <= p(w), p(w) < n, z3.Select(new_inner, w) == z3.Select(old_inner, old_off + p(w)),
                                                0 <= q(w), q(w) < n, z3.Select(old_inner, old_off + w) == z3.Select(new_inner, q(w)))))
        for gt, formulas in list(getattr(self, 'generalized', [])):
            # invariants generalised over a ghost index (verify.assume_inv) hold at the permuted positions too
            for w in W:
                for f in formulas:
                    self.assumes.append(z3.Implies(And(st.guard, 0 <= w, w < n), z3.substitute(f, (gt, mkI(p(w))))))
        s1 = State(dict(st.vars), dict(st.heap), And(st.guard, n > 0))
        elast = V(z3.Select(new_inner, n - 1), es)
        if es is not None:
            self.assume(s1, self.spec_formula(s1, es, elast.t))
        kb = self.call_value(s1, keyf, [elast], {}, line) if keyf is not None else elast
        for a in [w for w in W if w is not W[1]] + [q(w) for w in W if w is not W[1]]:
            rng = And(0 <= a, a < n)
            s2 = State(dict(st.vars), dict(st.heap), And(st.guard, rng))
            ea = V(z3.Select(new_inner, a), es)
            if es is not None:
                self.assume(s2, self.spec_formula(s2, es, ea.t))
            ka = self.call_value(s2, keyf, [ea], {}, line) if keyf is not None else ea
            self.assume(s2, self.key_le(s2, ka, kb))
        return self.lift(None)

    def list_of_map(self, st, f, seq, line):
        """list(map(f, L)) for a symbolic list L: a fresh list of the same length with element k equal to f(L[k])
        (f must build a tuple of scalars / references); the element-wise facts are instantiated at the witness indices"""
        r = Val.r(seq.t)
        n = self.list_len(st, r)
        nr = self.new_ref(st, list)
        st.heap['$LEN'] = z3.Store(self.harr(st, '$LEN'), nr, n)
        st.heap['$OFF'] = z3.Store(self.harr(st, '$OFF'), nr, z3.IntVal(0))
        es = seq.hint.elem
        self.alloc_k += 1
        base = self.alloc0 + self.alloc_k
        self.alloc_k += 10 ** 6           # a block of fresh references for the tuples (base itself is a scratch slot)
        inner = fresh('mapped_elems', z3.ArraySort(IntS, Val))
        st.heap['$ELEM'] = z3.Store(self.harr(st, '$ELEM'), nr, inner)
        self.assume(st, n < 10 ** 6)
        specs = None
        for w in self.witness_indices(n):
            rng = And(0 <= w, w < n)
            s2 = State(dict(st.vars), dict(st.heap), And(st.guard, rng))
            item = V(self.list_elem(s2, r, w), es)
            if es is not None:
                self.assume(s2, self.spec_formula(s2, es, item.t))
            val = self.call_value(s2, f, [item], {}, line)
            if isinstance(val, V):
                # f returns a plain value / an object: the mapped list holds it directly
                self.assume(st, z3.Implies(rng, z3.Select(inner, w) == val.t))
                specs = val.hint
                continue
            if not isinstance(val, PyTuple) or not all(isinstance(x, V) for x in val.items):
                raise EngineError('list(map(f, L)): f must return a tuple of plain values')
            tid = z3.If(rng, base + 1 + w, base)
            te_inner = z3.Select(self.harr(st, '$ELEM'), tid)
            for i, x in enumerate(val.items):
                te_inner = z3.Store(te_inner, i, z3.If(rng, x.t, z3.Select(te_inner, i)))
            st.heap['$ELEM'] = z3.Store(self.harr(st, '$ELEM'), tid, te_inner)
            st.heap['$LEN'] = z3.Store(self.harr(st, '$LEN'), tid, len(val.items))
            st.heap['$OFF'] = z3.Store(self.harr(st, '$OFF'), tid, z3.IntVal(0))
            self.assume(st, z3.Implies(rng, And(z3.Select(inner, w) == mkR(base + 1 + w), cls_of(base + 1 + w) == UNIVERSE.cid(tuple))))
            specs = [x.hint for x in val.items]
        self.trust('list(map(f, L)): element-wise image as fresh tuples (instantiated at the list ends and the ghost indices)')
        if isinstance(specs, TypeSpec) or specs is None and False:
            return V(mkR(nr), TypeSpec('list', (), False, specs))
        return V(mkR(nr), TypeSpec('list', (), False, TypeSpec('tuple', (), False, specs)))

    def str_method(self, st, s, name, args, kwargs, line):
        if s.hint is not None and s.hint.opt:
            self.raise_exit(st, AttributeError, Val.is_N(s.t), line)
        x = Val.s(s.t)
        B = parse_spec('bool')
        S = parse_spec('str')
        # constant folding: a method of a concrete string with concrete arguments is evaluated by CPython itself
        cs0 = self.const_str(s)
        if cs0 is not None and not kwargs and name not in ('join', 'format', 'split', 'rsplit', 'splitlines'):
            cargs = []
            for a in args:
                ca = self.const_str(a) if isinstance(a, V) else None
                ci = self.const_int(a) if isinstance(a, V) else None
                if ca is not None:
                    cargs.append(ca)
                elif ci is not None:
                    cargs.append(ci)
                else:
                    cargs = None
                    break
            if cargs is not None and hasattr(cs0, name):
                try:
                    resv = getattr(cs0, name)(*cargs)
                    if isinstance(resv, (str, bool, int)):
                        return self.lift(resv)
                except Exception:
                    pass
        if name == 'startswith':
            a = args[0]
            if isinstance(a, PyTuple):
                return V(mkB(Or(*[z3.PrefixOf(Val.s(i.t), x) for i in a.items])), B)
            if getattr(self, 'string_lemmas', False):
                # valid instances of the theory of strings, stated to spare the solver the search for them
                pfx = Val.s(a.t)
                lp = z3.Length(pfx)
                self.assume(st, z3.Implies(z3.PrefixOf(pfx, x), And(z3.SubString(x, 0, lp) == pfx, lp <= z3.Length(x),
                                                                    z3.Implies(lp >= 1, z3.SubString(x, lp - 1, 1) == z3.SubString(pfx, lp - 1, 1)))))
            return V(mkB(z3.PrefixOf(Val.s(a.t), x)), B)
        if name == 'endswith':
            a = args[0]
            if isinstance(a, PyTuple):
                return V(mkB(Or(*[z3.SuffixOf(Val.s(i.t), x) for i in a.items])), B)
            if getattr(self, 'string_lemmas', False):
                sfx = Val.s(a.t)
                self.assume(st, z3.Implies(And(z3.SuffixOf(sfx, x), z3.Length(sfx) == 1),
                                           And(z3.Length(x) >= 1, z3.SubString(x, z3.Length(x) - 1, 1) == sfx)))
            return V(mkB(z3.SuffixOf(Val.s(a.t), x)), B)
        if name == 'find':
            return V(mkI(z3.IndexOf(x, Val.s(args[0].t), 0)), parse_spec('int'))
        if name == 'replace':
            old, new = self.const_str(args[0]), args[1]
            uf = self.get_uf('str_replace_all', StrS, StrS, StrS, StrS)
            self.trust('str.replace (all occurrences): uninterpreted, with no-occurrence axiom')
            r = uf(x, Val.s(args[0].t), Val.s(new.t))
            self.assume(st, z3.Implies(Not(z3.Contains(x, Val.s(args[0].t))), r == x))
            if old is not None and self.const_str(new) == '':
                self.assume(st, Not(z3.Contains(r, Val.s(args[0].t))) if len(old) == 1 else z3.BoolVal(True))
                self.assume(st, z3.Length(r) <= z3.Length(x))
            return V(mkS(r), S)
        if name in ('strip', 'lstrip', 'rstrip') and len(args) == 1 and isinstance(args[0], V):
            # strip family with a character set: uninterpreted function of (text, characters) with the facts that hold
            # for every character set (the result is a piece of the text, not longer than it)
            uf = self.get_uf('str_%s_chars' % name, StrS, StrS, StrS)
            self.trust('str.%s(chars): uninterpreted function of (text, chars) with length / containment facts' % name)
            r = uf(x, Val.s(args[0].t))
            self.assume(st, z3.Length(r) <= z3.Length(x))
            if name == 'rstrip':
                self.assume(st, z3.PrefixOf(r, x))
            elif name == 'lstrip':
                self.assume(st, z3.SuffixOf(r, x))
            else:
                self.assume(st, z3.Contains(x, r))
            return V(mkS(r), S)
        if name in ('lower', 'upper', 'strip', 'lstrip', 'rstrip', 'capitalize', 'title'):
            if args:
                raise EngineError('str.%s with arguments' % name)
            cs = self.const_str(s)
            if cs is not None:
                return self.lift(getattr(cs, name)())
            uf = self.get_uf('str_' + name, StrS, StrS)
            self.trust('str.%s: uninterpreted function' % name)
            r = uf(x)
            if name in ('strip', 'lstrip', 'rstrip'):
                self.assume(st, z3.Length(r) <= z3.Length(x))
                self.assume(st, z3.Contains(x, r))
            return V(mkS(r), S)
        if name in ('isupper', 'islower', 'isdigit', 'isspace', 'isalpha', 'isalnum'):
            uf = self.get_uf('str_' + name, StrS, BoolS)
            self.trust('str.%s: uninterpreted predicate' % name)
            return V(mkB(uf(x)), B)
        if name == 'count':
            cs = self.const_str(args[0])
            uf = self.get_uf('str_count', StrS, StrS, IntS)
            self.trust('str.count: uninterpreted with bounds axioms')
            c = uf(x, Val.s(args[0].t))
            self.assume(st, c >= 0)
            self.assume(st, (c > 0) == z3.Contains(x, Val.s(args[0].t)))
            if cs is not None and len(cs) == 1:
                # more than one occurrence <=> an occurrence after the first
                i0 = z3.IndexOf(x, Val.s(args[0].t), 0)
                self.assume(st, (c > 1) == And(i0 >= 0, z3.IndexOf(x, Val.s(args[0].t), i0 + 1) >= 0))
            return V(mkI(c), parse_spec('int'))
        if name == 'join':
            return self.str_join(st, s, args[0], line)
        if name == 'format':
            fmt = self.const_str(s)
            if fmt is None or kwargs:
                raise EngineError('str.format on non-constant')
            import re as _re
            pieces = _re.split(r'(\{\d*\})', fmt)
            out = []
            k = 0
            for p in pieces:
                m = _re.fullmatch(r'\{(\d*)\}', p)
                if m:
                    idx = int(m.group(1)) if m.group(1) else k
                    k += 1
                    out.append(self.to_str(st, args[idx]))
                else:
                    out.append(z3.StringVal(p))
            return V(mkS(self.concat(out)), S)
        if name in ('split', 'rsplit', 'splitlines'):
            # trusted: a fresh list of strings that is a function of (text, separator, maxsplit)
            sep = Val.s(args[0].t) if args and isinstance(args[0], V) and not self.const_is_none(args[0]) else z3.StringVal('\x00<ws>')
            mx = Val.i(args[1].t) if len(args) > 1 else z3.IntVal(-1)
            ulen = self.get_uf('str_%s_len' % name, StrS, StrS, IntS, IntS)
            uarr = self.get_uf('str_%s_items' % name, StrS, StrS, IntS, z3.ArraySort(IntS, Val))
            self.trust('str.%s: result is an uninterpreted function of (text, separator, maxsplit) with length bounds' % name)
            nr = self.new_ref(st, list)
            n = ulen(x, sep, mx)
            self.assume(st, n >= (1 if (args and name != 'splitlines') else 0))
            if len(args) > 1:
                self.assume(st, z3.Implies(mx >= 0, n <= mx + 1))
            st.heap['$LEN'] = z3.Store(self.harr(st, '$LEN'), nr, n)
            st.heap['$ELEM'] = z3.Store(self.harr(st, '$ELEM'), nr, uarr(x, sep, mx))
            st.heap['$OFF'] = z3.Store(self.harr(st, '$OFF'), nr, z3.IntVal(0))
            return V(mkR(nr), parse_spec('list[str]'))
        if name in ('encode', 'decode'):
            raise EngineError('str.%s needs contract-level treatment' % name)
        raise EngineError('str method %s' % name)

    def const_is_none(self, v):
        return isinstance(v, V) and simp(v.t).eq(NONE)

    def str_join(self, st, sep, seq, line):
        if isinstance(seq, PyTuple) or (isinstance(seq, GList) and all(z3.is_true(e.guard) for e in seq.entries)):
            items = seq.items if isinstance(seq, PyTuple) else [e.val for e in seq.entries]
            parts = []
            for i, it in enumerate(items):
                if i:
                    parts.append(Val.s(sep.t))
                parts.append(Val.s(it.t))
            return V(mkS(self.concat(parts)), parse_spec('str'))
        if isinstance(seq, V):
            uf = self.get_uf('str_join', StrS, z3.ArraySort(IntS, Val), IntS, IntS, StrS)
            self.trust('str.join over a symbolic list: uninterpreted function of (sep, elements, window offset, length)')
            r = Val.r(seq.t)
            res = uf(Val.s(sep.t), z3.Select(self.harr(st, '$ELEM'), r), self.list_off(st, r), self.list_len(st, r))
            self.assume(st, z3.Implies(self.list_len(st, r) == 0, res == z3.StringVal('')))
            return V(mkS(res), parse_spec('str'))
        if isinstance(seq, PyObj) and isinstance(seq.o, tuple) and seq.o and seq.o[0] == 'dictview':
            uf = self.get_uf('str_join_dict', StrS, DMapInner, StrS)
            self.trust('str.join over a dict view: uninterpreted function of (sep, dict contents)')
            dv = seq.o[2]
            return V(mkS(uf(Val.s(sep.t), z3.Select(self.harr(st, '$DMAP'), Val.r(dv.t)))), parse_spec('str'))
        raise EngineError('join of %r' % (seq,))

    # ------------------------------------------------------------------ with
    def with_call(self, st, fv, args, kwargs, s, item):
        raise EngineError('with-statement on %r needs a context-manager contract' % (fv,))

    # ------------------------------------------------------------------ loops
    def iter_items(self, st, it):
        """Concrete unrolling: return list of values or None if the iterable is symbolic."""
        if isinstance(it, PyTuple):
            return list(it.items)
        if isinstance(it, GList):
            if all(z3.is_true(e.guard) for e in it.entries):
                return [e.val for e in it.entries]
            return None
        if isinstance(it, PyObj):
            o = it.o
            if isinstance(o, tuple) and o and o[0] == 'dictview':
                return None
            if isinstance(o, tuple) and len(o) == 2 and o[0] in (range, enumerate, zip, reversed, map, filter, iter):
                pass
            elif isinstance(o, (list, tuple, set, frozenset)):
                return [self.lift(x) for x in o]
            if isinstance(o, dict):
                return [self.lift(x) for x in o]
            if isinstance(o, range):
                return [self.lift(x) for x in o]
            if isinstance(o, tuple) and len(o) == 2 and o[0] is range:
                cs = [self.const_int(a) for a in o[1]]
                if all(c is not None for c in cs):
                    return [self.lift(x) for x in range(*cs)]
                return None
            if isinstance(o, tuple) and len(o) == 2 and o[0] is enumerate:
                inner = self.iter_items(st, o[1][0])
                if inner is None:
                    return None
                return [PyTuple([self.lift(i), x]) for i, x in enumerate(inner)]
            if isinstance(o, tuple) and len(o) == 2 and o[0] is map and len(o[1]) == 2:
                inner = self.iter_items(st, o[1][1])
                if inner is None:
                    return None
                return [self.call_value(st, o[1][0], [x], {}, 0) for x in inner]
            if isinstance(o, tuple) and len(o) == 2 and o[0] is zip:
                inners = [self.iter_items(st, a) for a in o[1]]
                if any(i is None for i in inners):
                    return None
                return [PyTuple(list(t)) for t in zip(*inners)]
        return None

    def loop_for(self, st, s):
        fr = self.frame()
        fr.loop_ordinal += 1
        ordinal = fr.loop_ordinal
        it = self.eval(st, s.iter)
        items = self.iter_items(st, it)
        if items is None:
            return self.loop_for_invariant(st, s, it, ordinal)
        loop_id = object()
        fr.loop_stack.append(loop_id)
        breaks = []
        try:
            for x in items:
                if st.dead():
                    break
                start = len(fr.exits)
                self.assign(st, s.target, x)
                self.exec_block(st, s.body)
                conts = self.take_exits(start, lambda e: e.kind == 'continue' and e.loop is loop_id)
                self.merge_exit_states(st, conts)
                breaks.extend(self.take_exits(start, lambda e: e.kind == 'break' and e.loop is loop_id))
        finally:
            fr.loop_stack.pop()
        if s.orelse:
            self.exec_block(st, s.orelse)
        self.merge_exit_states(st, breaks)

    def loop_while(self, st, s):
        fr = self.frame()
        fr.loop_ordinal += 1
        return self.loop_while_invariant(st, s, fr.loop_ordinal)

    def loop_for_invariant(self, st, s, it, ordinal):
        raise EngineError('loop %d over a symbolic iterable needs an invariant (line %d)' % (ordinal, s.lineno))

    def loop_while_invariant(self, st, s, ordinal):
        raise EngineError('while loop %d needs an invariant (line %d)' % (ordinal, s.lineno))
