"""Python-side value wrappers, class universe and schema for the symbolic executor."""
import inspect
import re
import z3
from .vals import *  # noqa


class EngineError(Exception):
    """Construct outside the supported subset / missing contract: result is *undecided*."""


class V(object):
    """A symbolic python value: a z3 term of sort Val plus an optional static type hint."""
    __slots__ = ('t', 'hint')

    def __init__(self, t, hint=None):
        self.t = t
        self.hint = hint          # TypeSpec or None

    def __repr__(self):
        return 'V(%s)' % (self.t,)


class PyTuple(object):
    __slots__ = ('items', 'fields')

    def __init__(self, items, fields=None):
        self.items = list(items)
        self.fields = fields        # field names of a namedtuple instance, else None

    def __repr__(self):
        return 'PyTuple(%r)' % (self.items,)


class PyObj(object):
    """A python-level object that is not a heap value: module, class, function, builtin."""
    __slots__ = ('o',)

    def __init__(self, o):
        self.o = o

    def __repr__(self):
        return 'PyObj(%r)' % (self.o,)


class Bound(object):
    __slots__ = ('selfv', 'func', 'name')

    def __init__(self, selfv, func, name=None):
        self.selfv = selfv
        self.func = func
        self.name = name


class Closure(object):
    __slots__ = ('node', 'env', 'module', 'qual')

    def __init__(self, node, env, module, qual):
        self.node = node
        self.env = env
        self.module = module
        self.qual = qual


class GEntry(object):
    """One entry of a guarded list: present iff guard holds."""
    __slots__ = ('guard', 'val')

    def __init__(self, guard, val):
        self.guard = guard
        self.val = val


class GList(object):
    """Guarded list: a python-side list whose entries carry presence guards, in list order.
    Used for locally built lists (the `attrs` idiom)."""
    __slots__ = ('entries',)

    def __init__(self, entries=None):
        self.entries = list(entries or [])

    def copy(self):
        return GList(self.entries)


# ---------------------------------------------------------------------------------------------
# class universe

class Universe(object):
    def __init__(self):
        self.classes = []      # python classes
        self.ids = {}
        for b in (list, tuple, dict, set):
            self.register(b)

    def register(self, c):
        if c not in self.ids:
            self.ids[c] = len(self.classes) + 1
            self.classes.append(c)
        return self.ids[c]

    def register_module(self, mod):
        for name, c in sorted(vars(mod).items()):
            if inspect.isclass(c) and getattr(c, '__module__', None) == mod.__name__:
                self.register(c)

    def subclasses(self, c):
        return [d for d in self.classes if issubclass(d, c)]

    def cid(self, c):
        return self.register(c)

    def by_id(self, i):
        if 1 <= i <= len(self.classes):
            return self.classes[i - 1]
        return None


UNIVERSE = Universe()


def isinstance_term(t, classes):
    """z3 Bool: python isinstance(t, classes) for a Val term t."""
    if not isinstance(classes, (tuple, list)):
        classes = (classes,)
    alts = []
    for c in classes:
        if c is str:
            alts.append(Val.is_S(t))
        elif c is bool:
            alts.append(Val.is_B(t))
        elif c is int:
            alts.append(Or(Val.is_I(t), Val.is_B(t)))
        elif c is float or c is bytes:
            pass
        elif c is type(None):
            alts.append(Val.is_N(t))
        elif c is object:
            alts.append(z3.BoolVal(True))
        else:
            subs = UNIVERSE.subclasses(c)
            if c not in UNIVERSE.ids:
                UNIVERSE.register(c)
                subs = UNIVERSE.subclasses(c)
            if subs:
                r = Val.r(t)
                alts.append(And(Val.is_R(t), Or(*[cls_of(r) == UNIVERSE.cid(d) for d in subs])))
    return Or(*alts)


# ---------------------------------------------------------------------------------------------
# type specs (schema)

region_of = z3.Function('region', IntS, IntS)
REGIONS = {}


class TypeSpec(object):
    """kind: 'str','int','bool','none','obj','list','dict','set','tuple','any'; opt = may be None."""

    def __init__(self, kind, classes=(), opt=False, elem=None, keyed=None, exact=False, region=None):
        self.kind = kind
        self.classes = tuple(classes)
        self.opt = opt
        self.elem = elem
        self.keyed = keyed      # dict kinds: {constant key: TypeSpec} overriding elem
        self.exact = exact      # instance of exactly classes[0], not of a subclass
        self.fields = None      # tuple kinds: field names of a namedtuple
        self.region = region    # ownership region: containers of different regions are never the same object (assumed)

    def elem_for_key(self, key):
        if self.keyed and key in self.keyed:
            return self.keyed[key]
        return self.elem

    def with_opt(self, opt):
        t = TypeSpec(self.kind, self.classes, opt, self.elem, self.keyed, self.exact, self.region)
        t.fields = self.fields
        return t

    def __repr__(self):
        return 'TypeSpec(%s,%s,opt=%s,elem=%r)' % (self.kind, [c.__name__ for c in self.classes], self.opt, self.elem)

    def assumption(self, t):
        k = self.kind
        if k in ('any', 'opaque'):
            return z3.BoolVal(True)
        if k == 'str':
            base = Val.is_S(t)
        elif k in ('int', 'float'):
            # float: a non-integral number (time stamps), carried as an integer count of FLOAT_SCALE-ths; only comparisons and
            # int() are modelled for it, every other operation is refused by the engine
            base = Val.is_I(t)
        elif k == 'bool':
            base = Val.is_B(t)
        elif k == 'none':
            base = Val.is_N(t)
        elif k == 'obj':
            base = isinstance_term(t, self.classes)
        elif k == 'list':
            base = isinstance_term(t, (list,))
        elif k == 'tuple':
            base = isinstance_term(t, (tuple,))
        elif k == 'dict' and self.exact:
            base = And(Val.is_R(t), cls_of(Val.r(t)) == UNIVERSE.cid(self.classes[0]))
        elif k == 'dict':
            base = isinstance_term(t, self.classes if self.classes else (dict,))
        elif k == 'set':
            base = isinstance_term(t, (set,))
        elif k == 'union':
            base = Or(*[e.assumption(t) for e in self.elem])
        else:
            raise EngineError('bad typespec ' + k)
        if self.region is not None:
            base = And(base, region_of(Val.r(t)) == REGIONS.setdefault(self.region, len(REGIONS) + 1))
        if self.opt:
            return Or(Val.is_N(t), base)
        return base


_NAMESPACES = []   # modules searched for class names in type specs


def add_spec_namespace(mod):
    _NAMESPACES.append(mod)


def _lookup_class(name):
    for m in _NAMESPACES:
        c = getattr(m, name, None)
        if inspect.isclass(c):
            return c
    raise EngineError('unknown class in typespec: %s' % name)


_spec_cache = {}
NAMED_SPECS = {}


def named_spec(name, spec):
    NAMED_SPECS[name] = spec
    return spec


def parse_spec(s):
    """'str', 'str?', 'Type', 'Type|Node?', 'list[Parameter]', 'dict', 'any'."""
    if isinstance(s, TypeSpec) or s is None:
        return s
    if s in NAMED_SPECS:
        return NAMED_SPECS[s]
    if s.endswith('?') and s[:-1] in NAMED_SPECS:
        return NAMED_SPECS[s[:-1]].with_opt(True)
    if s in _spec_cache:
        return _spec_cache[s]
    orig = s
    s = s.strip()
    opt = s.endswith('?')
    if opt:
        s = s[:-1]
    elem = None
    if '[' in s:
        head, rest = s.split('[', 1)
        inner = rest[:-1]
        if head == 'tuple' and ',' in inner:
            parts, depth, cur = [], 0, ''
            for ch in inner:
                if ch == '[':
                    depth += 1
                elif ch == ']':
                    depth -= 1
                if ch == ',' and depth == 0:
                    parts.append(cur)
                    cur = ''
                else:
                    cur += ch
            parts.append(cur)
            names = []
            plain = []
            for x in parts:
                x = x.strip()
                m = re.match(r'^([A-Za-z_][A-Za-z_0-9]*):(.*)$', x)
                if m:
                    names.append(m.group(1))
                    plain.append(m.group(2).strip())
                else:
                    names.append(None)
                    plain.append(x)
            elem = [parse_spec(x) for x in plain]
            tuple_fields = tuple(names) if all(n is not None for n in names) else None
        else:
            elem = parse_spec(inner)
        s = head
    if s in ('str', 'int', 'bool', 'any', 'dict', 'set', 'list', 'tuple', 'none', 'opaque', 'float'):
        ts = TypeSpec(s, (), opt, elem)
        if s == 'tuple' and locals().get('tuple_fields'):
            ts.fields = tuple_fields      # namedtuple: items can be read by field name
    else:
        names = s.split('|')
        prim = [n for n in names if n in ('str', 'int', 'bool', 'none')]
        if prim:
            parts = []
            for n in names:
                parts.append(parse_spec(n))
            ts = TypeSpec('union', (), opt, parts)
        else:
            ts = TypeSpec('obj', [_lookup_class(n) for n in names], opt, elem)
    _spec_cache[orig] = ts
    return ts


SCHEMA = {}     # (class, field) -> TypeSpec


class _LazySchema(dict):
    """field specs are parsed on first use (named specs may be declared after the schema lines)"""

    def __getitem__(self, key):
        v = dict.__getitem__(self, key)
        if isinstance(v, str):
            v = parse_spec(v)
            dict.__setitem__(self, key, v)
        return v


SCHEMA = _LazySchema()


def schema(cls, **fields):
    for k, v in fields.items():
        SCHEMA[(cls, k)] = v


def field_spec(classes, field):
    """Type spec of `field` for an object statically known to be an instance of one of `classes`.
    If the class itself does not declare the field, the declarations of its subclasses are used
    (the load can only succeed on an instance of such a subclass) provided they agree."""
    found = []
    for c in classes:
        hit = None
        for k in c.__mro__:
            if (k, field) in SCHEMA:
                hit = SCHEMA[(k, field)]
                break
        if hit is None:
            subs = []
            for d in UNIVERSE.subclasses(c):
                for k in d.__mro__:
                    if (k, field) in SCHEMA:
                        subs.append(SCHEMA[(k, field)])
                        break
            if not subs:
                continue
            hit = subs[0]
            for s2 in subs[1:]:
                if s2 is not hit and repr(s2) != repr(hit):
                    return None
        found.append(hit)
    if not found:
        return None
    first = found[0]
    for f in found[1:]:
        if f is not first and repr(f) != repr(first):
            first = join_specs(first, f)
            if first is None:
                return None
    return first


FLOAT_SCALE = 10 ** 9


def join_specs(h1, h2):
    if (h1 is not None and h1.kind == 'float') != (h2 is not None and h2.kind == 'float'):
        raise EngineError('a float value merges with a value of another type: not modelled')
    if h1 is None or h2 is None:
        return None
    if h1.kind == 'none':
        return h2.with_opt(True)
    if h2.kind == 'none':
        return h1.with_opt(True)
    if h1.kind == h2.kind and h1.kind != 'obj':
        if h1.kind == 'dict':
            best = h1 if (h1.classes or h1.keyed or h1.elem is not None) else h2
            return best.with_opt(h1.opt or h2.opt)
        if h1.kind == 'union':
            return None
        return TypeSpec(h1.kind, (), h1.opt or h2.opt, h1.elem if h1.elem is not None else h2.elem)
    if h1.kind == 'obj' and h2.kind == 'obj':
        cs = tuple(dict.fromkeys(h1.classes + h2.classes))
        return TypeSpec('obj', cs, h1.opt or h2.opt)
    return None


REGION_INVARIANTS = {}   # ownership region of a dict -> [python expressions over VALUE]: assumed data invariant of its values


def region_invariant(region, *exprs):
    REGION_INVARIANTS.setdefault(region, []).extend(exprs)


CLASS_INVARIANTS = {}   # class -> [(field, python constant)]


def class_invariant(cls, **fields):
    """Data invariant: instances of cls always carry this constant in the field."""
    for f, v in fields.items():
        CLASS_INVARIANTS.setdefault(cls, []).append((f, v))
