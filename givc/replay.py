"""Replay of solver counter-models against the real code.

A counter-model is turned into concrete objects (real giscanner classes, fields from the model's
initial heap), assumed `pure` callees are patched with the model's finite interpretation, the
real function is called natively and the failed clause is evaluated natively.
"""
import ast as pyast
import copy
import importlib
import inspect
import json
import os
import sys
import traceback
import types
import z3

from .vals import *    # noqa
from .model import UNIVERSE, SCHEMA, V, PyTuple, GList, PyObj
from .contracts import REGISTRY, parse_expr, resolve_function

ROOT = os.path.dirname(os.path.dirname(os.path.abspath(__file__)))
MAX_LIST = 6


class Builder(object):
    """model -> serialisable object graph description"""

    def __init__(self, ex, model):
        self.ex = ex
        self.m = model
        self.objs = {}
        self.conc_by_ref = {ref: o for (ref, o) in ex.conc.values()}

    def ev(self, t):
        return self.m.eval(t, model_completion=True)

    def desc(self, term, depth=0):
        v = self.ev(term)
        n = v.decl().name()
        if n == 'N' or n == 'Absent':
            return ['none']
        if n == 'B':
            return ['bool', z3.is_true(v.arg(0))]
        if n == 'I':
            return ['int', v.arg(0).as_long()]
        if n == 'S':
            return ['str', v.arg(0).as_string()]
        if n == 'R':
            ref = v.arg(0).as_long()
            self.obj(ref, depth)
            return ['ref', ref]
        return ['none']

    def obj(self, ref, depth=0):
        if ref in self.objs:
            return
        cid = self.ev(cls_of(z3.IntVal(ref))).as_long()
        cls = UNIVERSE.by_id(cid)
        if cls in (list, tuple, dict, set):
            pass
        if ref in self.conc_by_ref:
            o = self.conc_by_ref[ref]
            self.objs[ref] = {'global': self.global_name(o), 'cls': type(o).__name__}
            if self.objs[ref]['global']:
                return
        if cls is None:
            self.objs[ref] = {'cls': None, 'fields': {}}
            return
        d = {'cls': ('builtins:' + cls.__name__) if cls in (list, tuple, dict, set) else cls.__module__ + ':' + cls.__qualname__, 'fields': {}}
        self.objs[ref] = d
        if depth > 6:
            return
        if issubclass(cls, (list, tuple)):
            n = self.ev(z3.Select(self.ex.init_arr('$LEN'), ref)).as_long()
            n = max(0, min(n, MAX_LIST))
            inner = z3.Select(self.ex.init_arr('$ELEM'), ref)
            off = self.ev(z3.Select(self.ex.init_arr('$OFF'), ref)).as_long()
            d['items'] = [self.desc(z3.Select(inner, off + i), depth + 1) for i in range(n)]
            if not issubclass(cls, (list, tuple)) or cls in (list, tuple):
                return
        if issubclass(cls, (dict, set)):
            inner = z3.Select(self.ex.init_arr('$DMAP'), ref)
            items = []
            for k in sorted(self.ex.string_consts):
                val = self.ev(z3.Select(inner, mkS(k)))
                if val.decl().name() != 'Absent':
                    items.append([k, self.desc(z3.Select(inner, mkS(k)), depth + 1)])
            d['dict'] = items
            if cls in (dict, set):
                return
        fields = set()
        for (k, f) in SCHEMA:
            if issubclass(cls, k):
                fields.add(f)
        from .model import field_spec
        for f in sorted(fields):
            term = z3.Select(self.ex.init_arr(f), ref)
            spec = field_spec((cls,), f)
            if spec is not None and not z3.is_true(self.ev(spec.assumption(term))):
                d['fields'][f] = self.default_for(spec)
            else:
                d['fields'][f] = self.desc(term, depth + 1)

    def default_for(self, spec):
        """Field not constrained by the counter-model: fill with a type-correct default."""
        if spec.opt or spec.kind in ('none', 'any', 'obj', 'union'):
            return ['none']
        if spec.kind == 'str':
            return ['str', '']
        if spec.kind == 'int':
            return ['int', 0]
        if spec.kind == 'bool':
            return ['bool', False]
        key = 'default_%s_%d' % (spec.kind, len(self.objs))
        kind = {'list': 'builtins:list', 'tuple': 'builtins:tuple', 'dict': 'builtins:dict', 'set': 'builtins:set'}[spec.kind]
        if spec.kind == 'dict' and spec.classes:
            c = spec.classes[0]
            kind = c.__module__ + ':' + c.__qualname__
        ref = -10 ** 9 - len(self.objs)
        self.objs[ref] = {'cls': kind, 'fields': {}, 'items': [], 'dict': []}
        return ['ref', ref]

    def global_name(self, o):
        from giscanner import ast as gast
        for name, val in vars(gast).items():
            if val is o:
                return 'giscanner.ast:' + name
        return None


class Rebuilder(object):
    def __init__(self, objs):
        self.objs = objs
        self.made = {}

    def val(self, d):
        k = d[0]
        if k == 'none':
            return None
        if k in ('bool', 'int', 'str'):
            return d[1]
        if k == 'ref':
            return self.obj(d[1])
        raise ValueError(d)

    def obj(self, ref):
        ref = int(ref)
        if ref in self.made:
            return self.made[ref]
        d = self.objs[str(ref)] if str(ref) in self.objs else self.objs[ref]
        if d.get('global'):
            mod, name = d['global'].split(':')
            o = getattr(importlib.import_module(mod), name)
            self.made[ref] = o
            return o
        if d['cls'] is None:
            o = object()
            self.made[ref] = o
            return o
        mod, qn = d['cls'].split(':')
        if mod == 'builtins':
            cls = {'list': list, 'tuple': tuple, 'dict': dict, 'set': set}[qn]
        else:
            cls = importlib.import_module(mod)
            for p in qn.split('.'):
                cls = getattr(cls, p)
        if cls is list:
            o = []
            self.made[ref] = o
            o.extend(self.val(x) for x in d.get('items', []))
            return o
        if cls is tuple:
            o = tuple(self.val(x) for x in d.get('items', []))
            self.made[ref] = o
            return o
        if cls is set:
            o = set()
            self.made[ref] = o
            for k, v in d.get('dict', []):
                o.add(k)
            return o
        if cls is dict:
            o = {}
            self.made[ref] = o
            for k, v in d.get('dict', []):
                o[k] = self.val(v)
            return o
        o = cls.__new__(cls)
        self.made[ref] = o
        if isinstance(o, dict):
            for k, v in d.get('dict', []):
                dict.__setitem__(o, k, self.val(v))
        for f, v in d.get('fields', {}).items():
            try:
                object.__setattr__(o, f, self.val(v))
            except (AttributeError, TypeError):
                pass
        return o


# ---------------------------------------------------------------------------------------------------
def native_clause(expr, c, pre_ns, want_old=True):
    """Prepare native evaluation of a contract clause: returns (code, old_values) with old(..) and
    let-macros pre-evaluated in the pre-state namespace."""
    tree = pyast.parse(expr.strip(), mode='eval')
    olds = {}

    class T(pyast.NodeTransformer):
        def visit_Call(self, n):
            if isinstance(n.func, pyast.Name) and n.func.id == 'old':
                key = '__old_%d' % len(olds)
                olds[key] = eval(compile(pyast.Expression(n.args[0]), '<old>', 'eval'), pre_ns)
                return pyast.copy_location(pyast.Name(id=key, ctx=pyast.Load()), n)
            self.generic_visit(n)
            if isinstance(n.func, pyast.Name) and n.func.id == 'implies':
                return pyast.copy_location(
                    pyast.BoolOp(op=pyast.Or(), values=[pyast.UnaryOp(op=pyast.Not(), operand=n.args[0]), n.args[1]]), n)
            return n
    tree = T().visit(tree)
    pyast.fix_missing_locations(tree)
    return compile(tree, '<clause>', 'eval'), olds


def namespace_for(c, params):
    ns = dict(vars(c.module)) if c.module is not None else {}
    from giscanner import message
    ns['LOGGER'] = message.MessageLogger.get()
    ns.setdefault('is_fresh', lambda x: True)
    ns.setdefault('same_list', lambda a, b: a is not None and b is not None and list(a) == list(b))
    ns.update(params)
    return ns


def run_native(c, params, clause, uf_tables):
    """Call the real function with concrete params; evaluate clause. Returns dict."""
    from giscanner import message
    import io
    message.MessageLogger._instance = None
    lg = message.MessageLogger.get(namespace=None, output=io.StringIO())
    f = resolve_function(c.qual)
    patches = []
    for q, table in uf_tables.items():
        cc = REGISTRY.get(q)
        tgt = resolve_function(q)
        owner_q, name = q.rsplit('.', 1)
        owner = resolve_function(owner_q) if False else _resolve_owner(owner_q)
        patches.append((owner, name, getattr(owner, name, None)))
        setattr(owner, name, table.as_function(cc, tgt))
    out = {'raised': None, 'clause_value': None, 'result': None}
    try:
        ns = namespace_for(c, params)
        for name, expr in c.let.items():
            ns[name] = eval(expr, ns)
        code = olds = None
        if clause is not None:
            code, olds = native_clause(clause, c, ns)
        try:
            res = f(**{k: v for k, v in params.items() if k not in c.ghost})    # ghost parameters exist in the contract only
            out['result'] = repr(res)[:200]
        except BaseException as e:   # noqa
            out['raised'] = type(e).__name__
            out['raised_text'] = str(e)[:300]
            res = None
        if code is not None and out['raised'] is None:
            ns2 = dict(ns)
            ns2.update(olds)
            ns2['result'] = res
            try:
                out['clause_value'] = bool(eval(code, ns2))
            except Exception as e:
                out['clause_value'] = None
                out['clause_error'] = '%s: %s' % (type(e).__name__, e)
    finally:
        for owner, name, orig in patches:
            setattr(owner, name, orig)
    return out


def _resolve_owner(q):
    parts = q.split('.')
    for i in range(len(parts), 0, -1):
        try:
            mod = importlib.import_module('.'.join(parts[:i]))
        except ImportError:
            continue
        o = mod
        for p in parts[i:]:
            o = getattr(o, p)
        return o
    raise ImportError(q)


class UFTable(object):
    """Finite interpretation of an assumed pure callee, filled lazily from the model."""

    def __init__(self, q, entries=None, lookup=None, calls=None):
        self.q = q
        self.entries = entries if entries is not None else []   # [[key descs...], result desc]
        self.lookup = lookup
        self.rebuilder = None
        self.calls = calls or []       # per call site: {'line','result','havocs','raise'}
        self.count = {}

    def as_function(self, cc, tgt):
        table = self
        names = list(inspect.signature(tgt).parameters) if tgt is not None else list(cc.params)

        def patched(*args, **kw):
            env = dict(zip(names, args))
            env.update(kw)
            ns = namespace_for(cc, env)
            if cc.pure_keys is None:
                line = sys._getframe(1).f_lineno
                recs = [r for r in table.calls if r['line'] == line]
                if not recs:
                    raise RuntimeError('replay: no model record for call to %s at line %d' % (table.q, line))
                k = table.count.get(line, 0)
                table.count[line] = k + 1
                rec = recs[min(k, len(recs) - 1)]
                if rec.get('raise'):
                    import builtins
                    raise getattr(builtins, rec['raise'], RuntimeError)('replayed exception')
                for base_expr, field, vd in rec['havocs']:
                    obj = eval(base_expr, ns)
                    if obj is not None:
                        setattr(obj, field, table.rebuilder.val(vd))
                return table.rebuilder.val(rec['result'])
            keys = [eval(k, ns) for k in cc.pure_keys]
            kd = [table.key_desc(k) for k in keys]
            for e in table.entries:
                if e[0] == kd:
                    return table.rebuilder.val(e[1])
            if table.lookup is not None:
                rd = table.lookup(kd)
                table.entries.append([kd, rd])
                return table.rebuilder.val(rd)
            if tgt is not None:
                # the counter-model does not constrain this application: fall back to the real callee
                res = tgt(*args, **kw)
                if inspect.isgenerator(res):
                    res = list(res)
                return res
            return None
        return patched

    def key_desc(self, k):
        if k is None:
            return ['none']
        if isinstance(k, bool):
            return ['bool', k]
        if isinstance(k, int):
            return ['int', k]
        if isinstance(k, str):
            return ['str', k]
        for ref, o in (self.rebuilder.made.items() if self.rebuilder else []):
            if o is k:
                return ['ref', ref]
        return ['unknown']


def make_replay(ex, c, ob, result, prop):
    d = os.path.join(ROOT, 'replay', prop)
    os.makedirs(d, exist_ok=True)
    safe = ''.join(ch if ch.isalnum() or ch in '._-' else '_' for ch in '%s__%s' % (c.qual.split('.')[-1], ob.name))
    path = os.path.join(d, safe + '.json')
    rec = {'property': prop, 'function': c.qual, 'obligation': ob.name, 'clause': ob.info,
           'solver': {'backend': result.backend, 'status': result.status, 'reason': result.reason},
           'confirmed': False}
    try:
        if result.model is None:
            rec['note'] = 'no model available from the back end'
        else:
            b = Builder(ex, result.model)
            params = {}
            for n, v in ex.inputs.items():
                params[n] = b.desc(v.t)
            tables = {}
            rb = Rebuilder(b.objs)

            def mk_lookup(q):
                cc = REGISTRY.get(q)
                nkeys = len(cc.pure_keys)
                uf = ex.get_uf('pure_' + q.replace('.', '_'), *([Val] * (nkeys + 1)))

                def lookup(kd):
                    terms = []
                    for k in kd:
                        if k[0] == 'none':
                            terms.append(NONE)
                        elif k[0] == 'bool':
                            terms.append(mkB(k[1]))
                        elif k[0] == 'int':
                            terms.append(mkI(k[1]))
                        elif k[0] == 'str':
                            terms.append(mkS(k[1]))
                        elif k[0] == 'ref':
                            terms.append(mkR(k[1]))
                        else:
                            return ['none']
                    n0 = len(b.objs)
                    return b.desc(uf(*terms))
                return lookup
            for q in ex.used_contracts:
                cc = REGISTRY.get(q)
                if cc.pure_keys is not None and cc.trusted:
                    t = UFTable(q, lookup=mk_lookup(q))
                    t.rebuilder = rb
                    tables[q] = t
                elif cc.trusted:
                    calls = []
                    for r in ex.call_log:
                        if r['qual'] != q or not z3.is_true(b.ev(r['guard'])):
                            continue
                        rz = None
                        for exname, cnd in r['raises']:
                            if z3.is_true(b.ev(cnd)):
                                rz = exname
                        calls.append({'line': r['line'], 'raise': rz,
                                      'result': b.desc(r['result']) if r['result'] is not None else ['none'],
                                      'havocs': [[be, f, b.desc(nv)] for (be, f, nv) in r['havocs']]})
                    t = UFTable(q, calls=calls)
                    t.rebuilder = rb
                    tables[q] = t
            concrete = {n: rb.val(dv) for n, dv in params.items()}
            clause = c.ensures.get(ob.name)
            kind = 'ensures' if clause else ob.name.split('.')[0].split('@')[0]
            out = run_native(c, concrete, clause, tables)
            rec['params'] = params
            rec['objects'] = {str(k): v for k, v in b.objs.items()}
            rec['uf_tables'] = {q: t.entries for q, t in tables.items()}
            rec['callee_calls'] = {q: t.calls for q, t in tables.items() if t.calls}
            rec['native'] = out
            if clause:
                rec['confirmed'] = (out['clause_value'] is False)
            elif ob.name.startswith('noexc.'):
                exn = ob.name.split('.')[1].split('@')[0]
                rec['confirmed'] = (out['raised'] == exn)
            elif ob.name.startswith('raises.'):
                exn = ob.name.split('.')[1].split('@')[0]
                rec['confirmed'] = (out['raised'] == exn)
            rec['kind'] = kind
    except Exception:
        rec['replay_error'] = traceback.format_exc()
    with open(path, 'w') as f:
        json.dump(rec, f, indent=1, sort_keys=True, default=str)
    return {'path': os.path.relpath(path, ROOT), 'confirmed': rec['confirmed']}


def rerun(path):
    rec = json.load(open(path))
    c = REGISTRY.get(rec['function'])
    print('replay of %s / %s' % (rec['function'], rec['obligation']))
    print('solver: %s' % (rec['solver'],))
    if 'params' not in rec:
        print('no concrete input recorded: ' + rec.get('note', rec.get('replay_error', '')))
        return 2
    rb = Rebuilder(rec['objects'])
    tables = {}
    for q, entries in rec.get('uf_tables', {}).items():
        t = UFTable(q, entries=entries, calls=rec.get('callee_calls', {}).get(q))
        t.rebuilder = rb
        tables[q] = t
    concrete = {n: rb.val(dv) for n, dv in rec['params'].items()}
    clause = c.ensures.get(rec['obligation'])
    out = run_native(c, concrete, clause, tables)
    print('native run: %s' % (out,))
    if clause:
        bad = out['clause_value'] is False
    elif rec.get('kind') == 'noexc' and '.' in rec['obligation']:
        # noexc.<Exception>@line: the same exception class has to escape natively
        bad = out['raised'] == rec['obligation'].split('.', 1)[1].split('@')[0]
    else:
        bad = out['raised'] is not None
    print('clause falsified natively' if bad else 'clause NOT falsified natively')
    return 1 if bad else 0
