"""Per-property extra machinery (bounded stand-ins, table obligations).  Each hook returns a dict
with optional keys: obligations, discharged, violations, known, bounded, trusted, samples, detail."""
HOOKS = {}


def hook(prop):
    def deco(f):
        HOOKS.setdefault(prop, []).append(f)
        return f
    return deco


def run(prop, tier, seed):
    out = {'obligations': 0, 'discharged': 0, 'violations': [], 'known': [], 'bounded': [], 'trusted': [],
           'samples': [], 'detail': {}, 'assumptions': [], 'undecided': []}
    import importlib, os
    d = os.path.join(os.path.dirname(os.path.dirname(os.path.abspath(__file__))), 'contracts', 'extra')
    if os.path.isdir(d):
        for f in sorted(os.listdir(d)):
            if f.endswith('.py') and f != '__init__.py':
                importlib.import_module('contracts.extra.' + f[:-3])
    for h in HOOKS.get(prop, []):
        r = h(tier, seed) or {}
        for k in ('obligations', 'discharged'):
            out[k] += r.get(k, 0)
        for k in ('violations', 'known', 'bounded', 'trusted', 'samples', 'assumptions', 'undecided'):
            out[k].extend(r.get(k, []))
        out['detail'].update(r.get('detail', {}))
    return out
