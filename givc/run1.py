import sys, time
sys.path.insert(0, '/verif')
from givc import harness; harness.install()
import importlib
from givc.contracts import REGISTRY
from givc.verify import Executor
from givc import solve
def main():
    mod = sys.argv[1]; qual = sys.argv[2]
    importlib.import_module(mod)
    c = REGISTRY.get(qual)
    ex = Executor()
    t0=time.time()
    obs = ex.verify(c)
    print('generated', len(obs), 'obligations in %.2fs'%(time.time()-t0))
    for r in solve.discharge(ex):
        print('%-50s %-8s %-8s %.3fs %s' % (r.name, r.status, r.backend, r.seconds, r.reason))
        if r.status=='sat' and r.model is not None:
            for n,v in ex.inputs.items():
                val = r.model.eval(v.t, model_completion=True)
                print('    ', n, '=', val)
                if val.decl().name()=='R':
                    for f, arr in sorted(ex.h0.items()):
                        if not f.startswith('$'):
                            print('         .%s = %s' % (f, r.model.eval(arr[val.arg(0)], model_completion=True)))
    print(solve.vacuity(ex))
    print('inlined:', sorted(ex.used_inline)); print('contracts:', sorted(ex.used_contracts)); print('trusted:', sorted(ex.trusted))
main()
