import sys, time
sys.path.insert(0, '/verif')
from givc import harness; harness.install()
import importlib
from givc.contracts import REGISTRY
from givc.verify import Executor
from givc import solve
def main():
    mod = sys.argv[1]; qual = sys.argv[2]
    importlib.import_module(mod)
    c = REGISTRY.get(qual)
    ex = Executor()
    import os
    if os.environ.get('GIVC_TRACE'): ex.trace_branches = []; ex.debug_assumed = []
    t0=time.time()
    obs = ex.verify(c)
    print('generated', len(obs), 'obligations in %.2fs'%(time.time()-t0))
    inc = solve.Incremental(ex)
    for r in (inc.check(ob) for ob in ex.obligations):
        print('%-50s %-8s %-8s %.3fs %s' % (r.name, r.status, r.backend, r.seconds, r.reason))
        if r.status=='sat' and r.model is not None:
            from givc.replay import Builder
            b=Builder(ex, r.model)
            params={n:b.desc(v.t) for n,v in ex.inputs.items()}
            print('     params', params)
            for k,o in b.objs.items():
                if o.get('global'): print('      ',k,'=',o['global']); continue
                fl={f:v for f,v in (o.get('fields') or {}).items() if v not in (['none'],['bool',False])}
                print('      ',k,o.get('cls'),fl, o.get('items') or '', o.get('dict') or '')
            if hasattr(ex,'result') and hasattr(ex.result,'t'): print('     result', b.desc(ex.result.t))
            import os
            if os.environ.get('GIVC_EXPLAIN') and r.name in os.environ.get('GIVC_PROBE_OB', r.name):
                from givc.explain import explain
                import z3
                fld, who = os.environ['GIVC_EXPLAIN'].split('@')
                from givc.vals import Val
                t = z3.Select(ex.post_state.heap[fld], Val.r(ex.inputs[who].t))
                print('\n'.join(explain(r.model, t)))
            if os.environ.get('GIVC_TRACE') and r.name in os.environ.get('GIVC_PROBE_OB', r.name):
                import z3
                for (ln, fn, cnd, g) in ex.trace_branches:
                    if z3.is_true(r.model.eval(g, model_completion=True)):
                        print('     TRACE %s:%d cond=%s  %s' % (fn.split('.')[-1], ln, r.model.eval(cnd, model_completion=True), str(cnd).replace('\n',' ')[:150]))
            if os.environ.get('GIVC_TRACE') and r.name in os.environ.get('GIVC_PROBE_OB', r.name):
                for (q, nm, ln, wd, tr, g) in ex.debug_assumed:
                    ev = lambda t: r.model.eval(t, model_completion=True)
                    print('     ASSUMED %s:%s@%d guard=%s wd=%s truth=%s' % (q.split('.')[-1], nm, ln, ev(g), ev(wd), ev(tr)))
            if os.environ.get('GIVC_WHY') and r.name in os.environ.get('GIVC_PROBE_OB', r.name):
                from givc.explain import explain_bool
                ob = [o for o in ex.obligations if o.name == r.name][0]
                print('\n'.join(explain_bool(r.model, ob.cond, maxd=int(os.environ['GIVC_WHY']))))
            if os.environ.get('GIVC_CONSTS') and r.name in os.environ.get('GIVC_PROBE_OB', r.name):
                for d in r.model.decls():
                    if any(k in d.name() for k in os.environ['GIVC_CONSTS'].split(',')) and d.arity()==0:
                        print('     CONST', d.name(), '=', r.model[d])
            if os.environ.get('GIVC_PROBE') and r.name in os.environ.get('GIVC_PROBE_OB', r.name):
                from givc.engine import State
                from givc.contracts import parse_expr
                for pe in os.environ['GIVC_PROBE'].split(';;'):
                    env = dict(ex.top_env); env['result'] = ex.result
                    for where, stt in (('post', ex.post_state), ('pre', ex.top_pre)):
                        try:
                            s2 = State(dict(env), dict(stt.heap), stt.guard)
                            fr = ex.spec_frame(c, ex.top_pre); ex.frames.append(fr)
                            try: v = ex.eval(s2, parse_expr(pe))
                            finally: ex.frames.pop()
                            print('     PROBE[%s] %s = %s  (welldef %s)' % (where, pe, b.desc(v.t) if hasattr(v,'t') else v, r.model.eval(s2.guard, model_completion=True)))
                        except Exception as e: print('     PROBE', pe, 'error', e)
    vac = solve.vacuity(ex); print(vac)
    if any(v=='unsat' for k,v in vac):
        import z3
        s=z3.Solver(); s.set(unsat_core=True)
        for i,a in enumerate(ex.assumes): s.assert_and_track(a, 'a%d'%i)
        s.assert_and_track(ex.normal_guard,'normal')
        print(s.check())
        core=s.unsat_core(); print(core)
        for x in core:
            n=str(x)
            if n.startswith('a'): print(n, str(ex.assumes[int(n[1:])])[:600])
    print('inlined:', sorted(ex.used_inline)); print('contracts:', sorted(ex.used_contracts)); print('trusted:', sorted(ex.trusted))
main()
