import z3
def explain(model, t, depth=0, maxd=40, out=None):
    """Follow the branches of an if-then-else / store nest that the model takes."""
    out = out if out is not None else []
    if depth > maxd:
        out.append('...'); return out
    if z3.is_app(t) and t.decl().kind() == z3.Z3_OP_ITE:
        c = t.arg(0)
        cv = z3.is_true(model.eval(c, model_completion=True))
        out.append('%sITE cond=%s : %s' % ('  '*depth, cv, str(c).replace('\n',' ')[:300]))
        return explain(model, t.arg(1) if cv else t.arg(2), depth+1, maxd, out)
    if z3.is_app(t) and t.decl().kind() == z3.Z3_OP_SELECT:
        arr, idx = t.arg(0), t.arg(1)
        iv = model.eval(idx, model_completion=True)
        while z3.is_app(arr) and arr.decl().kind() in (z3.Z3_OP_STORE, z3.Z3_OP_ITE):
            if arr.decl().kind() == z3.Z3_OP_ITE:
                cv = z3.is_true(model.eval(arr.arg(0), model_completion=True))
                out.append('%sARR-ITE cond=%s : %s' % ('  '*depth, cv, str(arr.arg(0)).replace('\n',' ')[:300]))
                arr = arr.arg(1) if cv else arr.arg(2)
                continue
            si = model.eval(arr.arg(1), model_completion=True)
            if si.eq(iv):
                out.append('%sSTORE hit idx=%s val=%s' % ('  '*depth, iv, str(arr.arg(2)).replace('\n',' ')[:200]))
                return explain(model, arr.arg(2), depth+1, maxd, out)
            arr = arr.arg(0)
        out.append('%sBASE %s[%s] = %s' % ('  '*depth, str(arr)[:80], iv, model.eval(z3.Select(arr, idx), model_completion=True)))
        return out
    out.append('%sLEAF %s = %s' % ('  '*depth, str(t).replace('\n',' ')[:200], model.eval(t, model_completion=True)))
    return out


def explain_bool(model, t, depth=0, maxd=6, out=None):
    out = out if out is not None else []
    v = model.eval(t, model_completion=True)
    txt = str(t).replace('\n', ' ')
    txt = ' '.join(txt.split())
    out.append('%s[%s] %s' % ('  ' * depth, v, txt[:160]))
    if depth >= maxd or not z3.is_app(t):
        return out
    k = t.decl().kind()
    if k in (z3.Z3_OP_AND, z3.Z3_OP_OR, z3.Z3_OP_NOT, z3.Z3_OP_IMPLIES, z3.Z3_OP_ITE, z3.Z3_OP_EQ, z3.Z3_OP_DISTINCT):
        for a in t.children():
            if k == z3.Z3_OP_ITE and a is not t.arg(0):
                cv = z3.is_true(model.eval(t.arg(0), model_completion=True))
                if (a.eq(t.arg(1)) and not cv) or (a.eq(t.arg(2)) and cv):
                    continue
            explain_bool(model, a, depth + 1, maxd, out)
    elif t.num_args() == 1:
        explain_bool(model, t.arg(0), depth + 1, maxd, out)
    return out
