"""Run-time vocabulary of translated C functions (see cfront.py).  The symbolic executor dispatches on
these names; the python bodies give the same meaning for native evaluation."""


class Cell(object):
    """an `int *` / `T **` out-parameter or an address-taken local: one mutable slot"""
    def __init__(self, val=None):
        self.val = val


def __newcell(v=0):
    return Cell(v)


def __uninit():
    return None


def __truth(x):
    return bool(x)


def __cbool(b):
    return 1 if b else 0


def __cast(e, tname):
    return e


def __align_mask(x, a):
    return x & ~(a - 1)


def __cdiv(a, b):
    q = abs(a) // abs(b)
    return q if (a >= 0) == (b >= 0) else -q


def __bitnot(x):
    return ~x


class CFunction(object):
    """reference to a C function of the translation unit: called by contract `c:<name>`"""
    def __init__(self, name):
        self.name = name


def __elemref(base, offset):
    """&base[offset]: address of a byte inside a buffer - an abstract location (base, offset)"""
    return (base, offset)


def __ptradd(p, k):
    """pointer arithmetic on an array of structs: elements are consecutive references"""
    return p


def __ptrint(p):
    return p


def __newstruct(tname):
    return None
