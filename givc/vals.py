"""SMT value universe for the Python front end.

Val = N | B(bool) | I(int) | S(str) | R(ref) | Absent
Heap: one SMT array Int->Val per attribute name (Burstall/Bornat component model),
$LEN : Int->Int and $ELEM : Int->(Int->Val) for lists/tuples, $DMAP : Int->(Val->Val) for dicts/sets.
cls : Int -> Int gives the class id of a reference (immutable).
"""
import z3

_V = z3.Datatype('Val')
_V.declare('N')
_V.declare('B', ('b', z3.BoolSort()))
_V.declare('I', ('i', z3.IntSort()))
_V.declare('S', ('s', z3.StringSort()))
_V.declare('R', ('r', z3.IntSort()))
_V.declare('Absent')
Val = _V.create()

IntS = z3.IntSort()
BoolS = z3.BoolSort()
StrS = z3.StringSort()
FieldArr = z3.ArraySort(IntS, Val)
ElemArr = z3.ArraySort(IntS, z3.ArraySort(IntS, Val))
LenArr = z3.ArraySort(IntS, IntS)
DMapInner = z3.ArraySort(Val, Val)
DMapArr = z3.ArraySort(IntS, DMapInner)

cls_of = z3.Function('cls', IntS, IntS)

NONE = Val.N
ABSENT = Val.Absent


def mkB(b):
    if isinstance(b, bool):
        b = z3.BoolVal(b)
    return Val.B(b)


def mkI(i):
    if isinstance(i, int):
        i = z3.IntVal(i)
    return Val.I(i)


def mkS(s):
    if isinstance(s, str):
        s = z3.StringVal(s)
    return Val.S(s)


def mkR(r):
    if isinstance(r, int):
        r = z3.IntVal(r)
    return Val.R(r)


TRUE = mkB(True)
FALSE = mkB(False)


def simp(t):
    return z3.simplify(t)


def is_true(t):
    return z3.is_true(z3.simplify(t))


def is_false(t):
    return z3.is_false(z3.simplify(t))


def And(*xs):
    xs = [x for x in xs if not z3.is_true(x)]
    for x in xs:
        if z3.is_false(x):
            return z3.BoolVal(False)
    if not xs:
        return z3.BoolVal(True)
    if len(xs) == 1:
        return xs[0]
    return z3.And(*xs)


def Or(*xs):
    xs = [x for x in xs if not z3.is_false(x)]
    for x in xs:
        if z3.is_true(x):
            return z3.BoolVal(True)
    if not xs:
        return z3.BoolVal(False)
    if len(xs) == 1:
        return xs[0]
    return z3.Or(*xs)


def Not(x):
    if z3.is_true(x):
        return z3.BoolVal(False)
    if z3.is_false(x):
        return z3.BoolVal(True)
    if z3.is_not(x):
        return x.arg(0)
    return z3.Not(x)


def Ite(c, a, b):
    if z3.is_true(c):
        return a
    if z3.is_false(c):
        return b
    if a.eq(b):
        return a
    return z3.If(c, a, b)


_fresh_counter = [0]


def fresh(prefix, sort=None):
    _fresh_counter[0] += 1
    return z3.Const('%s!%d' % (prefix, _fresh_counter[0]), sort if sort is not None else Val)


def py_of_val(model, term):
    """Evaluate a Val term in a model to a small python description."""
    v = model.eval(term, model_completion=True)
    if z3.is_app(v):
        name = v.decl().name()
        if name == 'N':
            return ('none', None)
        if name == 'Absent':
            return ('absent', None)
        if name == 'B':
            return ('bool', z3.is_true(v.arg(0)))
        if name == 'I':
            return ('int', v.arg(0).as_long())
        if name == 'S':
            return ('str', v.arg(0).as_string())
        if name == 'R':
            return ('ref', v.arg(0).as_long())
    return ('?', str(v))
