"""Executor = engine + mixins; call-by-contract; top-level verification of one function."""
import ast as pyast
import inspect
import time
import types
import re as _re
import z3

from .vals import *    # noqa
from .model import *   # noqa
from .engine import Engine, State, Exit, Frame, Obligation, UNBOUND
from .exprs import ExprMixin
from .stmts import StmtMixin
from .calls import CallMixin, func_ast, qualname
from .contracts import Contract, REGISTRY, parse_expr, resolve_function


class Event(object):
    def __init__(self, guard, qual, env, line, caller_locals=None):
        self.guard = guard
        self.qual = qual
        self.env = env
        self.line = line
        self.caller_locals = caller_locals or {}


class Executor(Engine, ExprMixin, StmtMixin, CallMixin):

    def __init__(self, registry=REGISTRY):
        Engine.__init__(self, registry)
        self.events = []
        self.top_exits = []
        self.stored_fields = set()
        self.logger = None
        self.spec_globals = {}
        self.call_log = []
        self.folds = {}
        self.events_locals = {}
        self.caller_vars_snapshot = None

    # ------------------------------------------------------------------ spec evaluation
    def spec_frame(self, c, old_state):
        fr = Frame('<spec:%s>' % c.qual, c.module, None)
        fr.spec_mode = True
        fr.contract = c
        fr.extra_globals = self.spec_globals
        old = old_state

        def old_state_copy():
            s = old.copy()
            return s
        fr.old_state_copy = old_state_copy
        return fr

    def eval_spec(self, st, expr, c, env, old_state):
        """Evaluate a contract expression at state st; returns (welldefined_guard, truth)."""
        s2 = State(dict(env), dict(st.heap), st.guard)
        fr = self.spec_frame(c, old_state)
        self.frames.append(fr)
        saved = (self.check_schema_stores,)
        self.check_schema_stores = False
        n_obl = len(self.obligations)
        try:
            v = self.eval(s2, parse_expr(expr))
            truth = self.truthy(s2, v)
        finally:
            self.frames.pop()
            self.check_schema_stores = saved[0]
            del self.obligations[n_obl:]
        return s2.guard, truth

    def calls_satisfy(self, st, qual, expr, c, count=False):
        """all_calls(qual, expr): every recorded call of the (assumed-contract) callee `qual` on the path satisfies
        expr (an expression over the callee's parameter names and the current function's parameters)."""
        conj = []
        for ev in self.events:
            if ev.qual != qual and not ev.qual.endswith('.' + qual):
                continue
            env = dict(self.top_env)
            env.update(self.events_locals)
            env.update({'local_' + k: v for k, v in ev.caller_locals.items() if v is not UNBOUND})
            env.update({'arg_' + k: v for k, v in ev.env.items()})
            s2 = State(dict(env), dict(st.heap), st.guard)
            fr = self.spec_frame(c, self.top_pre)
            self.frames.append(fr)
            try:
                v = self.eval(s2, parse_expr(expr))
                t = self.truthy(s2, v)
            finally:
                self.frames.pop()
            conj.append(z3.Implies(ev.guard, t))
        return And(*conj) if conj else z3.BoolVal(True)

    def calls_ordered(self, first, second):
        """every recorded call of `first` precedes (in program order) every call of `second` on the same path"""
        conj = []
        for i, a in enumerate(self.events):
            if not (a.qual == second or a.qual.endswith('.' + second)):
                continue
            for b in self.events[i + 1:]:
                if b.qual == first or b.qual.endswith('.' + first):
                    conj.append(Not(And(a.guard, b.guard)))
        return And(*conj) if conj else z3.BoolVal(True)

    def calls_preceded(self, later, earlier):
        """every recorded call of `later` is preceded (in program order, on the same path) by a call of `earlier`"""
        conj = []
        for i, b in enumerate(self.events):
            if not (b.qual == later or b.qual.endswith('.' + later)):
                continue
            before = [a.guard for a in self.events[:i] if a.qual == earlier or a.qual.endswith('.' + earlier)]
            conj.append(z3.Implies(b.guard, Or(*before)))
        return And(*conj) if conj else z3.BoolVal(True)

    def let_env(self, c, env, pre):
        """`let` names are macros evaluated in the pre-state."""
        out = dict(env)
        for name, expr in c.let.items():
            s2 = State(dict(out), dict(pre.heap), pre.guard)
            fr = self.spec_frame(c, pre)
            self.frames.append(fr)
            try:
                out[name] = self.eval(s2, parse_expr(expr))
            finally:
                self.frames.pop()
        return out

    # ------------------------------------------------------------------ havoc
    def havoc(self, st, c, env, items):
        recs = []
        for m in items:
            r = self.havoc_one(st, c, env, m)
            if r is not None:
                recs.append(r)
        return recs

    def havoc_one(self, st, c, env, m):
        m = m.strip()
        if m in ('*[]', '*{}'):
            # the contents of every list / every dict and set may change (coarse frame of an assumed contract);
            # lengths stay non-negative by the typing assumptions made at loads
            if m == '*[]':
                st.heap['$ELEM'] = fresh('hv_all_elem', ElemArr)
                st.heap['$OFF'] = fresh('hv_all_off', LenArr)
            else:
                st.heap['$DMAP'] = fresh('hv_all_dmap', z3.ArraySort(IntS, DMapInner))
            st.heap['$LEN'] = fresh('hv_all_len', LenArr)
            return
        if m.startswith('$'):
            st.heap[m] = fresh('hv_' + m[1:], IntS)
            return
        if m.startswith('*.'):
            f = m[2:]
            if f.endswith(('{}', '[]')):
                raise EngineError('frame pattern %s is not supported (the containers stored in a field of all objects cannot be named; '
                                  'use *{} / *[] or name the objects)' % m)
            st.heap[f] = fresh('hv_' + f, FieldArr)
            return
        if m.endswith('{}') or m.endswith('[]'):
            base = self.eval_in(st, c, env, m[:-2])
            r = Val.r(base.t)
            isref = Val.is_R(base.t)      # nothing to change when the container does not exist (None / absent attribute)

            def upd(name, newval):
                arr = self.harr(st, name)
                st.heap[name] = Ite(isref, z3.Store(arr, r, newval), arr)
            if m.endswith('{}'):
                upd('$DMAP', fresh('hv_dmap', DMapInner))
            else:
                upd('$ELEM', fresh('hv_elem', z3.ArraySort(IntS, Val)))
                upd('$OFF', z3.IntVal(0))
            nl = fresh('hv_len', IntS)
            self.assume(st, nl >= 0)
            upd('$LEN', nl)
            return
        base_expr, f = m.rsplit('.', 1)
        base = self.eval_in(st, c, env, base_expr)
        nv = fresh('hv_' + f)
        spec = None
        classes = self.static_classes(base)
        if classes:
            spec = field_spec(classes, f)
        if spec is not None:
            self.assume(st, spec.assumption(nv))
            self.assume_class_invariants(st, nv, spec)
        self.known_ref(st, nv)
        cond_none = Val.is_N(base.t) if (base.hint is None or base.hint.opt) else z3.BoolVal(False)
        arr = self.harr(st, f)
        st.heap[f] = Ite(cond_none, arr, z3.Store(arr, Val.r(base.t), nv))
        return (base_expr, f, nv)

    def eval_in(self, st, c, env, expr):
        s2 = State(dict(env), dict(st.heap), st.guard)
        fr = self.spec_frame(c, s2)
        self.frames.append(fr)
        try:
            return self.eval(s2, parse_expr(expr))
        finally:
            self.frames.pop()

    # ------------------------------------------------------------------ call by contract
    def callee_env(self, st, c, f, args, kwargs):
        names = None
        if isinstance(f, types.FunctionType) and (f.__module__ or '').split('.')[0] in ('giscanner', 'contracts'):
            fnode = func_ast(f)
            return self.bind(fnode, args, kwargs, st=st)
        names = list(c.params)
        env = {}
        for n, v in zip(names, args):
            env[n] = v
        env.update(kwargs)
        for n in names:
            env.setdefault(n, self.lift(None))
        return env

    @staticmethod
    def ghost_names(c):
        """ghost parameters and the `let` names that (transitively) depend on them"""
        names = set(c.ghost)
        changed = True
        while changed:
            changed = False
            for ln, le in c.let.items():
                if ln not in names and any(_re.search(r'\b%s\b' % _re.escape(g), le) for g in names):
                    names.add(ln)
                    changed = True
        return names

    def apply_contract(self, st, c, f, args, kwargs, line):
        self.used_contracts.add(c.qual)
        caller_vars_snapshot = dict(st.vars)      # the caller's locals at the call (for call-discipline clauses)
        env = self.callee_env(st, c, f, args, kwargs)
        if getattr(self.frame(), 'spec_mode', False) or any(getattr(fr, 'spec_mode', False) for fr in self.frames):
            # inside a specification: only pure (uninterpreted) callees make sense; no effects, no exceptions
            if c.pure_keys is None:
                raise EngineError('specification calls impure function %s' % c.qual)
            for n, specs in c.params.items():
                v = env.get(n)
                if isinstance(v, V):
                    env[n] = V(v.t, parse_spec(specs))
            gnames = self.ghost_names(c)
            for gname, gspec in c.ghost.items():
                env[gname] = V(fresh('cg_' + gname), parse_spec(gspec))
                self.assume(st, parse_spec(gspec).assumption(env[gname].t))
            pre = State(dict(env), dict(st.heap), st.guard)
            env = self.let_env(c, env, pre)
            pre.vars = dict(env)
            keys = [self.eval_in(pre, c, env, k) for k in c.pure_keys]
            uf = self.get_uf('pure_' + c.qual.replace('.', '_'), *([Val] * len(keys) + [Val]))
            rt = uf(*[k.t for k in keys])
            rspec = parse_spec(c.returns) if c.returns else None
            if rspec is not None:
                self.assume(st, self.spec_formula(st, rspec, rt))
            res = V(rt, rspec)
            env2 = dict(env)
            env2['result'] = res
            import re as _re2
            # defining equations of specification functions are instantiated to a bounded depth
            self.axiom_depth = getattr(self, 'axiom_depth', 0) + 1
            try:
                if self.axiom_depth <= 2:
                    for name, expr in c.ensures.items():
                        if 'FOLD(' in expr or any(_re2.search(r'\b%s\b' % _re2.escape(g), expr) for g in gnames):
                            continue
                        wd, truth = self.eval_spec(st, expr, c, env2, pre)
                        self.assume(st, z3.Implies(wd, truth))
            finally:
                self.axiom_depth -= 1
            return res
        # re-hint arguments with the declared parameter types; caller must establish them
        for n, specs in c.params.items():
            if isinstance(specs, str) and specs.startswith('class:'):
                continue
            spec = parse_spec(specs)
            v = env.get(n)
            if isinstance(v, V) and spec is not None:
                if v.hint is None or repr(v.hint) != repr(spec):
                    self.oblige(st, 'calltype:%s:%s@%d' % (c.qual.split('.')[-1], n, line), self.spec_formula(st, spec, v.t),
                                'argument %s of %s must have declared type %s' % (n, c.qual, specs))
                    env[n] = V(v.t, spec)
        gnames = self.ghost_names(c)
        ghost_consts = {}
        for gname, gspec in c.ghost.items():
            if any(_re.search(r'\b%s\b' % _re.escape(gname), r0) for r0 in c.requires):
                raise EngineError('ghost %s of %s is constrained by a precondition: not usable at call sites' % (gname, c.qual))
            env[gname] = V(fresh('cg_' + gname), parse_spec(gspec))
            self.assume(st, parse_spec(gspec).assumption(env[gname].t))
            ghost_consts[gname] = env[gname].t
        pre = State(dict(env), dict(st.heap), st.guard)
        env = self.let_env(c, env, pre)
        pre.vars = dict(env)
        for i, r in enumerate(c.requires):
            wd, truth = self.eval_spec(st, r, c, env, pre)
            self.oblige(st, 'pre:%s:%d@%d' % (c.qual.split('.')[-1], i, line), And(wd, truth),
                        'precondition of %s: %s' % (c.qual, r))
        if True:
            self.events.append(Event(st.guard, c.qual, dict(env), line,
                                     {k: v for k, v in caller_vars_snapshot.items()}))
        havocs = self.havoc(st, c, env, c.modifies)
        call_rec = {'qual': c.qual, 'line': line, 'guard': st.guard, 'havocs': havocs, 'result': None, 'raises': []}
        if c.trusted:
            self.call_log.append(call_rec)
        # exceptional outcomes

        def mentions_ghost(expr):
            return 'FOLD(' in expr or any(_re.search(r'\b%s\b' % _re.escape(g), expr) for g in gnames)
        cur0 = self.cur_contract
        same0 = {}
        if c.ghost and cur0 is not None:
            same0 = {g: self.top_env[g].t for g in c.ghost if g in cur0.ghost and g in getattr(self, 'top_env', {})}
        for exname, cond in c.raises.items():
            exc = self.exc_class(exname)
            if cond != 'maybe' and 'FOLD(' not in cond and mentions_ghost(cond) and same0:
                # permitted only if the condition holds for every ghost value: instantiated at the caller's ghosts
                n0 = len(self.assumes)
                wd, cnd0 = self.eval_spec(pre, cond, c, env, pre)
                side = self.assumes[n0:]
                del self.assumes[n0:]
                sub = [(ghost_consts[g], same0[g]) for g in same0]
                for fml in side:
                    self.assumes.append(z3.substitute(fml, *sub))
                cnd = And(z3.substitute(cnd0, *sub), fresh('may_raise', BoolS))
            elif cond == 'maybe' or mentions_ghost(cond):
                cnd = fresh('may_raise', BoolS)
            else:
                # `raises` states when the exception is *permitted*; whether it happens is unknown
                wd, cnd = self.eval_spec(pre, cond, c, env, pre)
                cnd = And(cnd, fresh('may_raise', BoolS))
            post_exc = st.copy()
            g = And(st.guard, cnd)
            if not is_false(g):
                es = st.copy()
                es.guard = g
                for name, (en, expr) in c.exc_ensures.items():
                    if en == exname:
                        wd2, tr2 = self.eval_spec(es, expr, c, env, pre)
                        self.assumes.append(z3.Implies(es.guard, z3.Implies(wd2, tr2)))
                self.frame_or_top().append(Exit('raise', es, exc=exc, line=line))
                call_rec['raises'].append((exname, cnd))
            st.guard = And(st.guard, Not(cnd))
        # result
        rspec = parse_spec(c.returns) if c.returns else None
        if c.pure_keys is not None:
            keys = [self.eval_in(pre, c, env, k) for k in c.pure_keys]
            uf = self.get_uf('pure_' + c.qual.replace('.', '_'), *([Val] * len(keys) + [Val]))
            rt = uf(*[k.t for k in keys])
        else:
            rt = fresh('res_' + c.qual.split('.')[-1])
        if rspec is not None:
            self.assume(st, self.spec_formula(st, rspec, rt))
            self.assume_class_invariants(st, rt, rspec)
        if c.fresh_result:
            self.alloc_k += 1
            self.assume(st, z3.Implies(Val.is_R(rt), Val.r(rt) == self.alloc0 + self.alloc_k))
            # a freshly allocated result: all declared fields of its class hold some type-correct value
            from .model import SCHEMA
            if rspec is not None and rspec.kind == 'obj':
                done = set()
                for k in rspec.classes:
                    for d in UNIVERSE.subclasses(k) or [k]:
                        for base_cls in d.__mro__:
                            for (kk, fname) in list(SCHEMA):
                                if kk is base_cls and fname not in done and all(
                                        any((b2, fname) in SCHEMA for b2 in k2.__mro__) for k2 in rspec.classes):
                                    done.add(fname)
                                    fs = field_spec(rspec.classes, fname)
                                    nv = fresh('fr_' + fname)
                                    if fs is not None:
                                        self.assume(st, fs.assumption(nv))
                                    self.known_ref(st, nv)
                                    arr0 = self.harr(st, fname)      # nothing is stored when the result is None
                                    st.heap[fname] = Ite(Val.is_R(rt), z3.Store(arr0, Val.r(rt), nv), arr0)
        else:
            self.known_ref(st, rt)
        res = V(rt, rspec)
        call_rec['result'] = rt
        env2 = dict(env)
        env2['result'] = res
        # Clauses over universally quantified ghost parameters: evaluated with the ghosts bound to fresh constants
        # and then instantiated, by substitution, (a) at the caller's own ghosts of the same name and (b) at the terms
        # the caller's contract asks for in ghost_args={callee: [{ghost: expression over the callee's parameters and
        # `result`}, ...]}.  Sound: the callee's contract is proved for arbitrary ghost values.
        insts = []
        cur = self.cur_contract
        if c.ghost and cur is not None:
            same = {g: self.top_env[g].t for g in c.ghost if g in cur.ghost and g in getattr(self, 'top_env', {})}
            if same:
                insts.append(same)
            for binding in (getattr(cur, 'ghost_args', None) or {}).get(c.qual, []):
                m = dict(same)
                env3 = dict(env2)
                for g0 in cur.ghost:          # the caller's own ghosts and (as caller_<name>) its locals at the call site
                    if g0 in getattr(self, 'top_env', {}) and g0 not in env3:
                        env3[g0] = self.top_env[g0]
                for k0, v0 in caller_vars_snapshot.items():
                    env3.setdefault('caller_' + k0, v0)
                for g, gexpr in binding.items():
                    gv = self.eval_in(st, c, env3, gexpr)
                    m[g] = gv.t
                insts.append(m)
        if c.assume_ensures:
            self.trust('assumed (unproved) postconditions of %s: %s' % (c.qual, ', '.join(sorted(c.assume_ensures))))
        for name, expr in list(c.ensures.items()) + list(c.assume_ensures.items()):
            if 'FOLD(' in expr:
                continue
            if any(k in expr for k in ('all_calls(', 'calls_ordered(', 'each_call_preceded(')):
                continue      # call-discipline clauses speak about the callee's own calls; nothing to assume here
            if mentions_ghost(expr):
                if not insts:
                    continue      # no instantiation requested: the clause is not used at this call site
                n0 = len(self.assumes)
                wd, truth = self.eval_spec(st, expr, c, env2, pre)
                self.assume(st, And(wd, truth))
                generic = self.assumes[n0:]
                del self.assumes[n0:]
                for m in insts:
                    sub = [(ghost_consts[g], m[g]) for g in m if g in ghost_consts]
                    for fml in generic:
                        self.assumes.append(z3.substitute(fml, *sub))
                continue
            wd, truth = self.eval_spec(st, expr, c, env2, pre)
            self.assume(st, And(wd, truth))
            if getattr(self, 'debug_assumed', None) is not None:
                self.debug_assumed.append((c.qual, name, line, wd, truth, st.guard))
        return res

    def frame_or_top(self):
        return self.frame().exits if self.frames else self.top_exits

    def exc_class(self, name):
        import builtins
        if hasattr(builtins, name):
            return getattr(builtins, name)
        for m in M_NAMESPACES():
            if hasattr(m, name):
                return getattr(m, name)
        raise EngineError('unknown exception class ' + name)

    # ------------------------------------------------------------------ context managers by contract
    def with_call(self, st, fv, args, kwargs, s, item):
        if isinstance(fv, Bound) and isinstance(fv.func, types.FunctionType):
            f = fv.func
            q = qualname(inspect.unwrap(f))
            c = self.registry.get(q)
            if c is not None and self.registry.mode_for(q, self.cur_contract) == 'contract':
                # enter event; body; exit is part of the context manager's (trusted or proved) contract
                self.apply_contract(st, c, inspect.unwrap(f), [fv.selfv] + args, kwargs, s.lineno)
                self.exec_block(st, s.body)
                return
            if self.registry.mode_for(q, self.cur_contract) == 'inline':
                return self.with_inline(st, inspect.unwrap(f), [fv.selfv] + args, kwargs, s)
        raise EngineError('with-statement on %r needs a context-manager contract' % (fv,))

    def with_inline(self, st, f, args, kwargs, s):
        """Inline a @contextmanager generator of the shape  pre; try: yield finally: post."""
        fnode = func_ast(f)
        body = fnode.body
        tries = [b for b in body if isinstance(b, pyast.Try)]
        if len(tries) != 1 or not tries[0].finalbody or tries[0].handlers or \
                not (len(tries[0].body) == 1 and isinstance(tries[0].body[0], pyast.Expr)
                     and isinstance(tries[0].body[0].value, pyast.Yield)):
            raise EngineError('context manager %s is not of the shape pre; try: yield finally: post' % f.__qualname__)
        idx = body.index(tries[0])
        env = self.bind(fnode, args, kwargs, st=st)
        mod = inspect.getmodule(f)
        caller_vars = st.vars
        fr = self.frame()

        def run_cm(state, stmts):
            saved_vars = state.vars
            saved_mod, saved_env = fr.module, fr.closure_env
            state.vars = env
            fr.module, fr.closure_env = mod, None
            try:
                self.exec_block(state, stmts)
            finally:
                fr.module, fr.closure_env = saved_mod, saved_env
                state.vars = saved_vars
        run_cm(st, body[:idx])
        start = len(fr.exits)
        self.exec_block(st, s.body)
        escaping = fr.exits[start:]
        del fr.exits[start:]
        for e in escaping:
            run_cm(e.state, tries[0].finalbody)
            if not e.state.dead():
                fr.exits.append(e)
        run_cm(st, tries[0].finalbody)
        run_cm(st, body[idx + 1:])

    # ------------------------------------------------------------------ loops with invariants
    def loop_spec(self, ordinal):
        c = self.cur_contract
        fr = self.frame()
        key = ordinal
        if len(self.frames) > 1 or c is None:
            key = (fr.func_name, ordinal)
        spec = c.loops.get(key) if c is not None else None
        if spec is None and c is not None:
            spec = c.loops.get((fr.func_name.split('.')[-1], ordinal))
        if spec is None:
            spec = self.registry.global_loops.get((fr.func_name, ordinal))
        return spec

    def assigned_names(self, stmts):
        out = []
        for s in stmts:
            for n in pyast.walk(s):
                if isinstance(n, pyast.Name) and isinstance(n.ctx, pyast.Store):
                    if n.id not in out:
                        out.append(n.id)
        return out

    def loop_env(self, st):
        return dict(st.vars)

    def check_inv(self, st, spec, name, kind, pre_loop):
        c = self.cur_contract
        for i, inv in enumerate(spec.get('invariant', [])):
            env = dict(self.top_env)
            env.update({k: v for k, v in st.vars.items() if v is not UNBOUND})
            wd, truth = self.eval_spec(st, inv, c, env, self.top_pre)
            self.oblige(st, '%s.inv%d.%s' % (name, i, kind), And(wd, truth), 'loop invariant: ' + inv)

    def assume_inv(self, st, spec, generalize=False):
        c = self.cur_contract
        for lemma in spec.get('assume', []):
            # trusted lemma instances (facts about library functions stated over the loop's variables); never proved here
            env = dict(self.top_env)
            env.update({k: v for k, v in st.vars.items() if v is not UNBOUND})
            wd, truth = self.eval_spec(st, lemma, c, env, self.top_pre)
            self.assume(st, z3.Implies(wd, truth))
            self.trust('assumed lemma: ' + lemma)
        for inv in spec.get('invariant', []):
            env = dict(self.top_env)
            env.update({k: v for k, v in st.vars.items() if v is not UNBOUND})
            n0 = len(self.assumes)
            wd, truth = self.eval_spec(st, inv, c, env, self.top_pre)
            self.assume(st, And(wd, truth))
            if generalize:
                # Invariants are proved inductive for an arbitrary, unconstrained ghost index, hence they hold at the
                # loop head for every index; list.sort instantiates them at the permuted positions (calls.list_sort),
                # dictionary reads inside the loop body instantiate them at the key that is read (exprs.getitem).
                for g in spec.get('generalize', []):
                    if any(_re.search(r'\b%s\b' % _re.escape(g), r0) for r0 in c.requires):
                        raise EngineError('ghost %s is constrained by a precondition and cannot be generalised' % g)
                    if _re.search(r'\b%s\b' % _re.escape(g), inv):
                        target = self.generalized if generalize is True else self.generalized_keys
                        target.append((self.top_env[g].t, list(self.assumes[n0:])))

    def havoc_loop(self, st, spec, body_stmts, extra_vars=()):
        c = self.cur_contract
        names = self.assigned_names(body_stmts) + list(extra_vars)
        vt = spec.get('var_types', {})
        for n in names:
            if n in st.vars or n in vt:
                old = st.vars.get(n)
                hint = parse_spec(vt[n]) if n in vt else (old.hint if isinstance(old, V) else None)
                if old is not None and old is not UNBOUND and not isinstance(old, V):
                    raise EngineError('loop modifies non-scalar local %s (%r)' % (n, old))
                nv = fresh('lv_' + n)
                if hint is not None:
                    self.assume(st, hint.assumption(nv))
                self.known_ref(st, nv)
                st.vars[n] = V(nv, hint)
        for n, tsp in vt.items():
            # a local list that the loop mutates in place (not reassigned): its declared element type is a data
            # invariant - established because the list is empty at loop entry (obligation in retype_locals) and every
            # append inside the loop is checked against it
            old = st.vars.get(n)
            if n not in names and isinstance(old, V):
                st.vars[n] = V(old.t, parse_spec(tsp))
        env = dict(self.top_env)
        env.update({k: v for k, v in st.vars.items() if v is not UNBOUND})
        for m in spec.get('modifies', []):
            try:
                self.havoc(st, c, env, [m])
            except EngineError as e:
                if 'unknown name' not in str(e):
                    raise
                # names a local the code does not have (any more): nothing to havoc, and loop_frame permits nothing for it

    def retype_locals(self, st, spec, body_stmts, name):
        names = self.assigned_names(body_stmts)
        for n, tsp in spec.get('var_types', {}).items():
            old = st.vars.get(n)
            sp = parse_spec(tsp)
            if n not in names and isinstance(old, V) and repr(old.hint) != repr(sp):
                # the variable is not reassigned by the loop: the declared type has to hold at loop entry
                self.oblige(st, '%s.vartype.%s.init' % (name, n), sp.assumption(old.t),
                            'the local %s has the type %s declared for the loop at loop entry' % (n, tsp))
                if sp.kind == 'list' and sp.elem is not None:
                    self.oblige(st, '%s.elemtype.%s.init' % (name, n), self.list_len(st, Val.r(old.t)) == 0,
                                'the list %s, given the element type %s for the loop, is empty at loop entry' % (n, tsp))

    def ghost_init(self, st, spec):
        """ghost variables captured at loop entry (visible to invariants and to the postconditions)"""
        c = self.cur_contract
        for gname, expr in spec.get('ghost_init', {}).items():
            env = dict(self.top_env)
            env.update({k: v for k, v in st.vars.items() if v is not UNBOUND})
            v = self.eval_in(st, c, env, expr)
            if isinstance(v, V):
                # freeze the value: a fresh constant equal to it on this path
                k = fresh('ghost_' + gname)
                self.assume(st, k == v.t)
                v = V(k, v.hint)
            self.top_env[gname] = v

    def fold_value(self, name, k):
        """FOLD(name, k): value of the declared left fold after k elements (uninterpreted; the defining
        equations are instantiated at 0 and at the loop index by the generator)."""
        decl = self.folds.get(name)
        if decl is None:
            raise EngineError('unknown fold %s' % name)
        uf = self.get_uf('fold_' + name, IntS, Val)
        return V(uf(k), parse_spec(decl.get('type')))

    def fold_axioms(self, st, spec, ivar_term, at_head):
        c = self.cur_contract
        for name, decl in spec.get('folds', {}).items():
            self.folds[name] = decl
            uf = self.get_uf('fold_' + name, IntS, Val)
            env = dict(self.top_env)
            env.update({k: v for k, v in st.vars.items() if v is not UNBOUND})
            ts = parse_spec(decl.get('type'))
            if not at_head:
                init = self.eval_in(st, c, env, decl['init'])
                self.assume(st, uf(z3.IntVal(0)) == init.t)
            else:
                env['ACC'] = V(uf(ivar_term), ts)
                nxt = self.eval_in(st, c, env, decl['step'])
                self.assume(st, uf(ivar_term + 1) == nxt.t)
                if ts is not None:
                    self.assume(st, ts.assumption(uf(ivar_term)))
                    self.assume(st, ts.assumption(uf(ivar_term + 1)))

    def loop_for_invariant(self, st, s, it, ordinal):
        spec = self.loop_spec(ordinal)
        if spec is None:
            raise EngineError('loop %d over a symbolic iterable needs an invariant (line %d)' % (ordinal, s.lineno))
        fr = self.frame()
        name = 'loop%d' % ordinal
        ivar = spec.get('index', 'I%d' % ordinal)
        used = {n.id for b in s.body + s.orelse for n in pyast.walk(b) if isinstance(n, pyast.Name)}
        spec_text = ' '.join(spec.get('invariant', []) + spec.get('modifies', []) + spec.get('assume', []))
        for vn, vv in list(st.vars.items()):
            if isinstance(vv, GList) and (vn in used or _re.search(r'\b%s\b' % _re.escape(vn), spec_text)):
                # locally built lists that the loop touches become heap lists at an invariant cut (a list that the loop
                # neither mentions nor is specified over keeps its symbolic form: nothing in the loop can change it)
                st.vars[vn] = self.as_v(st, vv)
        # iterable: symbolic list, or dict view
        view = None
        if isinstance(it, PyObj) and isinstance(it.o, tuple) and it.o and it.o[0] == 'dictview':
            view = it.o[1]
            dv = it.o[2]
            seq = self.dict_order(st, dv)
        elif isinstance(it, PyObj) and isinstance(it.o, tuple) and len(it.o) == 2 and it.o[0] is enumerate:
            seq = it.o[1][0]
            view = 'enumerate'
        else:
            seq = it
        if view in ('items', 'keys', 'values'):
            # specifications name the visiting order of a dict loop: ITER<n>[k] is the key visited at position k
            st.vars['ITER%d' % ordinal] = seq
        if isinstance(seq, V) and seq.hint is not None and seq.hint.kind == 'obj' and not seq.hint.opt:
            # an object that is iterated: its sequence of items is given by the (assumed) contract of <Class>.__iter__
            for cls in seq.hint.classes:
                q = '%s.%s.__iter__' % (cls.__module__, cls.__qualname__)
                if self.registry.get(q) is not None:
                    seq = self.apply_contract(st, self.registry.get(q), None, [seq], {}, s.lineno)
                    break
        is_str = isinstance(seq, V) and seq.hint is not None and seq.hint.kind == 'str' and not seq.hint.opt
        is_range = (isinstance(seq, PyObj) and isinstance(seq.o, tuple) and len(seq.o) == 2 and seq.o[0] is range and
                    len(seq.o[1]) == 1 and isinstance(seq.o[1][0], V))
        if is_range:
            # for i in range(n) with a symbolic n: the i-th item is i, the length is max(n, 0)
            bound = Val.i(seq.o[1][0].t)
            rng_len = z3.If(bound >= 0, bound, z3.IntVal(0))
            is_str = True          # shares the "immutable sequence" path below (no list reference, no iter_unchanged)
            sstr = None
            r = None
            length_of = lambda state: rng_len
        elif not is_str and not (isinstance(seq, V) and seq.hint is not None and seq.hint.kind in ('list', 'tuple', 'dict', 'set')):
            raise EngineError('for-loop over %r' % (seq,))
        if is_range:
            pass
        elif is_str:
            # iteration over the characters of an (immutable) string
            sstr = Val.s(seq.t)
            r = None
            length_of = lambda state: z3.Length(sstr)
        else:
            r = Val.r(seq.t)
            length_of = lambda state: self.list_len(state, r)
        n = length_of(st)
        self.assume(st, n >= 0)
        st.vars[ivar] = V(mkI(0), parse_spec('int'))
        self.ghost_init(st, spec)
        self.fold_axioms(st, spec, None, False)
        self.check_inv(st, spec, name, 'init', None)
        body_stmts = s.body + [pyast.Assign(targets=[s.target], value=pyast.Constant(value=None))]
        self.retype_locals(st, spec, body_stmts, name)
        # the state after the loop: an arbitrary state satisfying the invariant with the index at the end.
        # It is havocked separately from the body state below (independent constants), so that facts recorded
        # inside the body (call events, exits) stay compatible with the path that continues after the loop.
        after = st.copy()
        self.havoc_loop(after, spec, body_stmts)
        iv_e = fresh('Iend', IntS)
        after.vars[ivar] = V(mkI(iv_e), parse_spec('int'))
        n_e = length_of(after)
        self.assume(after, And(iv_e >= 0, iv_e <= n_e))
        self.assume_inv(after, spec, generalize=True)
        after.guard = And(after.guard, iv_e >= n_e)
        # the body: an arbitrary iteration
        self.havoc_loop(st, spec, body_stmts)
        iv = fresh('I', IntS)
        st.vars[ivar] = V(mkI(iv), parse_spec('int'))
        n = length_of(st)
        self.assume(st, And(iv >= 0, iv <= n))
        self.assume_inv(st, spec, generalize='body')
        body_start = st.copy()
        body_start_k = self.alloc_k
        if not is_str:
            head_elem = z3.Select(self.harr(st, '$ELEM'), r)
            head_off = self.list_off(st, r)
        # body path
        st.guard = And(st.guard, iv < n)
        body_rec = {'name': name, 'guard': st.guard, 'cond': iv < n, 'n_begin': len(self.assumes)}
        self.body_regions.append(body_rec)
        if is_range:
            elem_t = mkI(iv)
            es = parse_spec('int')
        elif is_str:
            elem_t = mkS(z3.SubString(sstr, iv, 1))
            es = parse_spec('str')
            self.assume(st, z3.Length(z3.SubString(sstr, iv, 1)) == 1)
        else:
            elem_t = self.list_elem(st, r, iv)
            self.note_distinct_read(st, r, iv, n, elem_t)
            es = seq.hint.elem
        if view is not None and view in ('items', 'keys', 'values'):
            k = elem_t
            self.assume(st, self.dict_get(st, Val.r(dv.t), k) != ABSENT)
            kspec = parse_spec('str')
            self.assume(st, kspec.assumption(k))
            val = self.dict_get(st, Val.r(dv.t), k)
            vspec = dv.hint.elem
            if vspec is not None:
                self.assume(st, vspec.assumption(val))
            if view == 'items':
                x = PyTuple([V(k, kspec), V(val, vspec)])
            elif view == 'keys':
                x = V(k, kspec)
            else:
                x = V(val, vspec)
        else:
            if es is not None:
                self.assume(st, self.spec_formula(st, es, elem_t))
            self.known_ref(st, elem_t)
            x = V(elem_t, es)
            if view == 'enumerate':
                x = PyTuple([V(mkI(iv), parse_spec('int')), x])
        self.assign(st, s.target, x)
        for tn in self.assigned_names([pyast.Assign(targets=[s.target], value=pyast.Constant(value=None))]):
            if tn in spec.get('var_types', {}) and isinstance(st.vars.get(tn), V):
                sp = parse_spec(spec['var_types'][tn])
                self.assume(st, sp.assumption(st.vars[tn].t))     # declared element type (data invariant of the container)
                st.vars[tn] = V(st.vars[tn].t, sp)
        for lemma in spec.get('assume_item', []):
            # trusted data invariant of the elements of the iterated container, stated over the loop target
            env = dict(self.top_env)
            env.update({k: v for k, v in st.vars.items() if v is not UNBOUND})
            wd, truth = self.eval_spec(st, lemma, self.cur_contract, env, self.top_pre)
            self.assume(st, z3.Implies(wd, truth))
            self.trust('assumed data invariant of iterated elements: ' + lemma)
        body_start.vars = dict(st.vars)      # the loop's `modifies` may name the loop target (e.g. field.attributes{})
        body_rec['witness'] = self.loop_witness_terms(st, spec)
        self.fold_axioms(st, spec, iv, True)
        loop_id = object()
        fr.loop_stack.append(loop_id)
        start = len(fr.exits)
        try:
            self.exec_block(st, s.body)
        finally:
            fr.loop_stack.pop()
        conts = self.take_exits(start, lambda e: e.kind == 'continue' and e.loop is loop_id)
        self.merge_exit_states(st, conts)
        breaks = self.take_exits(start, lambda e: e.kind == 'break' and e.loop is loop_id)
        body_rec['n_end'] = len(self.assumes)
        self.loop_frame(st, breaks, spec, name, body_start, body_start_k)
        if not st.dead():
            st.vars[ivar] = V(mkI(iv + 1), parse_spec('int'))
            # the iterated list itself must not change
            if spec.get('assume_iter_unchanged'):
                self.trust('%s of %s: the iterated sequence is not modified by the loop body (assumed: %s)'
                           % (name, self.cur_contract.qual.split('.')[-1], spec['assume_iter_unchanged']))
                self.assume(st, And(self.list_len(st, r) == n, z3.Select(self.harr(st, '$ELEM'), r) == head_elem,
                                    self.list_off(st, r) == head_off))
            elif not is_str:
                self.oblige(st, name + '.iter_unchanged', And(self.list_len(st, r) == n,
                            z3.Select(self.harr(st, '$ELEM'), r) == head_elem, self.list_off(st, r) == head_off),
                            'the list being iterated is not modified by the loop body')
            self.check_inv(st, spec, name, 'preserve', None)
        # continue after the loop
        st.vars, st.heap, st.guard = after.vars, after.heap, after.guard
        st.vars[ivar] = V(mkI(n_e), parse_spec('int'))
        if s.orelse:
            self.exec_block(st, s.orelse)
        if 'ghost_exit' in spec and not breaks:
            self.ghost_init(st, {'ghost_init': spec['ghost_exit']})
        for b in breaks:
            b.state.vars.setdefault(ivar, V(mkI(iv), parse_spec('int')))
        self.merge_exit_states(st, breaks)
        self.loop_post(st, spec, name)

    def loop_witness_terms(self, st, spec):
        """hints for the vacuity guard of a loop body (never assumptions): a region of the state space to look for a model in"""
        c = self.cur_contract
        out = []
        for w in spec.get('witness', []):
            env = dict(self.top_env)
            env.update({k: v for k, v in st.vars.items() if v is not UNBOUND})
            n_w = len(self.assumes)
            wd, truth = self.eval_spec(st, w, c, env, self.top_pre)
            out.extend(self.assumes[n_w:])
            del self.assumes[n_w:]
            out.append(And(wd, truth))
        return out

    def loop_frame(self, st, breaks, spec, name, body_start, body_start_k):
        """an iteration may change only what the loop specification declares (`modifies`) - objects allocated during the
        iteration excepted; otherwise the state assumed after the loop would keep stale values"""
        c = self.cur_contract
        env = dict(self.top_env)
        env.update({k: v for k, v in body_start.vars.items() if v is not UNBOUND})
        mods = []
        for m in spec.get('modifies', []):
            try:
                if not (m.startswith('*') or m.startswith('$')):
                    self.eval_in(body_start, c, env, m[:-2] if m.endswith(('{}', '[]')) else m.rsplit('.', 1)[0])
                mods.append(m)
            except EngineError:
                continue      # names a local the code does not have: permits nothing
        states = ([st] if not st.dead() else []) + [b.state for b in breaks if not b.state.dead()]
        for s2 in states:
            self.frame_obligations(s2, c, env, body_start, modifies=mods, entry_heap=dict(body_start.heap),
                                   prefix=name + '.frame', alloc_bound=self.alloc0 + body_start_k)

    def dict_order(self, st, dv):
        """Insertion-order view of a dict as a ghost list of its keys (uninterpreted, per dict state)."""
        r = Val.r(dv.t)
        order = self.new_ref(st, list)
        n = self.list_len(st, r)
        st.heap['$LEN'] = z3.Store(self.harr(st, '$LEN'), order, n)
        self.trust('dict iteration: keys are visited as some duplicate-free sequence of the present keys')
        return V(mkR(order), parse_spec('list'))

    def loop_while_invariant(self, st, s, ordinal):
        spec = self.loop_spec(ordinal)
        if spec is None:
            raise EngineError('while loop %d needs an invariant (line %d)' % (ordinal, s.lineno))
        fr = self.frame()
        name = 'loop%d' % ordinal
        self.ghost_init(st, spec)
        self.fold_axioms(st, spec, None, False)
        self.check_inv(st, spec, name, 'init', None)
        # state after the loop (separately havocked, see loop_for_invariant)
        after = st.copy()
        self.havoc_loop(after, spec, s.body)
        self.assume_inv(after, spec)
        if spec.get('folds') and spec.get('index') in after.vars:
            self.fold_axioms(after, spec, Val.i(after.vars[spec['index']].t), True)
        c_e = self.truthy(after, self.eval(after, s.test))
        after.guard = And(after.guard, Not(c_e))
        # an arbitrary iteration
        self.havoc_loop(st, spec, s.body)
        self.assume_inv(st, spec)
        if spec.get('folds') and spec.get('index') in st.vars:
            self.fold_axioms(st, spec, Val.i(st.vars[spec['index']].t), True)
        c = self.truthy(st, self.eval(st, s.test))
        st.guard = And(st.guard, c)
        body_start = st.copy()
        body_start_k = self.alloc_k
        body_rec = {'name': name, 'guard': st.guard, 'cond': c, 'n_begin': len(self.assumes)}
        self.body_regions.append(body_rec)
        loop_id = object()
        fr.loop_stack.append(loop_id)
        start = len(fr.exits)
        try:
            self.exec_block(st, s.body)
        finally:
            fr.loop_stack.pop()
        conts = self.take_exits(start, lambda e: e.kind == 'continue' and e.loop is loop_id)
        self.merge_exit_states(st, conts)
        breaks = self.take_exits(start, lambda e: e.kind == 'break' and e.loop is loop_id)
        body_rec['n_end'] = len(self.assumes)
        self.loop_frame(st, breaks, spec, name, body_start, body_start_k)
        if not st.dead():
            self.check_inv(st, spec, name, 'preserve', None)
        st.vars, st.heap, st.guard = after.vars, after.heap, after.guard
        if s.orelse:
            self.exec_block(st, s.orelse)
        self.merge_exit_states(st, breaks)
        self.loop_post(st, spec, name)

    def loop_post(self, st, spec, name):
        for i, p in enumerate(spec.get('post', [])):
            # loop postcondition: has to hold on every way out of the loop (exhaustion and break); proved, not assumed
            env = dict(self.top_env)
            env.update({k: v for k, v in st.vars.items() if v is not UNBOUND})
            wd, truth = self.eval_spec(st, p, self.cur_contract, env, self.top_pre)
            self.oblige(st, '%s.post%d' % (name, i), And(wd, truth), 'after the loop (every exit): ' + p)

    # ------------------------------------------------------------------ top level
    def make_param(self, st, name, specs):
        if isinstance(specs, str) and specs.startswith('class:'):
            from .model import _lookup_class
            return PyObj(_lookup_class(specs[6:]))
        spec = parse_spec(specs)
        t = z3.Const('p_' + name, Val)
        if spec is not None:
            self.assume(st, self.spec_formula(st, spec, t))
            self.assume_class_invariants(st, t, spec)
        self.assume(st, z3.Implies(Val.is_R(t), Val.r(t) <= self.alloc0))
        v = V(t, spec)
        self.inputs[name] = v
        return v

    def verify(self, c):
        """Generate all obligations for contract c against the real function body."""
        if c.qual.startswith('c:'):
            from . import cfront, cruntime
            cc = getattr(c.module, 'C_CONSTANTS', None)
            if callable(cc):
                cc = cc()
            fnode = cfront.translate(c.cfile, c.qual[2:], cc)
            mod = types.ModuleType('c_translation_unit')
            for k2, v2 in vars(cruntime).items():
                if k2.startswith('__') and not k2.endswith('__') or k2 in ('Cell',):
                    setattr(mod, k2, v2)
            for k2, v2 in vars(c.module).items():
                if k2.startswith('G_'):
                    setattr(mod, k2, v2)
            self.c_mode = True
        else:
            f = resolve_function(c.qual)
            if f is None or not isinstance(f, types.FunctionType):
                raise EngineError('function %s not found in the working tree' % c.qual)
            f = inspect.unwrap(f)
            fnode = func_ast(f)
            mod = inspect.getmodule(f)
        self.cur_contract = c
        self.abstract_products = bool(getattr(c.module, 'ABSTRACT_PRODUCTS', False))
        self.string_lemmas = bool(getattr(c.module, 'STRING_LEMMAS', False))
        st = State()
        if self.logger is None:
            self.setup_globals()
        env = {}
        a = fnode.args
        names = [x.arg for x in a.args] + [x.arg for x in a.kwonlyargs]
        ndef = len(a.defaults)
        for i, n in enumerate([x.arg for x in a.args]):
            if n in c.params:
                env[n] = self.make_param(st, n, c.params[n])
            else:
                di = i - (len(a.args) - ndef)
                if di < 0:
                    raise EngineError('contract for %s lacks parameter %s' % (c.qual, n))
                fr0 = Frame(c.qual, mod, None)
                self.frames.append(fr0)
                try:
                    env[n] = self.eval(st, a.defaults[di])
                finally:
                    self.frames.pop()
        for kw, d in zip(a.kwonlyargs, a.kw_defaults):
            if kw.arg in c.params:
                env[kw.arg] = self.make_param(st, kw.arg, c.params[kw.arg])
            else:
                fr0 = Frame(c.qual, mod, None)
                self.frames.append(fr0)
                try:
                    env[kw.arg] = self.eval(st, d)
                finally:
                    self.frames.pop()
        body_names = set(env)
        self.ghost_ints = []
        self.generalized = []
        self.generalized_keys = []
        self.body_regions = []
        for gname, gspec in c.ghost.items():
            env[gname] = self.make_param(st, gname, gspec)
            if gspec == 'int' and (c.index_ghosts is None or gname in c.index_ghosts):
                self.ghost_ints.append(Val.i(env[gname].t))
        pre = State(dict(env), dict(st.heap), st.guard)
        envl = self.let_env(c, env, pre)
        pre.vars = dict(envl)
        self.distinct_lists = {}
        for r in c.requires:
            md = _re.fullmatch(r'all_distinct\((.*)\)', r.strip())
            if md:
                # pairwise distinctness of the elements of a list is not assumed as a quantified formula: it is
                # instantiated for every pair of positions at which the list is read (exprs.getitem)
                lv = self.eval_in(st, c, envl, md.group(1))
                self.distinct_lists[simp(Val.r(lv.t)).get_id()] = []
                continue
            wd, truth = self.eval_spec(st, r, c, envl, pre)
            self.assume(st, And(wd, truth))
        self.n_entry_assumes = len(self.assumes)
        # witness hints: evaluated in the pre-state, used by the vacuity guard only (never as assumptions)
        self.witness_terms = []
        for w in c.witness:
            n_w = len(self.assumes)
            wd, truth = self.eval_spec(st, w, c, envl, pre)
            self.witness_terms.extend(self.assumes[n_w:])
            del self.assumes[n_w:]
            self.witness_terms.append(And(wd, truth))
        self.top_env = envl
        self.top_pre = pre
        self.entry_heap = dict(st.heap)
        body_env = {k: v for k, v in env.items() if k in body_names}
        result, others = self.run_body(st, fnode, body_env, mod, None, c.qual)
        others = others + self.top_exits
        self.normal_guard = st.guard
        self.raise_guards = [x.state.guard for x in others if x.kind == 'raise']
        self.allows_raises = bool(c.raises) and c.no_return
        # postconditions on normal return
        env2 = dict(envl)
        if result is None:
            result = self.lift(None)
        env2['result'] = result
        self.result = result
        self.post_state = st
        if isinstance(result, V) and c.returns:
            self.oblige(st, 'returns.type', self.spec_formula(st, parse_spec(c.returns), result.t),
                        'result has declared type %s' % c.returns)
        if c.split_returns and getattr(self, 'top_returns', None):
            # one obligation per return statement: the path formulas stay separate (smaller queries)
            for rstate, rvalue in self.top_returns:
                env3 = dict(envl)
                rv = rvalue if rvalue is not None else self.lift(None)
                if isinstance(rv, (GList, PyTuple)) and any(isinstance(v2, V) for _, v2 in self.top_returns):
                    rv = self.as_v(rstate, rv)
                env3['result'] = rv
                rstate.vars = dict(st.vars)
                for name, expr in c.ensures.items():
                    wd, truth = self.eval_spec(rstate, expr, c, env3, pre)
                    self.oblige(rstate, name, And(wd, truth), expr)
        else:
            for name, expr in c.ensures.items():
                wd, truth = self.eval_spec(st, expr, c, env2, pre)
                self.oblige(st, name, And(wd, truth), expr)
        # frame
        self.frame_obligations(st, c, envl, pre)
        # exceptional exits
        for x in others:
            if x.kind != 'raise':
                continue
            exname = x.exc.__name__
            allowed = None
            for en, cond in c.raises.items():
                if issubclass(x.exc, self.exc_class(en)):
                    allowed = (en, cond)
            if allowed is not None:
                en, cond = allowed
                if cond != 'maybe':
                    wd, truth = self.eval_spec(pre, cond, c, envl, pre)
                    self.obligations.append(Obligation('raises.%s@%d' % (exname, x.line), x.state.guard,
                                                       And(wd, truth), len(self.assumes),
                                                       '%s may only be raised when: %s' % (en, cond)))
                for name, (en2, expr) in c.exc_ensures.items():
                    if issubclass(x.exc, self.exc_class(en2)):
                        wd, truth = self.eval_spec(x.state, expr, c, envl, pre)
                        self.oblige(x.state, '%s@%d' % (name, x.line), And(wd, truth), expr)
            elif c.noexc:
                self.obligations.append(Obligation('noexc.%s@%d' % (exname, x.line), x.state.guard,
                                                   z3.BoolVal(False), len(self.assumes),
                                                   'no %s may escape (line %d)' % (exname, x.line)))
        return self.obligations

    def frame_obligations(self, st, c, env, pre, modifies=None, entry_heap=None, prefix='frame', alloc_bound=None):
        allowed = {}
        whole = set()
        entry_heap = self.entry_heap if entry_heap is None else entry_heap
        for m in (c.modifies if modifies is None else modifies):
            m = m.strip()
            if m == '*[]':
                whole.update(('$LEN', '$ELEM', '$OFF'))
            elif m == '*{}':
                whole.update(('$LEN', '$DMAP'))
            elif m.startswith('$'):
                whole.add(m)
            elif m.startswith('*.'):
                if m.endswith(('{}', '[]')):
                    raise EngineError('frame pattern %s is not supported' % m)
                whole.add(m[2:])
            elif m.endswith('{}') or m.endswith('[]'):
                base = self.eval_in(pre, c, env, m[:-2])
                for k in (('$LEN', '$DMAP') if m.endswith('{}') else ('$LEN', '$ELEM', '$OFF')):
                    allowed.setdefault(k, []).append(base)
            else:
                be, f = m.rsplit('.', 1)
                base = self.eval_in(pre, c, env, be)
                allowed.setdefault(f, []).append(base)
        for f, arr in st.heap.items():
            init = entry_heap.get(f)
            if init is None:
                init = self.init_arr(f)
            if arr is init or arr.eq(init) or f in whole:
                continue
            if f.startswith('$') and f not in ('$LEN', '$ELEM', '$DMAP', '$OFF'):
                self.oblige(st, '%s.%s' % (prefix, f), arr == init, 'ghost %s is not in modifies' % f)
                continue
            rsk = fresh('frame_r', IntS)
            conds = [rsk <= (self.alloc0 if alloc_bound is None else alloc_bound)]
            for b in allowed.get(f, []):
                conds.append(Not(And(Val.is_R(b.t), Val.r(b.t) == rsk)))
            self.oblige(st, '%s.%s' % (prefix, f), z3.Implies(And(*conds), z3.Select(arr, rsk) == z3.Select(init, rsk)),
                        'only the declared objects may change in field %s' % f)

    def setup_globals(self):
        from giscanner import message
        UNIVERSE.register(message.MessageLogger)
        lg = object.__new__(message.MessageLogger)
        self._logger_obj = lg
        self.logger = self.lift_instance(lg)
        self.spec_globals['LOGGER'] = self.logger


def M_NAMESPACES():
    from . import model
    return model._NAMESPACES
