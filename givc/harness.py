"""Import the real giscanner modules from /repo's working tree.

The compiled lexer extension giscanner._giscanner is absent in this sandbox, so a
behaviour-free stub is installed in sys.modules; nothing under contract calls into it.
The launcher-injected builtins GIR_DIR / DATADIR are set to a non-existent directory.
"""
import builtins
import os
import sys
import types

REPO = os.environ.get('GIVC_REPO', '/repo')


def install():
    if REPO not in sys.path:
        sys.path.insert(0, REPO)
    if 'giscanner._giscanner' not in sys.modules:
        m = types.ModuleType('giscanner._giscanner')

        class SourceScanner(object):
            pass
        m.SourceScanner = SourceScanner
        sys.modules['giscanner._giscanner'] = m
    if not hasattr(builtins, 'GIR_DIR'):
        builtins.GIR_DIR = '/nonexistent-gir-dir'
    if not hasattr(builtins, 'DATADIR'):
        builtins.DATADIR = '/nonexistent-data-dir'
    sys.dont_write_bytecode = True


def modules():
    install()
    import importlib
    names = ['ast', 'message', 'utils', 'xmlwriter', 'shlibs', 'cachestore', 'annotationparser',
             'transformer', 'maintransformer', 'introspectablepass', 'girwriter', 'girparser',
             'gdumpparser', 'scannermain', 'sourcescanner']
    out = {}
    for n in names:
        out[n] = importlib.import_module('giscanner.' + n)
    return out
