"""Statement execution mixin."""
import ast as pyast
import z3

from .vals import *    # noqa
from .model import *   # noqa
from .engine import State, Exit, UNBOUND


class StmtMixin(object):

    def exec_block(self, st, stmts):
        for s in stmts:
            if st.dead():
                return
            self.exec(st, s)

    def exec(self, st, s):
        m = getattr(self, 's_' + type(s).__name__, None)
        if m is None:
            raise EngineError('unsupported statement %s at line %s' % (type(s).__name__, getattr(s, 'lineno', '?')))
        self.cur_line = getattr(s, 'lineno', 0)
        c = self.cur_contract
        if c is not None and c.casts and self.frame().func_name == c.qual:
            head = pyast.unparse(s).splitlines()[0].strip()
            for (text, var, spec) in c.casts:
                if head == text:
                    v = st.vars.get(var)
                    sp = parse_spec(spec)
                    self.oblige(st, 'cast.%s@%d' % (var, self.cur_line), sp.assumption(v.t),
                                'sidecar assertion: %s has type %s before `%s`' % (var, spec, text))
                    st.vars[var] = V(v.t, sp)
        return m(st, s)

    def s_Pass(self, st, s):
        pass

    def s_Import(self, st, s):
        import importlib
        for a in s.names:
            mod = importlib.import_module(a.name)
            if a.asname:
                st.vars[a.asname] = PyObj(mod)
            else:
                st.vars[a.name.split('.')[0]] = PyObj(importlib.import_module(a.name.split('.')[0]))

    def s_ImportFrom(self, st, s):
        import importlib
        if s.level:
            raise EngineError('relative import inside a function')
        mod = importlib.import_module(s.module)
        for a in s.names:
            st.vars[a.asname or a.name] = self.lift(getattr(mod, a.name))

    def s_Expr(self, st, s):
        if isinstance(s.value, pyast.Constant):
            return
        self.eval(st, s.value)

    def s_Return(self, st, s):
        v = self.eval(st, s.value) if s.value is not None else self.lift(None)
        if st.dead():
            return
        self.frame().exits.append(Exit('return', st.copy(), value=v, line=s.lineno))
        st.guard = z3.BoolVal(False)

    def s_Raise(self, st, s):
        if s.exc is None:
            excs = getattr(self.frame(), 'current_excs', None)
            if not excs:
                raise EngineError('bare raise outside handler')
            # the exception being handled is raised again: one exit per class that reached this handler
            for cls, g in excs[:-1]:
                self.raise_exit(st, cls, g, s.lineno)
            self.raise_exit(st, excs[-1][0], None, s.lineno)
            return
        msg = None
        if isinstance(s.exc, pyast.Call):
            cv = self.eval(st, s.exc.func)
            args = [self.eval(st, a) for a in s.exc.args]
            if args and isinstance(args[0], V):
                msg = args[0]
        else:
            cv = self.eval(st, s.exc)
        if not (isinstance(cv, PyObj) and isinstance(cv.o, type) and issubclass(cv.o, BaseException)):
            raise EngineError('raise of non-class at line %d' % s.lineno)
        self.raise_exit(st, cv.o, None, s.lineno, msg=msg)

    def s_Assert(self, st, s):
        c = self.truthy(st, self.eval(st, s.test))
        self.raise_exit(st, AssertionError, Not(c), s.lineno)

    def s_Break(self, st, s):
        self.frame().exits.append(Exit('break', st.copy(), loop=self.frame().loop_stack[-1], line=s.lineno))
        st.guard = z3.BoolVal(False)

    def s_Continue(self, st, s):
        self.frame().exits.append(Exit('continue', st.copy(), loop=self.frame().loop_stack[-1], line=s.lineno))
        st.guard = z3.BoolVal(False)

    def s_Global(self, st, s):
        raise EngineError('global statement')

    def s_FunctionDef(self, st, s):
        fr = self.frame()
        st.vars[s.name] = Closure(s, {'vars': st.vars, 'parent': fr.closure_env}, fr.module,
                                  fr.func_name + '.<locals>.' + s.name)

    # ------------------------------------------------------------------ assignment
    def s_Assign(self, st, s):
        v = self.eval(st, s.value)
        for tgt in s.targets:
            self.assign(st, tgt, v)

    def s_AnnAssign(self, st, s):
        if s.value is not None:
            self.assign(st, s.target, self.eval(st, s.value))

    def s_AugAssign(self, st, s):
        load = pyast.copy_location(self._as_load(s.target), s.target)
        cur = self.eval(st, load)
        rhs = self.eval(st, s.value)
        if isinstance(cur, GList) and isinstance(s.op, pyast.Add):
            raise EngineError('+= on list')
        self.assign(st, s.target, self.binop(st, s.op, cur, rhs))

    def _as_load(self, t):
        if isinstance(t, pyast.Name):
            return pyast.Name(id=t.id, ctx=pyast.Load())
        if isinstance(t, pyast.Attribute):
            return pyast.Attribute(value=t.value, attr=t.attr, ctx=pyast.Load())
        if isinstance(t, pyast.Subscript):
            return pyast.Subscript(value=t.value, slice=t.slice, ctx=pyast.Load())
        raise EngineError('augassign target')

    def assign(self, st, tgt, v):
        if isinstance(tgt, pyast.Name):
            st.vars[tgt.id] = v
        elif isinstance(tgt, (pyast.Tuple, pyast.List)):
            items = self.unpack(st, v, len(tgt.elts), getattr(tgt, 'lineno', 0))
            for t, x in zip(tgt.elts, items):
                self.assign(st, t, x)
        elif isinstance(tgt, pyast.Attribute):
            base = self.eval(st, tgt.value)
            self.setattr(st, base, tgt.attr, v, getattr(tgt, 'lineno', 0))
        elif isinstance(tgt, pyast.Subscript):
            base = self.eval(st, tgt.value)
            idx = self.eval(st, tgt.slice)
            self.setitem(st, base, idx, v, getattr(tgt, 'lineno', 0))
        else:
            raise EngineError('assignment target %s' % type(tgt).__name__)

    def unpack(self, st, v, n, line=0):
        if isinstance(v, PyTuple):
            if len(v.items) != n:
                self.raise_exit(st, ValueError, None, line)
                return [self.lift(None)] * n
            return v.items
        if isinstance(v, GList) and all(z3.is_true(e.guard) for e in v.entries):
            if len(v.entries) != n:
                self.raise_exit(st, ValueError, None, line)
                return [self.lift(None)] * n
            return [e.val for e in v.entries]
        if isinstance(v, V) and v.hint is not None and v.hint.kind in ('list', 'tuple'):
            r = Val.r(v.t)
            if isinstance(v.hint.elem, (list, tuple)) and len(v.hint.elem) == n:
                self.assume(st, self.list_len(st, r) == n)      # declared tuple shape (data invariant)
            self.raise_exit(st, ValueError, self.list_len(st, r) != n, line)
            out = []
            for i in range(n):
                t = self.list_elem(st, r, z3.IntVal(i))
                spec = None
                if isinstance(v.hint.elem, (list, tuple)):
                    spec = v.hint.elem[i]
                elif v.hint.elem is not None:
                    spec = v.hint.elem
                if spec is not None:
                    self.assume(st, spec.assumption(t))
                self.known_ref(st, t)
                out.append(V(t, spec))
            return out
        raise EngineError('cannot unpack %r' % (v,))

    def setattr(self, st, base, name, v, line=0):
        if not isinstance(base, V):
            raise EngineError('attribute store on %r' % (base,))
        classes = self.static_classes(base)
        if classes:
            kinds = self.resolve_attr_static(classes, name)
            props = [k for k in kinds if k[0] == 'property']
            if props:
                if len(kinds) != 1:
                    raise EngineError('mixed property/field store %s' % name)
                p = props[0][1]
                if p.fset is None:
                    raise EngineError('store to read-only property %s' % name)
                self.call_function(st, p.fset, [base, v], {}, inline=True)
                return
            if base.hint.opt:
                self.raise_exit(st, AttributeError, Val.is_N(base.t), line)
        else:
            self.raise_exit(st, AttributeError, Not(Val.is_R(base.t)), line)
        hv = self.as_v(st, v)
        spec = field_spec(classes, name) if classes else None
        if spec is not None and spec.region is not None:
            # a freshly allocated container becomes owned by the field it is first stored into
            from .model import region_of, REGIONS
            rid = REGIONS.setdefault(spec.region, len(REGIONS) + 1)
            self.assume(st, z3.Implies(And(Val.is_R(hv.t), Val.r(hv.t) > self.alloc0), region_of(Val.r(hv.t)) == rid))
        if spec is not None and self.check_schema_stores:
            self.oblige(st, 'schema.store.%s@%d' % (name, line), spec.assumption(hv.t),
                        'value stored into .%s must respect the declared field type %r' % (name, spec))
        from .model import CLASS_INVARIANTS
        for c, items in CLASS_INVARIANTS.items():
            for f, val in items:
                if f == name and self.check_schema_stores:
                    self.oblige(st, 'invariant.store.%s@%d' % (name, line),
                                z3.Implies(isinstance_term(base.t, (c,)), hv.t == self.lift(val).t),
                                'class invariant of %s: .%s == %r' % (c.__name__, f, val))
        self.store(st, Val.r(base.t), name, hv.t)
        self.stored_fields.add(name)

    check_schema_stores = True

    def setitem(self, st, base, idx, v, line=0):
        if isinstance(base, V) and base.hint is not None and base.hint.kind == 'dict':
            hv = self.as_v(st, v)
            self.dict_set(st, Val.r(base.t), idx.t, hv.t)
            return
        if isinstance(base, V) and base.hint is not None and base.hint.kind == 'list':
            hv = self.as_v(st, v)
            r = Val.r(base.t)
            n = self.list_len(st, r)
            i = Val.i(idx.t)
            self.raise_exit(st, IndexError, Or(i >= n, i < -n), line)
            pos = z3.If(i < 0, n + i, i)
            el = self.harr(st, '$ELEM')
            st.heap['$ELEM'] = z3.Store(el, r, z3.Store(z3.Select(el, r), self.list_off(st, r) + pos, hv.t))
            return
        raise EngineError('item store on %r' % (base,))

    def s_Delete(self, st, s):
        for t in s.targets:
            if isinstance(t, pyast.Subscript):
                base = self.eval(st, t.value)
                idx = self.eval(st, t.slice)
                if isinstance(base, V) and base.hint is not None and base.hint.kind == 'dict':
                    r = Val.r(base.t)
                    self.raise_exit(st, KeyError, self.dict_get(st, r, idx.t) == ABSENT, s.lineno)
                    self.dict_del(st, r, idx.t)
                    continue
                if isinstance(base, V) and base.hint is not None and base.hint.kind == 'list' and self.const_int(idx) == 0:
                    self.list_method(st, base, 'pop', [idx], s.lineno)      # del l[0]
                    continue
            raise EngineError('unsupported del')

    # ------------------------------------------------------------------ control flow
    def s_If(self, st, s):
        c = self.truthy(st, self.eval(st, s.test))

        def then(x):
            self.refine(x, s.test, True)
            self.exec_block(x, s.body)

        def orelse(x):
            self.refine(x, s.test, False)
            self.exec_block(x, s.orelse)
        self.branch(st, c, then, orelse)

    def refine(self, st, test, positive):
        """Path-sensitive refinement of static type hints for simple tests on local names."""
        if isinstance(test, pyast.UnaryOp) and isinstance(test.op, pyast.Not):
            return self.refine(st, test.operand, not positive)
        if isinstance(test, pyast.BoolOp):
            if isinstance(test.op, pyast.And) and positive or isinstance(test.op, pyast.Or) and not positive:
                for v in test.values:
                    self.refine(st, v, positive)
            return
        name = None
        if isinstance(test, pyast.Name):
            name = test.id
            kind = 'truthy'
        elif isinstance(test, pyast.Compare) and len(test.ops) == 1 and isinstance(test.left, pyast.Name) \
                and isinstance(test.comparators[0], pyast.Constant) and test.comparators[0].value is None:
            name = test.left.id
            if isinstance(test.ops[0], pyast.IsNot):
                kind = 'truthy'
            elif isinstance(test.ops[0], pyast.Is):
                kind = 'truthy'
                positive = not positive
            else:
                return
        elif isinstance(test, pyast.Call) and isinstance(test.func, pyast.Name) and test.func.id == 'isinstance' \
                and len(test.args) == 2 and isinstance(test.args[0], pyast.Name):
            name = test.args[0].id
            kind = 'isinstance'
        elif isinstance(test, pyast.Call) and isinstance(test.func, pyast.Name) and test.func.id == 'hasattr' \
                and len(test.args) == 2 and isinstance(test.args[0], pyast.Name) and isinstance(test.args[1], pyast.Constant) \
                and isinstance(test.args[1].value, str):
            name = test.args[0].id
            kind = 'hasattr'
        else:
            return
        v = st.vars.get(name)
        if not isinstance(v, V) or v.hint is None:
            return
        h = v.hint
        if kind == 'truthy':
            if positive and h.opt:
                st.vars[name] = V(v.t, h.with_opt(False))
            return
        if kind == 'hasattr' and h.kind == 'obj':
            # a class-level attribute (method, property): present or absent per class, so the test selects classes
            import inspect as _inspect
            from .model import SCHEMA
            attr = test.args[1].value
            subs = []
            for c in h.classes:
                subs.extend(UNIVERSE.subclasses(c))
            subs = list(dict.fromkeys(subs))
            have, lack = [], []
            for d in subs:
                try:
                    _inspect.getattr_static(d, attr)
                    have.append(d)
                except AttributeError:
                    if any((k, attr) in SCHEMA for k in d.__mro__):
                        return          # an instance field of some class: presence is a run-time matter
                    lack.append(d)
            keep = have if positive else lack
            if keep and (have and lack):
                mins = [d for d in keep if not any(e is not d and issubclass(d, e) and e in keep for e in keep)]
                st.vars[name] = V(v.t, TypeSpec('obj', tuple(mins), False if positive else h.opt, exact=False))
            return
        if kind == 'isinstance' and h.kind == 'obj':
            try:
                cv = self.eval(State(dict(st.vars), dict(st.heap), z3.BoolVal(True)), test.args[1])
            except EngineError:
                return
            classes = tuple(x.o for x in cv.items) if isinstance(cv, PyTuple) else (cv.o,)
            if not all(isinstance(c, type) for c in classes):
                return
            subs = []
            for c in h.classes:
                subs.extend(UNIVERSE.subclasses(c))
            if positive:
                keep = [d for d in dict.fromkeys(subs) if issubclass(d, classes)]
                opt = False
            else:
                keep = [d for d in dict.fromkeys(subs) if not issubclass(d, classes)]
                opt = h.opt
            if keep:
                # minimal covering set: drop classes whose ancestor is also kept
                mins = [d for d in keep if not any(e is not d and issubclass(d, e) for e in keep)]
                st.vars[name] = V(v.t, TypeSpec('obj', tuple(mins), opt))

    def take_exits(self, start, pred):
        fr = self.frame()
        taken = [e for e in fr.exits[start:] if pred(e)]
        fr.exits[start:] = [e for e in fr.exits[start:] if not pred(e)]
        return taken

    def merge_exit_states(self, st, exits):
        """Merge the states of `exits` (and optionally st) into st."""
        cur = st
        for e in exits:
            if e.state.dead():
                continue
            if cur.dead():
                cur = e.state
            else:
                cur = self.merge_states(None, e.state, cur)
        st.vars, st.heap, st.guard = cur.vars, cur.heap, cur.guard

    def s_Try(self, st, s):
        fr = self.frame()
        start = len(fr.exits)
        self.exec_block(st, s.body)
        handled_states = []
        for h in s.handlers:
            if h.type is None:
                classes = (BaseException,)
            else:
                tv = self.eval(State(dict(st.vars), dict(st.heap), z3.BoolVal(True)), h.type)
                if isinstance(tv, PyTuple):
                    classes = tuple(x.o for x in tv.items)
                else:
                    classes = (tv.o,)
            caught = self.take_exits(start, lambda e: e.kind == 'raise' and issubclass(e.exc, classes))
            if not caught:
                continue
            hs = State(guard=z3.BoolVal(False))
            self.merge_exit_states(hs, caught)
            if h.name:
                msgs = [c.value for c in caught]
                ev = fresh('exc', Val)
                hs.vars[h.name] = V(ev, parse_spec('opaque'))
                hs.vars['$exc_msg_' + h.name] = msgs[0] if len(caught) == 1 and msgs[0] is not None else V(fresh('excmsg'), parse_spec('str'))
                # OSError and its subclasses: CPython chooses the subclass from errno (PEP 3151)
                import errno as _errno
                en = self.get_uf('opaque_attr_errno', Val, Val)(ev)
                for c0 in caught:
                    if issubclass(c0.exc, FileNotFoundError):
                        self.assumes.append(z3.Implies(c0.state.guard, en == mkI(_errno.ENOENT)))
                    elif issubclass(c0.exc, PermissionError):
                        self.assumes.append(z3.Implies(c0.state.guard, Or(en == mkI(_errno.EACCES), en == mkI(_errno.EPERM))))
                    elif c0.exc is OSError:
                        self.assumes.append(z3.Implies(c0.state.guard, And(en != mkI(_errno.ENOENT), en != mkI(_errno.EACCES),
                                                                         en != mkI(_errno.EPERM))))
            old_excs = getattr(fr, 'current_excs', None)
            fr.current_excs = [(c0.exc, c0.state.guard) for c0 in caught]
            self.exec_block(hs, h.body)
            fr.current_excs = old_excs
            handled_states.append(hs)
        if s.orelse:
            self.exec_block(st, s.orelse)
        for hs in handled_states:
            if not hs.dead():
                if st.dead():
                    st.vars, st.heap, st.guard = hs.vars, hs.heap, hs.guard
                else:
                    m = self.merge_states(None, hs, st)
                    st.vars, st.heap, st.guard = m.vars, m.heap, m.guard
        if s.finalbody:
            escaping = fr.exits[start:]
            del fr.exits[start:]
            for e in escaping:
                self.exec_block(e.state, s.finalbody)
                if not e.state.dead():
                    fr.exits.append(e)
            self.exec_block(st, s.finalbody)

    def s_With(self, st, s):
        if len(s.items) != 1:
            raise EngineError('multi-item with')
        item = s.items[0]
        if isinstance(item.context_expr, pyast.Call):
            call = item.context_expr
            fv = self.eval(st, call.func)
            from .model import Bound as _B
            import types as _t, inspect as _i
            if isinstance(fv, _B) and isinstance(fv.func, _t.FunctionType) and _i.isgeneratorfunction(_i.unwrap(fv.func)):
                args = [self.eval(st, a) for a in call.args]
                kwargs = {k.arg: self.eval(st, k.value) for k in call.keywords}
                self.with_call(st, fv, args, kwargs, s, item)
                return
        # file-like context managers: __enter__ returns the object, __exit__ closes it (no modelled effect)
        cm = self.eval(st, item.context_expr)
        if not isinstance(cm, V):
            raise EngineError('with on %r' % (cm,))
        self.trust('with <file object>: __enter__ returns the object, __exit__ only closes it')
        if item.optional_vars is not None:
            self.assign(st, item.optional_vars, cm)
        self.exec_block(st, s.body)

    def s_While(self, st, s):
        self.loop_while(st, s)

    def s_For(self, st, s):
        self.loop_for(st, s)
