"""C front end: clang's JSON AST of the real .c file -> a Python-AST function executed by the same VC generator.

`clang -fsyntax-only -Xclang -ast-dump=json -Xclang -ast-dump-filter=<function>` is run on the file under
/repo (include path: /repo/girepository first, then /verif/cstubs for the GLib headers that are not installed).
Macros arrive expanded.  The translation is mechanical:

  p->f, s.f            attribute access on the struct object (typed through the stub schema)
  *out = v / *out      out-parameters are cell objects with one field `val`
  &local               the local is a cell (all its uses become local.val)
  &p->f as argument    copy-in / copy-out around the call (aliasing through the callee is NOT modelled)
  (T *)e               __cast(e, 'T'): the GLib "inheritance" casts are assumed to follow the node's type tag
  for (l = L; l; l = l->next) with uses of l->data only    ->  for l__data in L   (GList/GSList as a sequence)
  switch               if / elif chain on equality; `break` leaves the switch; case fall-through groups are merged
  a & ~(b - 1)         __align_mask(a, b)  (the GI_ALIGN idiom; needs b a power of two: stated as obligation)
  sizeof(T), (T)(-1)<0 probes   constants obtained by compiling the extracted typedefs with gcc at check time
  integer arithmetic   mathematical integers (no overflow modelling; stated in the evidence)

Dropped: message arguments of g_warning/g_debug (the call is kept as givc_message), attributes, comments.
Anything else raises EngineError (the function is then outside the subset: undecided).
"""
import ast as pyast
import json
import os
import re
import subprocess
import tempfile
import types

from .model import EngineError

VERIF = os.path.dirname(os.path.dirname(os.path.abspath(__file__)))
_cache = {}


def repo_root():
    from . import harness
    return harness.REPO


def clang_function(cfile, func):
    key = (cfile, func)
    if key in _cache:
        return _cache[key]
    root = repo_root()
    path = os.path.join(root, cfile)
    cmd = ['clang', '-fsyntax-only', '-w', '-Xclang', '-ast-dump=json', '-Xclang', '-ast-dump-filter=' + func,
           '-I', os.path.join(VERIF, 'cstubs'), '-I', os.path.dirname(path), '-I', root,
           '-I', os.path.join(root, 'girepository'), '-I', os.path.join(root, 'girepository', 'cmph'),
           '-DGI_COMPILATION', path]
    p = subprocess.run(cmd, capture_output=True, text=True)
    txt = p.stdout
    dec = json.JSONDecoder()
    i = 0
    found = None
    while i < len(txt):
        while i < len(txt) and txt[i].isspace():
            i += 1
        if i >= len(txt):
            break
        o, j = dec.raw_decode(txt, i)
        i = j
        if o.get('kind') == 'FunctionDecl' and o.get('name') == func and any(c.get('kind') == 'CompoundStmt' for c in o.get('inner', [])):
            found = o
    if found is None:
        raise EngineError('C function %s not found in %s' % (func, cfile))
    _cache[key] = found
    return found


def N(node, **kw):
    for k, v in kw.items():
        setattr(node, k, v)
    return node


def name(id_, ctx=None):
    return pyast.Name(id=id_, ctx=ctx or pyast.Load())


def call(fn, *args):
    return pyast.Call(func=name(fn), args=list(args), keywords=[])


def const(v):
    return pyast.Constant(value=v)


def attr(e, a, ctx=None):
    return pyast.Attribute(value=e, attr=a, ctx=ctx or pyast.Load())


class Translator(object):
    def __init__(self, decl, constants):
        self.decl = decl
        self.constants = constants      # name -> python int (enum constants, probes)
        self.cells = set()              # locals whose address is taken
        self.line = 0
        self.tmp = 0
        self.params = []
        self.param_is_ptr_to_scalar = {}

    # -------------------------------------------------------------- helpers
    def err(self, what, n):
        raise EngineError('C front end: unsupported %s (%s) near line %s' % (what, n.get('kind'), self.line))

    def loc(self, n):
        r = n.get('range', {}).get('begin', {})
        ln = r.get('line') or r.get('expansionLoc', {}).get('line') or r.get('spellingLoc', {}).get('line')
        if ln:
            self.line = ln
        return self.line

    def strip(self, n):
        """skip implicit casts / parens / full-expression wrappers"""
        while n.get('kind') in ('ImplicitCastExpr', 'ParenExpr', 'ExprWithCleanups', 'ConstantExpr') and n.get('inner'):
            n = n['inner'][0]
        return n

    NARROW_UNSIGNED = {'unsigned short': 16, 'unsigned char': 8, 'guint16': 16, 'guint8': 8, 'uint16_t': 16, 'uint8_t': 8,
                       'gushort': 16, 'guchar': 8, 'unsigned short int': 16}

    def narrow_unsigned_bits(self, t):
        for key in ('desugaredQualType', 'qualType'):
            v = (t.get(key) or '').replace('const ', '').strip()
            if v in self.NARROW_UNSIGNED:
                return self.NARROW_UNSIGNED[v]
        return None

    def is_known_struct(self, qt):
        """a capitalised type name is a struct only if the contracts declare a class of that name (enum typedefs such as
        GIInfoType are plain integers)"""
        from .model import _lookup_class
        try:
            _lookup_class(qt.replace('struct ', ''))
            return True
        except EngineError:
            return False

    def qualtype(self, n):
        return n.get('type', {}).get('qualType', '')

    def find_address_taken(self, n):
        if n.get('kind') == 'UnaryOperator' and n.get('opcode') == '&':
            inner = self.strip(n['inner'][0])
            if inner.get('kind') == 'DeclRefExpr' and inner.get('referencedDecl', {}).get('kind') == 'VarDecl':
                self.cells.add(inner['referencedDecl']['name'])
        for c in n.get('inner', []) or []:
            if isinstance(c, dict):
                self.find_address_taken(c)

    def find_struct_locals(self, n):
        if n.get('kind') == 'VarDecl':
            qt = n.get('type', {}).get('qualType', '')
            if re.match(r'^(?:struct\s+)?[A-Z]\w*$', qt) and qt not in ('GType', 'GQuark'):
                self.cells.discard(n.get('name'))
        for c in n.get('inner', []) or []:
            if isinstance(c, dict):
                self.find_struct_locals(c)

    # -------------------------------------------------------------- expressions
    def expr(self, n):
        self.loc(n)
        k = n.get('kind')
        if k == 'ImplicitCastExpr' and n.get('castKind') == 'NullToPointer':
            return const(None)
        if k in ('ImplicitCastExpr', 'CStyleCastExpr') and n.get('castKind') == 'IntegralCast':
            # conversion to a narrow unsigned type (8 / 16 bit) is reduction modulo 2**bits (C11 6.3.1.3); wider conversions
            # are left mathematical (no overflow modelling, stated in the trusted base)
            bits = self.narrow_unsigned_bits(n.get('type', {}))
            src = self.narrow_unsigned_bits((n.get('inner') or [{}])[0].get('type', {}))
            if bits and not (src and src <= bits):
                inner_e = self.expr(n['inner'][0])
                if isinstance(inner_e, pyast.Constant) and isinstance(inner_e.value, int) and 0 <= inner_e.value < 2 ** bits:
                    return inner_e
                return pyast.BinOp(left=inner_e, op=pyast.Mod(), right=const(2 ** bits))
        if k in ('ImplicitCastExpr', 'ParenExpr', 'ExprWithCleanups', 'ConstantExpr'):
            if k == 'ConstantExpr' and 'value' in n:
                try:
                    return const(int(n['value']))
                except ValueError:
                    pass
            return self.expr(n['inner'][0])
        if k == 'IntegerLiteral':
            return const(int(n['value']))
        if k == 'CharacterLiteral':
            return const(int(n['value']))
        if k == 'StringLiteral':
            v = n.get('value', '""')
            try:
                return const(json.loads(v))
            except Exception:
                return const(v.strip('"'))
        if k == 'DeclRefExpr':
            ref = n.get('referencedDecl', {})
            nm = ref.get('name')
            if ref.get('kind') == 'EnumConstantDecl':
                if nm not in self.constants:
                    raise EngineError('C front end: value of enum constant %s unknown' % nm)
                return const(self.constants[nm])
            if ref.get('kind') == 'FunctionDecl':
                return name('c_' + nm)
            if nm in self.cells:
                return attr(name(nm), 'val')
            if ref.get('kind') == 'VarDecl' and nm not in self.locals and nm not in self.params:
                return name('G_' + nm)       # global object (e.g. ffi_type_pointer)
            return name(nm)
        if k == 'MemberExpr':
            base = self.expr(n['inner'][0])
            bt = self.qualtype(self.strip(n['inner'][0]))
            if re.match(r'^G?S?List \*$', bt.replace('struct _', '')) and not (isinstance(base, pyast.Name) and base.id in self.list_vars):
                # GList / GSList used as a sequence: node->data is the first element, node->next the rest
                if n['name'] == 'data':
                    return pyast.Subscript(value=base, slice=const(0), ctx=pyast.Load())
                if n['name'] == 'next':
                    return pyast.Subscript(value=base, slice=pyast.Slice(lower=const(1), upper=None, step=None), ctx=pyast.Load())
            return attr(base, n['name'])
        if k == 'CStyleCastExpr':
            inner = n['inner'][0]
            qt = self.qualtype(n)
            if qt.endswith('*') and self.strip(inner).get('kind') == 'IntegerLiteral' and self.strip(inner).get('value') == '0':
                return const(None)
            m = re.match(r'^(?:const\s+)?(?:struct\s+)?(\w+)\s*\*$', qt)
            if qt in self.constants.get('__enum_types__', ()):
                cv = const_value(inner, self.constants)
                key = '(%s)(%s)' % (qt, cv)
                if cv is None or key not in self.constants:
                    raise EngineError('C front end: conversion %s of a non-constant / unprobed value' % key)
                return const(self.constants[key])
            e = self.expr(inner)
            if m and m.group(1) not in ('void', 'char', 'gchar', 'guint8', 'guchar', 'gint', 'int'):
                return call('__cast', e, const(m.group(1)))
            return e
        if k == 'UnaryOperator':
            op = n.get('opcode')
            sub = n['inner'][0]
            if op == '*':
                return attr(self.expr(sub), 'val')
            if op == '&':
                inner = self.strip(sub)
                if inner.get('kind') == 'DeclRefExpr':
                    nm = inner['referencedDecl']['name']
                    if inner['referencedDecl'].get('kind') == 'VarDecl' and nm not in self.locals and nm not in self.params:
                        return name('G_' + nm)
                    return name(nm)          # the cell itself
                if inner.get('kind') == 'MemberExpr':
                    return call('__fieldref', self.expr(inner['inner'][0]), const(inner['name']))
                if inner.get('kind') == 'ArraySubscriptExpr':
                    return call('__elemref', self.expr(inner['inner'][0]), self.expr(inner['inner'][1]))
                self.err('address-of', inner)
            if op == '!':
                return call('__cbool', pyast.UnaryOp(op=pyast.Not(), operand=self.truth(sub)))
            if op == '-':
                return pyast.UnaryOp(op=pyast.USub(), operand=self.expr(sub))
            if op == '+':
                return self.expr(sub)
            if op == '~':
                return call('__bitnot', self.expr(sub))
            if op in ('++', '--'):
                self.err('increment as expression', n)
            self.err('unary ' + str(op), n)
        if k == 'BinaryOperator':
            op = n.get('opcode')
            a, b = n['inner']
            if op == '&':
                sb = self.strip(b)
                if sb.get('kind') == 'UnaryOperator' and sb.get('opcode') == '~':
                    inner = self.strip(sb['inner'][0])
                    if inner.get('kind') == 'BinaryOperator' and inner.get('opcode') == '-' and \
                            self.strip(inner['inner'][1]).get('kind') == 'IntegerLiteral' and self.strip(inner['inner'][1])['value'] == '1':
                        return call('__align_mask', self.expr(a), self.expr(inner['inner'][0]))
                return pyast.BinOp(left=self.expr(a), op=pyast.BitAnd(), right=self.expr(b))
            if op == ',':
                self.err('comma operator', n)
            if op == '=':
                self.err('assignment as expression', n)
            if op in ('+', '-') and self.is_struct_pointer(a) and not self.is_struct_pointer(b):
                k = self.expr(b)
                return call('__ptradd', self.expr(a), k if op == '+' else pyast.UnaryOp(op=pyast.USub(), operand=k))
            if op in ('==', '!=', '<', '<=', '>', '>=') and self.is_struct_pointer(a) and self.is_struct_pointer(b):
                cmpop = {'==': pyast.Eq, '!=': pyast.NotEq, '<': pyast.Lt, '<=': pyast.LtE, '>': pyast.Gt, '>=': pyast.GtE}[op]()
                return call('__cbool', pyast.Compare(left=call('__ptrint', self.expr(a)), ops=[cmpop], comparators=[call('__ptrint', self.expr(b))]))
            table = {'+': pyast.Add, '-': pyast.Sub, '*': pyast.Mult, '%': pyast.Mod, '|': pyast.BitOr, '<<': pyast.LShift,
                     '>>': pyast.RShift}
            cmp = {'==': pyast.Eq, '!=': pyast.NotEq, '<': pyast.Lt, '<=': pyast.LtE, '>': pyast.Gt, '>=': pyast.GtE}
            if op in table:
                return pyast.BinOp(left=self.expr(a), op=table[op](), right=self.expr(b))
            if op == '/':
                return call('__cdiv', self.expr(a), self.expr(b))
            if op in cmp:
                return call('__cbool', pyast.Compare(left=self.expr(a), ops=[cmp[op]()], comparators=[self.expr(b)]))
            if op == '&&':
                return call('__cbool', pyast.BoolOp(op=pyast.And(), values=[self.truth(a), self.truth(b)]))
            if op == '||':
                return call('__cbool', pyast.BoolOp(op=pyast.Or(), values=[self.truth(a), self.truth(b)]))
            self.err('binary ' + str(op), n)
        if k == 'ConditionalOperator':
            c, a, b = n['inner']
            return pyast.IfExp(test=self.truth(c), body=self.expr(a), orelse=self.expr(b))
        if k == 'CallExpr':
            fn = self.strip(n['inner'][0])
            if fn.get('kind') != 'DeclRefExpr':
                self.err('indirect call', n)
            fname = fn['referencedDecl']['name']
            if fname == 'givc_new_struct':
                # g_slice_new0(struct T) / g_new0(T, 1) in the stub headers: a fresh zero-initialised struct
                lit = self.strip(n['inner'][1])
                tname = lit.get('value', '').strip('"').replace('struct ', '').strip()
                return call('__newstruct', const(tname))
            args = [self.expr(a) for a in n['inner'][1:]]
            if fname in ('givc_message',):
                return call('c_givc_message')
            if fname in ('givc_fatal',):
                return call('c_givc_fatal')
            return call('c_' + fname, *args)
        if k == 'UnaryExprOrTypeTraitExpr':
            if n.get('name') == 'sizeof':
                qt = n.get('argType', {}).get('qualType') or self.qualtype(self.strip(n['inner'][0]))
                key = 'sizeof(%s)' % qt
                if key not in self.constants:
                    raise EngineError('C front end: %s not in the constant table' % key)
                return const(self.constants[key])
            self.err('type trait', n)
        if k == 'ArraySubscriptExpr':
            return pyast.Subscript(value=self.expr(n['inner'][0]), slice=self.expr(n['inner'][1]), ctx=pyast.Load())
        if k == 'GNUNullExpr' or k == 'CXXNullPtrLiteralExpr':
            return const(None)
        self.err('expression', n)

    def is_struct_pointer(self, n):
        qt = self.qualtype(self.strip(n)) or self.qualtype(n)
        m = re.match(r'^(?:const\s+)?(?:struct\s+)?(\w+)\s*\*$', qt)
        return bool(m) and m.group(1) not in ('void', 'char', 'gchar', 'guchar', 'guint8', 'gint', 'int', 'GList', 'GSList')

    def is_pointer(self, n):
        qt = self.qualtype(n)
        return qt.endswith('*') or 'GList' in qt and '*' in qt

    def truth(self, n):
        """C truth value of an expression -> python bool expression"""
        s = self.strip(n)
        e = self.expr(n)
        if s.get('kind') == 'BinaryOperator' and s.get('opcode') in ('==', '!=', '<', '<=', '>', '>=', '&&', '||'):
            return call('__truth', e)
        if s.get('kind') == 'UnaryOperator' and s.get('opcode') == '!':
            return pyast.UnaryOp(op=pyast.Not(), operand=self.truth(s['inner'][0]))
        if s.get('kind') == 'IntegerLiteral':
            return const(int(s['value']) != 0)
        if self.is_pointer(s):
            return pyast.Compare(left=e, ops=[pyast.IsNot()], comparators=[const(None)])
        return call('__truth', e)

    # -------------------------------------------------------------- statements
    def lvalue_assign(self, lhs, value_ast):
        s = self.strip(lhs)
        k = s.get('kind')
        if k == 'DeclRefExpr':
            nm = s['referencedDecl']['name']
            if nm in self.cells:
                return pyast.Assign(targets=[attr(name(nm), 'val', pyast.Store())], value=value_ast)
            return pyast.Assign(targets=[name(nm, pyast.Store())], value=value_ast)
        if k == 'MemberExpr':
            return pyast.Assign(targets=[attr(self.expr(s['inner'][0]), s['name'], pyast.Store())], value=value_ast)
        if k == 'UnaryOperator' and s.get('opcode') == '*':
            return pyast.Assign(targets=[attr(self.expr(s['inner'][0]), 'val', pyast.Store())], value=value_ast)
        if k == 'ArraySubscriptExpr':
            return pyast.Assign(targets=[pyast.Subscript(value=self.expr(s['inner'][0]), slice=self.expr(s['inner'][1]),
                                                         ctx=pyast.Store())], value=value_ast)
        self.err('assignment target', s)

    def call_with_fieldrefs(self, callnode, target=None):
        """calls that pass &p->f: copy-in / copy-out through a temporary cell"""
        pre, post = [], []
        new_args = []
        for a in callnode.args:
            if isinstance(a, pyast.Call) and isinstance(a.func, pyast.Name) and a.func.id == '__fieldref':
                self.tmp += 1
                t = '__cell%d' % self.tmp
                obj, fld = a.args[0], a.args[1].value
                pre.append(pyast.Assign(targets=[name(t, pyast.Store())], value=call('__newcell', attr(obj, fld))))
                post.append(pyast.Assign(targets=[attr(obj, fld, pyast.Store())], value=attr(name(t), 'val')))
                new_args.append(name(t))
            else:
                new_args.append(a)
        callnode.args = new_args
        return pre, post

    def stmt(self, n, out):
        ln = self.loc(n)
        k = n.get('kind')
        start = len(out)
        try:
            self._stmt(n, out, k)
        finally:
            for s in out[start:]:
                for x in pyast.walk(s):
                    if not hasattr(x, 'lineno'):
                        x.lineno = ln
                        x.col_offset = 0
                        x.end_lineno = ln
                        x.end_col_offset = 0

    def expr_stmt(self, n, out):
        """expression used as a statement"""
        s = self.strip(n)
        k = s.get('kind')
        if k == 'BinaryOperator' and s.get('opcode') == '=':
            rhs = s['inner'][1]
            rs = self.strip(rhs)
            if rs.get('kind') == 'BinaryOperator' and rs.get('opcode') == '=':
                # a = b = c
                self.expr_stmt(rhs, out)
                out.append(self.lvalue_assign(s['inner'][0], self.expr(rs['inner'][0])))
                return
            val = self.expr(rhs)
            if isinstance(val, pyast.Call):
                pre, post = self.call_with_fieldrefs(val)
                out.extend(pre)
                out.append(self.lvalue_assign(s['inner'][0], val))
                out.extend(post)
                return
            out.append(self.lvalue_assign(s['inner'][0], val))
            return
        if k == 'CompoundAssignOperator':
            op = s.get('opcode')[:-1]
            table = {'+': pyast.Add, '-': pyast.Sub, '*': pyast.Mult, '|': pyast.BitOr, '&': pyast.BitAnd}
            if op not in table:
                self.err('compound assignment ' + op, s)
            cur = self.expr(s['inner'][0])
            out.append(self.lvalue_assign(s['inner'][0], pyast.BinOp(left=cur, op=table[op](), right=self.expr(s['inner'][1]))))
            return
        if k == 'UnaryOperator' and s.get('opcode') in ('++', '--'):
            cur = self.expr(s['inner'][0])
            op = pyast.Add() if s['opcode'] == '++' else pyast.Sub()
            out.append(self.lvalue_assign(s['inner'][0], pyast.BinOp(left=cur, op=op, right=const(1))))
            return
        if k == 'CallExpr':
            c = self.expr(s)
            pre, post = self.call_with_fieldrefs(c)
            out.extend(pre)
            out.append(pyast.Expr(value=c))
            out.extend(post)
            return
        if k == 'CStyleCastExpr':     # (void) expr
            return self.expr_stmt(s['inner'][0], out)
        out.append(pyast.Expr(value=self.expr(s)))

    def block(self, n):
        out = []
        if n.get('kind') == 'CompoundStmt':
            for c in n.get('inner', []) or []:
                self.stmt(c, out)
        else:
            self.stmt(n, out)
        return out or [pyast.Pass()]

    def _stmt(self, n, out, k):
        if k == 'CompoundStmt':
            for c in n.get('inner', []) or []:
                self.stmt(c, out)
            return
        if k == 'NullStmt':
            return
        if k == 'DeclStmt':
            for d in n.get('inner', []):
                if d.get('kind') != 'VarDecl':
                    continue
                nm = d['name']
                self.locals.add(nm)
                init = [c for c in d.get('inner', []) if isinstance(c, dict) and c.get('kind') not in ('FullComment',)]
                qt = d.get('type', {}).get('qualType', '')
                if re.match(r'^(?:struct\s+)?[A-Z]\w*$', qt) and qt not in ('GType', 'GQuark') and not init and self.is_known_struct(qt):
                    # a local struct variable: an object; &var is the object itself
                    self.cells.discard(nm)
                    self.struct_locals.add(nm)
                    out.append(pyast.Assign(targets=[name(nm, pyast.Store())], value=call('__newstruct', const(qt.replace('struct ', '')))))
                    continue
                if nm in self.cells:
                    val = self.expr(init[0]) if init else const(0)
                    out.append(pyast.Assign(targets=[name(nm, pyast.Store())], value=call('__newcell', val)))
                elif init:
                    val = self.expr(init[0])
                    if isinstance(val, pyast.Call):
                        pre, post = self.call_with_fieldrefs(val)
                        out.extend(pre)
                        out.append(pyast.Assign(targets=[name(nm, pyast.Store())], value=val))
                        out.extend(post)
                    else:
                        out.append(pyast.Assign(targets=[name(nm, pyast.Store())], value=val))
                else:
                    out.append(pyast.Assign(targets=[name(nm, pyast.Store())], value=call('__uninit')))
            return
        if k == 'ReturnStmt':
            inner = n.get('inner')
            if inner:
                val = self.expr(inner[0])
                if isinstance(val, pyast.Call):
                    pre, post = self.call_with_fieldrefs(val)
                    if pre:
                        out.extend(pre)
                        out.append(pyast.Assign(targets=[name('__ret', pyast.Store())], value=val))
                        out.extend(post)
                        out.append(pyast.Return(value=name('__ret')))
                        return
                out.append(pyast.Return(value=val))
            else:
                out.append(pyast.Return(value=None))
            return
        if k == 'IfStmt':
            inner = n['inner']
            test = self.truth(inner[0])
            body = self.block(inner[1])
            orelse = self.block(inner[2]) if len(inner) > 2 else []
            out.append(pyast.If(test=test, body=body, orelse=orelse))
            return
        if k == 'ForStmt':
            return self.for_stmt(n, out)
        if k == 'WhileStmt':
            cond = n['inner'][0]
            emb = self.embedded_assignment(cond)
            if emb is not None:
                # while ((x = f(..)) != NULL) body   ==>   while True: x = f(..); if not (x != NULL): break; body
                hoisted = []
                self.expr_stmt(emb, hoisted)
                test = self.truth(self.replace_node(cond, emb, self.strip(emb)['inner'][0]))
                body = hoisted + [pyast.If(test=pyast.UnaryOp(op=pyast.Not(), operand=test), body=[pyast.Break()], orelse=[])] \
                    + self.block(n['inner'][1])
                out.append(pyast.While(test=pyast.Constant(value=True), body=body, orelse=[]))
                return
            test = self.truth(cond)
            out.append(pyast.While(test=test, body=self.block(n['inner'][1]), orelse=[]))
            return
        if k == 'DoStmt':
            # do { body } while (0)  (macro idiom)
            cond = self.strip(n['inner'][1])
            if cond.get('kind') == 'IntegerLiteral' and cond['value'] == '0':
                out.extend(self.block(n['inner'][0]))
                return
            self.err('do-while', n)
        if k == 'SwitchStmt':
            return self.switch_stmt(n, out)
        if k == 'BreakStmt':
            if self.switch_depth and self.loop_depth_in_switch[-1] == 0:
                out.append(pyast.Raise(exc=name('__SwitchBreak'), cause=None))
            else:
                out.append(pyast.Break())
            return
        if k == 'ContinueStmt':
            out.append(pyast.Continue())
            return
        if k == 'GotoStmt' or k == 'LabelStmt':
            self.err('goto/label', n)
        return self.expr_stmt(n, out)

    def embedded_assignment(self, n):
        """the single `lhs = rhs` sub-expression of a loop condition (lhs a plain variable), or None"""
        found = []

        def walk(x, top):
            if not isinstance(x, dict):
                return
            if x.get('kind') == 'BinaryOperator' and x.get('opcode') == '=' and not top:
                l = self.strip(x['inner'][0])
                if l.get('kind') == 'DeclRefExpr':
                    found.append(x)
                    return
            for c in x.get('inner', []) or []:
                walk(c, False)
        walk(n, self.strip(n) is n and n.get('opcode') == '=')
        return found[0] if len(found) == 1 else None

    def replace_node(self, n, old, new):
        if n is old:
            return new
        if isinstance(n, dict) and n.get('inner'):
            m = dict(n)
            m['inner'] = [self.replace_node(c, old, new) for c in n['inner']]
            return m
        return n

    switch_depth = 0

    def for_stmt(self, n, out):
        init, _, cond, inc, body = n['inner']
        # GList idiom: for (l = X; l; l = l->next)
        lv = None
        si = self.strip(init) if init else None
        if si and si.get('kind') == 'BinaryOperator' and si.get('opcode') == '=':
            l = self.strip(si['inner'][0])
            if l.get('kind') == 'DeclRefExpr':
                lv = l['referencedDecl']['name']
                start = si['inner'][1]
        if si and si.get('kind') == 'DeclStmt' and len(si.get('inner', [])) == 1 and si['inner'][0].get('inner'):
            lv = si['inner'][0]['name']
            start = si['inner'][0]['inner'][0]
            self.locals.add(lv)
        sc = self.strip(cond) if cond else None
        sinc = self.strip(inc) if inc else None
        is_list = (lv and sc and sc.get('kind') == 'DeclRefExpr' and sc['referencedDecl']['name'] == lv and sinc and
                   sinc.get('kind') == 'BinaryOperator' and sinc.get('opcode') == '=' and
                   self.strip(sinc['inner'][0]).get('kind') == 'DeclRefExpr' and
                   self.strip(sinc['inner'][1]).get('kind') == 'MemberExpr' and self.strip(sinc['inner'][1])['name'] == 'next')
        if is_list and not self.uses_other_than_data(body, lv):
            self.list_vars.add(lv)
            if self.switch_depth:
                self.loop_depth_in_switch[-1] += 1
            b = self.block(body)
            if self.switch_depth:
                self.loop_depth_in_switch[-1] -= 1
            self.list_vars.discard(lv)
            out.append(pyast.For(target=name(lv + '__data', pyast.Store()), iter=self.expr(start), body=b, orelse=[]))
            return
        # counted loop: for (i = a; i < b; i++)
        if lv and sc and sinc and (sc.get('kind') != 'BinaryOperator' or sc.get('opcode') in ('<', '<=', '!=', '&&')) and \
                ((sinc.get('kind') == 'UnaryOperator' and sinc.get('opcode') in ('++',)) or
                 (sinc.get('kind') == 'CompoundAssignOperator' and sinc.get('opcode') == '+=')):
            pre = []
            self.expr_stmt(init, pre) if si.get('kind') != 'DeclStmt' else self.stmt(init, pre)
            out.extend(pre)
            if self.switch_depth:
                self.loop_depth_in_switch[-1] += 1
            b = self.block(body)
            if self.switch_depth:
                self.loop_depth_in_switch[-1] -= 1
            incs = []
            self.expr_stmt(inc, incs)
            if any(isinstance(x, pyast.Continue) for s in b for x in pyast.walk(s)):
                # `continue` must still run the increment: guard the rest of the iteration with a flag
                self.tmp += 1
                flag = '__cont%d' % self.tmp
                b = [pyast.Assign(targets=[name(flag, pyast.Store())], value=const(False))] + self.guard_continue(b, flag)
            out.append(pyast.While(test=self.truth(cond), body=b + incs, orelse=[]))
            return
        self.err('for loop shape', n)

    def guard_continue(self, stmts, flag):
        out = []
        for idx, s in enumerate(stmts):
            if isinstance(s, pyast.Continue):
                out.append(pyast.Assign(targets=[name(flag, pyast.Store())], value=const(True)))
                return out
            has = any(isinstance(x, pyast.Continue) for x in pyast.walk(s))
            if has:
                if isinstance(s, (pyast.For, pyast.While)):
                    raise EngineError('C front end: continue in a nested loop of a counted loop')
                if not isinstance(s, pyast.If):
                    raise EngineError('C front end: continue in an unsupported position')
                new_if = pyast.If(test=s.test, body=self.guard_continue(s.body, flag) or [pyast.Pass()],
                                  orelse=self.guard_continue(s.orelse, flag))
                out.append(new_if)
                rest = self.guard_continue(stmts[idx + 1:], flag)
                if rest:
                    out.append(pyast.If(test=pyast.UnaryOp(op=pyast.Not(), operand=name(flag)), body=rest, orelse=[]))
                return out
            out.append(s)
        return out

    def uses_other_than_data(self, body, lv):
        """does the loop body use the list cursor other than as cursor->data ?"""
        bad = []

        def walk(n, parent):
            if n.get('kind') == 'DeclRefExpr' and n.get('referencedDecl', {}).get('name') == lv:
                p = parent
                if not (p is not None and p.get('kind') == 'MemberExpr' and p.get('name') == 'data'):
                    bad.append(n)
            for c in n.get('inner', []) or []:
                if isinstance(c, dict):
                    nxt_parent = n if n.get('kind') not in ('ImplicitCastExpr', 'ParenExpr') else parent
                    walk(c, n if n.get('kind') == 'MemberExpr' else (parent if n.get('kind') in ('ImplicitCastExpr', 'ParenExpr') else n))
        walk(body, None)
        return bool(bad)

    def switch_stmt(self, n, out):
        inner = [c for c in n['inner'] if isinstance(c, dict) and c]
        subject = self.expr(inner[0])
        body = inner[-1]
        self.tmp += 1
        sv = '__sw%d' % self.tmp
        out.append(pyast.Assign(targets=[name(sv, pyast.Store())], value=subject))
        # flatten case labels
        groups = []   # (labels or None for default, [stmts])
        cur = None

        def add_case(c):
            nonlocal cur
            labels = []
            node = c
            while node.get('kind') in ('CaseStmt', 'DefaultStmt'):
                if node['kind'] == 'CaseStmt':
                    labels.append(self.expr(node['inner'][0]))
                    nxt = node['inner'][-1]
                else:
                    labels.append(None)
                    nxt = node['inner'][-1]
                node = nxt
            cur = [labels, []]
            groups.append(cur)
            return node
        self.switch_depth += 1
        self.loop_depth_in_switch.append(0)
        try:
            for c in body.get('inner', []) or []:
                if c.get('kind') in ('CaseStmt', 'DefaultStmt'):
                    first = add_case(c)
                    self.stmt(first, cur[1])
                else:
                    if cur is None:
                        self.err('statement before first case', c)
                    self.stmt(c, cur[1])
        finally:
            self.switch_depth -= 1
            self.loop_depth_in_switch.pop()
        # every group must end in break / return / noreturn call (no fall-through between non-empty groups)
        chain = None
        default_body = None
        items = []
        for labels, stmts in groups:
            body_stmts = list(stmts)
            if body_stmts and isinstance(body_stmts[-1], pyast.Raise) and getattr(body_stmts[-1].exc, 'id', '') == '__SwitchBreak':
                body_stmts = body_stmts[:-1]
            elif body_stmts and self.ends_flow(body_stmts[-1]):
                pass
            elif groups[-1][1] is stmts:
                pass
            else:
                raise EngineError('C front end: fall-through between non-empty switch cases near line %s' % self.line)
            body_stmts = self.replace_inner_breaks(body_stmts)
            if any(l is None for l in labels):
                default_body = body_stmts or [pyast.Pass()]
                labels = [l for l in labels if l is not None]
                if not labels:
                    continue
            test = pyast.BoolOp(op=pyast.Or(), values=[pyast.Compare(left=name(sv), ops=[pyast.Eq()], comparators=[l]) for l in labels]) \
                if len(labels) > 1 else pyast.Compare(left=name(sv), ops=[pyast.Eq()], comparators=[labels[0]])
            items.append((test, body_stmts or [pyast.Pass()]))
        node = default_body or []
        for test, b in reversed(items):
            node = [pyast.If(test=test, body=b, orelse=node)]
        out.extend(node)

    def ends_flow(self, s):
        if isinstance(s, (pyast.Return,)):
            return True
        if isinstance(s, pyast.Expr) and isinstance(s.value, pyast.Call) and getattr(s.value.func, 'id', '') == 'c_givc_fatal':
            return True
        if isinstance(s, pyast.If) and s.orelse and self.ends_flow(s.body[-1]) and self.ends_flow(s.orelse[-1]):
            return True
        return False

    def replace_inner_breaks(self, stmts):
        """a `break` nested in if-statements of a case: turn the rest of the case into the else-branch"""
        def has_break(s):
            return any(isinstance(x, pyast.Raise) and getattr(x.exc, 'id', '') == '__SwitchBreak' for x in pyast.walk(s))
        if not any(has_break(s) for s in stmts):
            return stmts
        raise EngineError('C front end: conditional break inside a switch case near line %s' % self.line)

    # -------------------------------------------------------------- function
    def function(self):
        d = self.decl
        self.locals = set()
        self.struct_locals = set()
        self.list_vars = set()
        self.loop_depth_in_switch = []
        params = [c for c in d['inner'] if c.get('kind') == 'ParmVarDecl']
        self.params = [p['name'] for p in params]
        body = [c for c in d['inner'] if c.get('kind') == 'CompoundStmt'][0]
        self.find_address_taken(body)
        self.find_struct_locals(body)
        self.cells -= set(self.params)
        stmts = self.block(body)
        # list cursor ->data accesses were translated as  l.data : rewrite to the loop variable
        fn = pyast.FunctionDef(name=d['name'], args=pyast.arguments(posonlyargs=[], args=[pyast.arg(arg=p) for p in self.params],
                                                                     kwonlyargs=[], kw_defaults=[], defaults=[]),
                               body=stmts, decorator_list=[], lineno=d.get('loc', {}).get('line', 1), col_offset=0)

        class Fix(pyast.NodeTransformer):
            def visit_Attribute(self2, node):
                self2.generic_visit(node)
                if node.attr == 'data' and isinstance(node.value, pyast.Name) and node.value.id in all_list_vars:
                    return pyast.copy_location(pyast.Name(id=node.value.id + '__data', ctx=node.ctx), node)
                return node
        all_list_vars = set()
        for x in pyast.walk(fn):
            if isinstance(x, pyast.For) and isinstance(x.target, pyast.Name) and x.target.id.endswith('__data'):
                all_list_vars.add(x.target.id[:-6])
        fn = Fix().visit(fn)
        pyast.fix_missing_locations(fn)
        return fn


def enum_constants(cfile):
    """values of all enum constants visible in the translation unit (from clang's JSON)"""
    key = ('enums', cfile)
    if key in _cache:
        return _cache[key]
    root = repo_root()
    path = os.path.join(root, cfile)
    cmd = ['clang', '-fsyntax-only', '-w', '-Xclang', '-ast-dump=json', '-I', os.path.join(VERIF, 'cstubs'),
           '-I', os.path.dirname(path), '-I', root, '-I', os.path.join(root, 'girepository'),
           '-I', os.path.join(root, 'girepository', 'cmph'), '-DGI_COMPILATION', path]
    p = subprocess.run(cmd, capture_output=True, text=True)
    tu = json.loads(p.stdout)
    out = {}
    for d in tu.get('inner', []):
        if d.get('kind') == 'EnumDecl':
            nxt = 0
            for c in d.get('inner', []):
                if c.get('kind') != 'EnumConstantDecl':
                    continue
                val = None
                for e in c.get('inner', []) or []:
                    val = const_value(e, out)
                if val is None:
                    val = nxt
                out[c['name']] = val
                nxt = val + 1
    _cache[key] = out
    return out


def const_value(e, table):
    k = e.get('kind')
    if k == 'ConstantExpr' and 'value' in e:
        try:
            return int(e['value'])
        except ValueError:
            return None
    if k in ('ImplicitCastExpr', 'ParenExpr', 'ConstantExpr', 'CStyleCastExpr'):
        return const_value(e['inner'][0], table) if e.get('inner') else None
    if k == 'IntegerLiteral':
        return int(e['value'])
    if k == 'DeclRefExpr':
        return table.get(e.get('referencedDecl', {}).get('name'))
    if k == 'UnaryOperator' and e.get('opcode') == '-':
        v = const_value(e['inner'][0], table)
        return -v if v is not None else None
    if k == 'BinaryOperator':
        a = const_value(e['inner'][0], table)
        b = const_value(e['inner'][1], table)
        if a is None or b is None:
            return None
        op = e.get('opcode')
        return {'+': a + b, '-': a - b, '<<': a << b, '|': a | b, '*': a * b}.get(op)
    return None


def translate(cfile, func, extra_constants=None):
    decl = clang_function(cfile, func)
    consts = dict(enum_constants(cfile))
    consts.update(extra_constants or {})
    t = Translator(decl, consts)
    return t.function()
