"""Discharge obligations: z3 (API) first, then the SMT-LIB export goes to cvc5 / z3-new CLI."""
import os
import subprocess
import tempfile
import time
import z3

from .vals import And, Not

Z3_TIMEOUT_MS = int(os.environ.get('GIVC_Z3_TIMEOUT_MS', '6000'))
CLI_TIMEOUT_S = int(os.environ.get('GIVC_CLI_TIMEOUT_S', '60'))
HARD_TIMEOUT_S = int(os.environ.get('GIVC_HARD_TIMEOUT_S', '45'))


class Result(object):
    def __init__(self, name, status, backend, seconds, model=None, info='', reason=''):
        self.name = name
        self.status = status      # 'unsat' (discharged) | 'sat' (refuted) | 'unknown'
        self.backend = backend
        self.seconds = seconds
        self.model = model
        self.info = info
        self.reason = reason


def _cli(cmd, smt2, timeout):
    with tempfile.NamedTemporaryFile('w', suffix='.smt2', delete=False) as f:
        f.write(smt2)
        path = f.name
    try:
        p = subprocess.run(cmd + [path], capture_output=True, text=True, timeout=timeout)
        out = p.stdout.strip().splitlines()
        first = out[0].strip() if out else ''
        return first if first in ('sat', 'unsat', 'unknown') else 'unknown'
    except subprocess.TimeoutExpired:
        return 'unknown'
    finally:
        os.unlink(path)


def check(assumes, guard, cond, name='', info='', want_model=True, use_cli=True, api_timeout_ms=None):
    t0 = time.time()
    s = z3.Solver()
    s.set('timeout', api_timeout_ms or Z3_TIMEOUT_MS)
    s.set('random_seed', 1)
    for a in assumes:
        s.add(a)
    s.add(guard)
    s.add(Not(cond))
    r = s.check()
    dt = time.time() - t0
    if r == z3.unsat:
        return Result(name, 'unsat', 'z3-api', dt, info=info)
    if r == z3.sat:
        return Result(name, 'sat', 'z3-api', dt, model=s.model() if want_model else None, info=info)
    reason = s.reason_unknown()
    if use_cli:
        smt2 = s.to_smt2()
        for backend, cmd in (('cvc5', ['/usr/bin/cvc5', '--strings-exp', '--tlimit=%d' % (CLI_TIMEOUT_S * 1000)]),
                             ('z3-new', ['z3-new', '-T:%d' % CLI_TIMEOUT_S])):
            if 'declare-datatypes' in smt2 and backend == 'cvc5':
                smt2c = smt2.replace('(set-info :status unknown)', '(set-logic ALL)')
            else:
                smt2c = smt2
            try:
                out = _cli(cmd, smt2c, CLI_TIMEOUT_S + 5)
            except FileNotFoundError:
                continue
            if out == 'unsat':
                return Result(name, 'unsat', backend, time.time() - t0, info=info)
            if out == 'sat':
                return Result(name, 'sat', backend, time.time() - t0, info=info, reason='model not imported from CLI back end')
    return Result(name, 'unknown', 'z3-api', time.time() - t0, info=info, reason=reason)


def check_cli_only(assumes, guard, cond, name='', info=''):
    """portfolio back ends on the SMT-LIB export (cvc5, then z3-new), each under a process-level time limit"""
    t0 = time.time()
    s = z3.Solver()
    for a in assumes:
        s.add(a)
    s.add(guard)
    s.add(Not(cond))
    smt2 = s.to_smt2()
    for backend, cmd in (('cvc5', ['/usr/bin/cvc5', '--strings-exp', '--tlimit=%d' % (CLI_TIMEOUT_S * 1000)]),
                         ('z3-new', ['z3-new', '-T:%d' % CLI_TIMEOUT_S])):
        smt2c = smt2.replace('(set-info :status unknown)', '(set-logic ALL)') if backend == 'cvc5' else smt2
        try:
            out = _cli(cmd, smt2c, CLI_TIMEOUT_S + 5)
        except FileNotFoundError:
            continue
        if out == 'unsat':
            return Result(name, 'unsat', backend, time.time() - t0, info=info)
        if out == 'sat':
            return Result(name, 'sat', backend, time.time() - t0, info=info, reason='model not imported from CLI back end')
    return Result(name, 'unknown', 'portfolio', time.time() - t0, info=info, reason='no back end decided within the budget')


def discharge(ex, obligations=None, only=None):
    """Check every obligation of an executor; also a vacuity check on the entry assumptions."""
    out = []
    obligations = obligations if obligations is not None else ex.obligations
    for ob in obligations:
        if only and not only(ob.name):
            continue
        out.append(check(ex.assumes[:ob.n_assumes], ob.guard, ob.cond, ob.name, ob.info))
    return out


def run_forked(fn, timeout_s, default):
    """run fn() in a forked child with a hard wall-clock limit; fn must return a small picklable value"""
    import pickle
    import select
    import signal
    rfd, wfd = os.pipe()
    pid = os.fork()
    if pid == 0:
        try:
            os.close(rfd)
            data = pickle.dumps(fn())
            os.write(wfd, data)
        except BaseException:
            pass
        finally:
            os._exit(0)
    os.close(wfd)
    out = default
    ready, _, _ = select.select([rfd], [], [], timeout_s)
    if ready:
        chunks = b''
        while True:
            b = os.read(rfd, 65536)
            if not b:
                break
            chunks += b
        try:
            out = pickle.loads(chunks)
        except Exception:
            out = default
    else:
        try:
            os.kill(pid, signal.SIGKILL)
        except OSError:
            pass
    os.close(rfd)
    try:
        os.waitpid(pid, 0)
    except OSError:
        pass
    return out


def vacuity(ex):
    return run_forked(lambda: _vacuity(ex), 120, [('assumptions-consistent', 'unknown (time limit)')])


def _vacuity(ex):
    """The conjunction of all assumptions with the function entry must be satisfiable, and the
    normal exit must be reachable (otherwise every postcondition holds vacuously)."""
    res = []
    s = z3.Solver()
    s.set('timeout', max(Z3_TIMEOUT_MS, 90000))

    def has_q(t, seen):
        if t.get_id() in seen:
            return False
        seen.add(t.get_id())
        if z3.is_quantifier(t):
            return True
        return any(has_q(c, seen) for c in t.children())
    for a in ex.assumes:
        if has_q(a, set()):
            continue      # quantified preconditions are left out of the satisfiability (vacuity) guard
        s.add(a)
    r = s.check()
    res.append(('assumptions-consistent', str(r)))
    s.push()
    s.add(ex.normal_guard)
    r2 = s.check()
    s.pop()
    if r2 == z3.unsat and getattr(ex, 'allows_raises', False) and ex.raise_guards:
        s.add(z3.Or(*ex.raise_guards))
        r2 = s.check()
        res.append(('declared-exceptional-exit-reachable', str(r2)))
    else:
        res.append(('normal-exit-reachable', str(r2)))
    return res


class Incremental(object):
    """Obligations are checked in generation order with exactly the assumptions made before them."""

    def __init__(self, ex):
        self.ex = ex
        self.s = z3.Solver()
        self.s.set('timeout', Z3_TIMEOUT_MS)
        self.s.set('random_seed', 1)
        self.n = 0

    def check(self, ob):
        """hard wall-clock budget: the query first runs in a forked child (z3's own timeout is not honoured by every
        tactic); only verdicts reached within the budget count, a killed child means `unknown`."""
        t0 = time.time()
        while self.n < ob.n_assumes:
            self.s.add(self.ex.assumes[self.n])
            self.n += 1
        import select
        import signal
        rfd, wfd = os.pipe()
        pid = os.fork()
        if pid == 0:
            try:
                os.close(rfd)
                self.s.push()
                self.s.add(ob.guard)
                self.s.add(Not(ob.cond))
                r = self.s.check()
                os.write(wfd, str(r).encode())
            except BaseException:
                try:
                    os.write(wfd, b'unknown')
                except OSError:
                    pass
            finally:
                os._exit(0)
        os.close(wfd)
        ready, _, _ = select.select([rfd], [], [], HARD_TIMEOUT_S)
        verdict = 'unknown'
        if ready:
            verdict = os.read(rfd, 64).decode() or 'unknown'
        else:
            try:
                os.kill(pid, signal.SIGKILL)
            except OSError:
                pass
        os.close(rfd)
        try:
            os.waitpid(pid, 0)
        except OSError:
            pass
        if verdict == 'unsat':
            return Result(ob.name, 'unsat', 'z3-api', time.time() - t0, info=ob.info)
        if verdict != 'sat':
            r2 = check_cli_only(self.ex.assumes[:ob.n_assumes], ob.guard, ob.cond, ob.name, ob.info)
            r2.seconds = time.time() - t0
            return r2
        # sat within the budget: repeat in-process to obtain the model
        return self._check_inprocess(ob, t0)

    def _check_inprocess(self, ob, t0):
        self.s.push()
        self.s.add(ob.guard)
        self.s.add(Not(ob.cond))
        r = self.s.check()
        model = self.s.model() if r == z3.sat else None
        reason = self.s.reason_unknown() if r == z3.unknown else ''
        self.s.pop()
        dt = time.time() - t0
        if r == z3.unsat:
            return Result(ob.name, 'unsat', 'z3-api', dt, info=ob.info)
        if r == z3.sat:
            return Result(ob.name, 'sat', 'z3-api', dt, model=model, info=ob.info)
        # fall back to a fresh (non-incremental) query with the CLI portfolio
        return check(self.ex.assumes[:ob.n_assumes], ob.guard, ob.cond, ob.name, ob.info, api_timeout_ms=1000)
