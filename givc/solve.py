"""Discharge obligations: z3 (API) first, then the SMT-LIB export goes to cvc5 / z3-new CLI."""
import os
import subprocess
import tempfile
import time
import z3

from .vals import And, Not

Z3_TIMEOUT_MS = int(os.environ.get('GIVC_Z3_TIMEOUT_MS', '6000'))
CLI_TIMEOUT_S = int(os.environ.get('GIVC_CLI_TIMEOUT_S', '60'))
HARD_TIMEOUT_S = int(os.environ.get('GIVC_HARD_TIMEOUT_S', '45'))
QUICK_S = int(os.environ.get('GIVC_QUICK_S', '6'))


class Result(object):
    def __init__(self, name, status, backend, seconds, model=None, info='', reason=''):
        self.name = name
        self.status = status      # 'unsat' (discharged) | 'sat' (refuted) | 'unknown'
        self.backend = backend
        self.seconds = seconds
        self.model = model
        self.info = info
        self.reason = reason


def _cli(cmd, smt2, timeout):
    with tempfile.NamedTemporaryFile('w', suffix='.smt2', delete=False) as f:
        f.write(smt2)
        path = f.name
    try:
        p = subprocess.run(cmd + [path], capture_output=True, text=True, timeout=timeout)
        out = p.stdout.strip().splitlines()
        first = out[0].strip() if out else ''
        return first if first in ('sat', 'unsat', 'unknown') else 'unknown'
    except subprocess.TimeoutExpired:
        return 'unknown'
    finally:
        os.unlink(path)


def check(assumes, guard, cond, name='', info='', want_model=True, use_cli=True, api_timeout_ms=None):
    t0 = time.time()
    s = z3.Solver()
    s.set('timeout', api_timeout_ms or Z3_TIMEOUT_MS)
    s.set('random_seed', 1)
    for a in assumes:
        s.add(a)
    s.add(guard)
    s.add(Not(cond))
    r = s.check()
    dt = time.time() - t0
    if r == z3.unsat:
        return Result(name, 'unsat', 'z3-api', dt, info=info)
    if r == z3.sat:
        return Result(name, 'sat', 'z3-api', dt, model=s.model() if want_model else None, info=info)
    reason = s.reason_unknown()
    if use_cli:
        smt2 = s.to_smt2()
        for backend, cmd in (('cvc5', ['/usr/bin/cvc5', '--strings-exp', '--tlimit=%d' % (CLI_TIMEOUT_S * 1000)]),
                             ('z3-new', ['z3-new', '-T:%d' % CLI_TIMEOUT_S])):
            if 'declare-datatypes' in smt2 and backend == 'cvc5':
                smt2c = smt2.replace('(set-info :status unknown)', '(set-logic ALL)')
            else:
                smt2c = smt2
            try:
                out = _cli(cmd, smt2c, CLI_TIMEOUT_S + 5)
            except FileNotFoundError:
                continue
            if out == 'unsat':
                return Result(name, 'unsat', backend, time.time() - t0, info=info)
            if out == 'sat':
                return Result(name, 'sat', backend, time.time() - t0, info=info, reason='model not imported from CLI back end')
    return Result(name, 'unknown', 'z3-api', time.time() - t0, info=info, reason=reason)


def check_cli_only(assumes, guard, cond, name='', info=''):
    """portfolio back ends on the SMT-LIB export (cvc5, then z3-new), each under a process-level time limit"""
    t0 = time.time()
    s = z3.Solver()
    for a in assumes:
        s.add(a)
    s.add(guard)
    s.add(Not(cond))
    smt2 = s.to_smt2()
    for backend, cmd in (('cvc5', ['/usr/bin/cvc5', '--strings-exp', '--tlimit=%d' % (CLI_TIMEOUT_S * 1000)]),
                         ('z3-new', ['z3-new', '-T:%d' % CLI_TIMEOUT_S])):
        smt2c = smt2.replace('(set-info :status unknown)', '(set-logic ALL)') if backend == 'cvc5' else smt2
        try:
            out = _cli(cmd, smt2c, CLI_TIMEOUT_S + 5)
        except FileNotFoundError:
            continue
        if out == 'unsat':
            return Result(name, 'unsat', backend, time.time() - t0, info=info)
        if out == 'sat':
            return Result(name, 'sat', backend, time.time() - t0, info=info, reason='model not imported from CLI back end')
    return Result(name, 'unknown', 'portfolio', time.time() - t0, info=info, reason='no back end decided within the budget')


def discharge(ex, obligations=None, only=None):
    """Check every obligation of an executor; also a vacuity check on the entry assumptions."""
    out = []
    obligations = obligations if obligations is not None else ex.obligations
    for ob in obligations:
        if only and not only(ob.name):
            continue
        out.append(check(ex.assumes[:ob.n_assumes], ob.guard, ob.cond, ob.name, ob.info))
    return out


def run_forked(fn, timeout_s, default):
    """run fn() in a forked child with a hard wall-clock limit; fn must return a small picklable value"""
    import pickle
    import select
    import signal
    rfd, wfd = os.pipe()
    pid = os.fork()
    if pid == 0:
        try:
            os.close(rfd)
            data = pickle.dumps(fn())
            os.write(wfd, data)
        except BaseException:
            pass
        finally:
            os._exit(0)
    os.close(wfd)
    out = default
    ready, _, _ = select.select([rfd], [], [], timeout_s)
    if ready:
        chunks = b''
        while True:
            b = os.read(rfd, 65536)
            if not b:
                break
            chunks += b
        try:
            out = pickle.loads(chunks)
        except Exception:
            out = default
    else:
        try:
            os.kill(pid, signal.SIGKILL)
        except OSError:
            pass
    os.close(rfd)
    try:
        os.waitpid(pid, 0)
    except OSError:
        pass
    return out


def run_forked_many(jobs, timeout_s, groups=None, good=None):
    """run the callables concurrently, each in its own forked child, under one wall-clock limit; returns the list of
    results (None for a child that did not finish).  With `groups` (one label per job) and `good` (predicate on a result),
    the other members of a group are abandoned as soon as one member has delivered a good result."""
    import pickle
    import select
    import signal
    kids = []
    for fn in jobs:
        rfd, wfd = os.pipe()
        pid = os.fork()
        if pid == 0:
            try:
                os.close(rfd)
                os.write(wfd, pickle.dumps(fn()))
            except BaseException:
                pass
            finally:
                os._exit(0)
        os.close(wfd)
        kids.append([pid, rfd, b'', False])
    deadline = time.time() + timeout_s
    settled = set()

    def pending():
        return [k for idx, k in enumerate(kids) if not k[3] and not (groups is not None and groups[idx] in settled)]
    while time.time() < deadline and pending():
        fds = [k[1] for k in pending()]
        ready, _, _ = select.select(fds, [], [], max(0.05, min(1.0, deadline - time.time())))
        for fd in ready:
            idx = [i for i, x in enumerate(kids) if x[1] == fd][0]
            k = kids[idx]
            data = os.read(fd, 65536)
            if data:
                k[2] += data
            else:
                k[3] = True
                if groups is not None and good is not None and k[2]:
                    try:
                        if good(pickle.loads(k[2])):
                            settled.add(groups[idx])
                    except Exception:
                        pass
    out = []
    for pid, rfd, data, done in kids:
        if not done:
            try:
                os.kill(pid, signal.SIGKILL)
            except OSError:
                pass
        try:
            os.close(rfd)
        except OSError:
            pass
        try:
            os.waitpid(pid, 0)
        except OSError:
            pass
        try:
            out.append(pickle.loads(data) if done and data else None)
        except Exception:
            out.append(None)
    return out


def vacuity(ex):
    """Every region in which obligations are proved must be satisfiable, otherwise they hold vacuously:
      * each loop body (an arbitrary iteration): the assumptions made up to the end of the body, with the body entered;
      * the function as a whole: all assumptions, and the normal exit reachable.
    Quantified assumptions are left out.  The solver is given hints (never assumptions): the witness clauses of the contract /
    the loop specification and "no arbitrary iteration of another loop is entered"; sat with hints implies sat without.
    The queries run concurrently, each in its own process and with two seeds, under one generous wall-clock limit, so that a
    loaded machine does not turn a satisfiable region into `unknown`."""
    regions = getattr(ex, 'body_regions', [])
    jobs, labels = [], []
    for i, reg in enumerate(regions):
        for seed in (1, 7):
            jobs.append(lambda i=i, seed=seed: _vacuity_region(ex, i, seed))
            labels.append(('%s-body-reachable' % reg['name'], i))
    for seed in (1, 7):
        jobs.append(lambda seed=seed: _vacuity_final(ex, seed))
        labels.append(('final', None))
    def good(res):
        return res == 'sat' or (isinstance(res, list) and all(v == 'sat' for _, v in res))
    scale = getattr(getattr(ex, 'cur_contract', None), 'budget', 1) or 1
    results = run_forked_many(jobs, 420 * scale, groups=[lab + str(j) for lab, j in labels], good=good)
    out = []
    for i, reg in enumerate(regions):
        vs = [r for (lab, j), r in zip(labels, results) if j == i and lab != 'final']
        verdict = 'sat' if 'sat' in vs else ('unsat' if vs and all(v == 'unsat' for v in vs) else 'unknown')
        out.append(('%s-body-reachable' % reg['name'], verdict))
    finals = [r for (lab, j), r in zip(labels, results) if lab == 'final' and r]
    best = None
    for f in finals:
        if all(v == 'sat' for _, v in f):
            best = f
            break
    if best is None:
        best = finals[0] if finals else [('assumptions-consistent', 'unknown (time limit)')]
    return out + best


def _qf_assumes(ex):
    memo = {}

    def has_q(t):
        stack = [t]
        while stack:
            u = stack[-1]
            i = u.get_id()
            if i in memo:
                stack.pop()
                continue
            if z3.is_quantifier(u):
                memo[i] = True
                stack.pop()
                continue
            ch = u.children()
            pending = [c for c in ch if c.get_id() not in memo]
            if pending:
                stack.extend(pending)
                continue
            memo[i] = any(memo[c.get_id()] for c in ch)
            stack.pop()
        return memo[t.get_id()]
    return set(a.get_id() for a in ex.assumes if not has_q(a))


def _solver(assumes, seed):
    s = z3.Solver()
    s.set('timeout', 400000)
    s.set('random_seed', seed)
    for a in assumes:
        s.add(a)
    return s


def _vacuity_region(ex, i, seed):
    regions = ex.body_regions
    reg = regions[i]
    qf_ids = _qf_assumes(ex)
    base = [a for a in ex.assumes[:reg.get('n_end', reg['n_begin'])] if a.get_id() in qf_ids]
    s = _solver(base, seed)
    s.add(reg['guard'])
    for other in regions:
        if other is not reg and other['n_begin'] < reg['n_begin'] and other.get('n_end', 0) <= reg['n_begin']:
            s.add(Not(other['cond']))     # hint: iterations of earlier, already finished loops are irrelevant
    if reg.get('witness') and seed == 1:
        s.push()
        for wt in reg['witness']:
            s.add(wt)
        if s.check() == z3.sat:
            return 'sat'
        s.pop()
    r = s.check()
    if r != z3.sat:
        s = _solver(base, seed)
        s.add(reg['guard'])
        r = s.check()
    return str(r)


def _vacuity_final(ex, seed):
    regions = getattr(ex, 'body_regions', [])
    qf_ids = _qf_assumes(ex)
    qf = [a for a in ex.assumes if a.get_id() in qf_ids]
    negs = [Not(reg['cond']) for reg in regions]
    wit = list(getattr(ex, 'witness_terms', []))
    hint_sets = ([wit + negs, wit] if wit else []) + ([negs] if negs else [])
    if seed != 1:
        hint_sets = list(reversed(hint_sets))
    for hints in hint_sets:
        s = _solver(qf, seed)
        s.set('timeout', 60000)
        for h in hints:
            s.add(h)
        s.add(ex.normal_guard)
        if s.check() == z3.sat:
            return [('assumptions-consistent', 'sat'), ('normal-exit-reachable', 'sat')]
    s = _solver(qf, seed)
    r = s.check()
    s.push()
    s.add(ex.normal_guard)
    r2 = s.check()
    s.pop()
    if r2 == z3.unsat and getattr(ex, 'allows_raises', False) and ex.raise_guards:
        s.add(z3.Or(*ex.raise_guards))
        r2 = s.check()
        return [('assumptions-consistent', str(r)), ('declared-exceptional-exit-reachable', str(r2))]
    return [('assumptions-consistent', str(r)), ('normal-exit-reachable', str(r2))]


class Incremental(object):
    """Obligations are checked in generation order with exactly the assumptions made before them."""

    def __init__(self, ex):
        self.ex = ex
        self.s = z3.Solver()
        self.s.set('timeout', Z3_TIMEOUT_MS)
        self.s.set('random_seed', 1)
        self.n = 0

    def check(self, ob):
        """Portfolio under a hard wall-clock budget.  The query first runs on the incremental solver in a forked child
        (z3's own timeout is not honoured by every tactic).  If that has not answered after QUICK_S seconds, a fresh
        (non-incremental) z3, cvc5 and z3-new are started next to it on the same query; the first definite verdict wins
        and the others are killed.  Only verdicts reached within the budget count; otherwise the result is `unknown`."""
        import select
        import signal
        t0 = time.time()
        while self.n < ob.n_assumes:
            self.s.add(self.ex.assumes[self.n])
            self.n += 1
        procs = []      # (label, pid or Popen, read fd or None)

        def fork_solver(label, fn):
            rfd, wfd = os.pipe()
            pid = os.fork()
            if pid == 0:
                try:
                    os.close(rfd)
                    os.write(wfd, str(fn()).encode())
                except BaseException:
                    try:
                        os.write(wfd, b'unknown')
                    except OSError:
                        pass
                finally:
                    os._exit(0)
            os.close(wfd)
            procs.append((label, pid, rfd))

        def incr():
            self.s.push()
            self.s.add(ob.guard)
            self.s.add(Not(ob.cond))
            return self.s.check()

        def fresh_z3():
            s2 = z3.Solver()
            s2.set('random_seed', 3)
            for a in self.ex.assumes[:ob.n_assumes]:
                s2.add(a)
            s2.add(ob.guard)
            s2.add(Not(ob.cond))
            return s2.check()

        def kill_all():
            for label, h, fd in procs:
                try:
                    if isinstance(h, int):
                        os.kill(h, signal.SIGKILL)
                        os.waitpid(h, 0)
                    else:
                        h.kill()
                        h.wait()
                except (OSError, ChildProcessError):
                    pass
                try:
                    if fd is not None:
                        os.close(fd)
                except OSError:
                    pass

        def poll(deadline):
            """first definite verdict among the running back ends, or None at the deadline / when all gave up"""
            live = list(procs)
            while live and time.time() < deadline:
                fds = [fd for _, _, fd in live]
                ready, _, _ = select.select(fds, [], [], max(0.05, min(1.0, deadline - time.time())))
                for fd in ready:
                    label = [l for l, _, f in live if f == fd][0]
                    data = os.read(fd, 4096).decode()
                    first = data.strip().splitlines()[0].strip() if data.strip() else ''
                    live = [x for x in live if x[2] != fd]
                    if first in ('sat', 'unsat'):
                        return first, label
            return None, None
        smt_path = None
        verdict = backend = None
        try:
            fork_solver('z3-api', incr)
            verdict, backend = poll(t0 + QUICK_S)
            if verdict is None:
                fork_solver('z3-api (fresh solver)', fresh_z3)
                s2 = z3.Solver()
                for a in self.ex.assumes[:ob.n_assumes]:
                    s2.add(a)
                s2.add(ob.guard)
                s2.add(Not(ob.cond))
                smt2 = s2.to_smt2()
                with tempfile.NamedTemporaryFile('w', suffix='.smt2', delete=False) as f:
                    f.write(smt2.replace('(set-info :status unknown)', '(set-logic ALL)'))
                    smt_path = f.name
                for label, cmd in (('cvc5', ['/usr/bin/cvc5', '--strings-exp']), ('z3-new', ['z3-new'])):
                    try:
                        pr = subprocess.Popen(cmd + [smt_path], stdout=subprocess.PIPE, stderr=subprocess.DEVNULL)
                    except FileNotFoundError:
                        continue
                    procs.append((label, pr, pr.stdout.fileno()))
                scale = getattr(getattr(self.ex, 'cur_contract', None), 'budget', 1) or 1
                verdict, backend = poll(t0 + scale * (HARD_TIMEOUT_S + CLI_TIMEOUT_S))
        finally:
            kill_all()
            if smt_path:
                try:
                    os.unlink(smt_path)
                except OSError:
                    pass
        if verdict == 'unsat':
            return Result(ob.name, 'unsat', backend, time.time() - t0, info=ob.info)
        if verdict == 'sat':
            # repeat in-process (on the solver configuration that answered) to obtain the model
            return self._check_inprocess(ob, t0, fresh=(backend != 'z3-api'), decided_by=backend)
        return Result(ob.name, 'unknown', 'portfolio', time.time() - t0, info=ob.info,
                      reason='no back end decided within the budget')

    def _check_inprocess(self, ob, t0, fresh=False, decided_by=None):
        if fresh:
            s2 = z3.Solver()
            s2.set('random_seed', 3)
            s2.set('timeout', 1000 * HARD_TIMEOUT_S)
            for a in self.ex.assumes[:ob.n_assumes]:
                s2.add(a)
            s2.add(ob.guard)
            s2.add(Not(ob.cond))
            r = s2.check()
            model = s2.model() if r == z3.sat else None
            reason = s2.reason_unknown() if r == z3.unknown else ''
        else:
            self.s.push()
            self.s.add(ob.guard)
            self.s.add(Not(ob.cond))
            r = self.s.check()
            model = self.s.model() if r == z3.sat else None
            reason = self.s.reason_unknown() if r == z3.unknown else ''
            self.s.pop()
        dt = time.time() - t0
        if r == z3.unsat:
            return Result(ob.name, 'unsat', 'z3-api', dt, info=ob.info)
        if r == z3.sat:
            return Result(ob.name, 'sat', 'z3-api', dt, model=model, info=ob.info)
        if decided_by in ('cvc5', 'z3-new'):
            # a CLI back end refuted the obligation within the budget; the in-process solver could not reproduce a model
            return Result(ob.name, 'sat', decided_by, dt, model=None, info=ob.info, reason='model not imported from CLI back end')
        # fall back to a fresh (non-incremental) query with the CLI portfolio
        return check(self.ex.assumes[:ob.n_assumes], ob.guard, ob.cond, ob.name, ob.info, api_timeout_ms=1000)
