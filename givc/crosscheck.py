"""CPython cross-check of the front end (validates the tool, proves nothing about the properties).

Each function of selftest/funcs.py is run natively on random concrete inputs (seeded by VERIF_SEED) and
through the symbolic semantics with the parameters fixed to the same values; the symbolic result (merged
formula) must be provably equal to the native result, or raise the same exception class."""
import os
import random
import sys
import time
import z3

ROOT = os.path.dirname(os.path.dirname(os.path.abspath(__file__)))
sys.path.insert(0, ROOT)

SPECS = {
    'f_truthy': [('x', 'any')], 'f_and_or': [('a', 'str'), ('b', 'str')], 'f_str_ops': [('s', 'str1'), ('t', 'str1')],
    'f_index': [('s', 'str'), ('i', 'int')], 'f_slice': [('s', 'str'), ('a', 'int'), ('b', 'int')], 'f_fmt': [('s', 'str'), ('i', 'int')],
    'f_int': [('s', 'numstr')], 'f_arith': [('a', 'int'), ('b', 'int')], 'f_cmp': [('a', 'int'), ('b', 'int')],
    'f_in_tuple': [('s', 'str')], 'f_dict': [('k1', 'str'), ('k2', 'str'), ('v', 'int')], 'f_list': [('a', 'int'), ('b', 'int')],
    'f_loop_break': [('a', 'int'), ('b', 'int'), ('c', 'int')], 'f_try_finally': [('a', 'int')], 'f_obj': [('a', 'int'), ('b', 'int')],
    'f_obj_in': [('a', 'int'), ('b', 'int')], 'f_setattr': [('a', 'int')], 'f_ifexp': [('a', 'int'), ('s', 'str')],
    'f_unpack': [('a', 'int'), ('b', 'int')], 'f_none_attr': [('flag', 'bool')], 'f_assert': [('a', 'int')],
    'f_str_methods': [('s', 'str')], 'f_nested': [('a', 'int'), ('b', 'int')], 'f_walrus': [('a', 'int')], 'f_bool_int': [('a', 'int')], 'f_bits': [('a', 'int')],
    'f_lazy_iterables': [('s', 'str'), ('a', 'int')],
}


def gen(rnd, kind):
    if kind == 'int':
        return rnd.choice([0, 1, -1, 2, 3, 7, 8, 15, 16, 100, 101, 255, 256, -129, rnd.randint(-1000, 1000)])
    if kind == 'bool':
        return rnd.choice([True, False])
    if kind == 'str':
        return ''.join(rnd.choice('ab_-x ') for _ in range(rnd.randint(0, 4)))
    if kind == 'str1':
        return ''.join(rnd.choice('ab') for _ in range(rnd.randint(1, 4)))
    if kind == 'numstr':
        return rnd.choice(['0', '7', '-3', '42', 'x', '', '12a', '1000'])
    if kind == 'any':
        return rnd.choice([None, 0, 1, '', 'a', True, False])
    raise ValueError(kind)


def to_py(model_or_none, v, ex):
    """concrete python value of a symbolic result (terms are closed after fixing the inputs)"""
    from givc.model import V, PyTuple, GList
    from givc.vals import Val
    if isinstance(v, PyTuple):
        return tuple(to_py(None, x, ex) for x in v.items)
    if isinstance(v, GList):
        return [to_py(None, e.val, ex) for e in v.entries if z3.is_true(z3.simplify(e.guard))]
    t = z3.simplify(v.t)
    return t


def run(seed=0, rounds=6, verbose=False):
    from givc import harness
    harness.install()
    from givc.contracts import Contract, REGISTRY
    from givc.verify import Executor
    from givc.model import UNIVERSE, V, PyTuple, GList, add_spec_namespace, EngineError
    from givc.engine import State
    from givc.calls import func_ast
    from givc.vals import Val, mkS, mkI, mkB, NONE
    import selftest.funcs as F
    import inspect
    UNIVERSE.register(F.Box)
    UNIVERSE.register(F.SubBox)
    add_spec_namespace(F)
    rnd = random.Random(seed)
    total = agree = 0
    problems = []
    for name, params in SPECS.items():
        f = getattr(F, name)
        for _ in range(rounds):
            args = [gen(rnd, k) for _, k in params]
            try:
                native = ('value', f(*args))
            except Exception as e:   # noqa
                native = ('raise', type(e).__name__)
            c = Contract('selftest.funcs.' + name, params={}, noexc=False)
            c.module = F
            ex = Executor()
            ex.cur_contract = c
            ex.setup_globals()
            st = State()
            env = {pn: ex.lift(a) for (pn, _), a in zip(params, args)}
            fnode = func_ast(f)
            ex.top_env = dict(env)
            ex.top_pre = State(dict(env), {}, st.guard)
            total += 1
            try:
                result, others = ex.run_body(st, fnode, dict(env), F, None, c.qual)
            except EngineError as e:
                problems.append((name, args, 'engine: %s' % e))
                continue
            others = others + ex.top_exits
            s = z3.Solver()
            s.set('timeout', 20000)
            for a in ex.assumes:
                s.add(a)
            # which exit is taken?
            normal = s.check(st.guard) == z3.sat if not z3.is_false(st.guard) else False
            ok = False
            if native[0] == 'value':
                if not normal:
                    problems.append((name, args, 'native returned %r, symbolic has no normal exit' % (native[1],)))
                    continue
                # no exceptional exit may be feasible
                exc_feasible = [x for x in others if x.kind == 'raise' and s.check(x.state.guard) == z3.sat]
                if exc_feasible:
                    problems.append((name, args, 'native returned, symbolic may raise %s' % exc_feasible[0].exc.__name__))
                    continue
                ok = equal(ex, s, st, result, native[1])
                if not ok:
                    problems.append((name, args, 'native %r != symbolic %r' % (native[1], describe(ex, s, st, result))))
            else:
                feas = [x for x in others if x.kind == 'raise' and s.check(x.state.guard) == z3.sat]
                ok = (not normal) and len(feas) >= 1 and all(x.exc.__name__ == native[1] or issubclass(x.exc, Exception) and native[1] == x.exc.__name__ for x in feas)
                if not ok:
                    problems.append((name, args, 'native raised %s, symbolic normal=%s exits=%s' % (native[1], normal, [x.exc.__name__ for x in feas])))
            if ok:
                agree += 1
    return total, agree, problems


def describe(ex, s, st, v):
    from givc.model import V, PyTuple, GList
    if isinstance(v, PyTuple):
        return tuple(describe(ex, s, st, x) for x in v.items)
    if isinstance(v, V):
        if s.check(st.guard) == z3.sat:
            return s.model().eval(v.t, model_completion=True)
    return v


def equal(ex, s, st, sym, nat):
    """the symbolic value equals the native python value in every model of the path"""
    from givc.model import V, PyTuple, GList
    from givc.vals import Val, mkS, mkI, mkB, NONE
    if isinstance(nat, (tuple, list)) and isinstance(sym, GList):
        live = [en.val for en in sym.entries if s.check(st.guard, z3.Not(en.guard)) == z3.unsat]
        dead = [en for en in sym.entries if s.check(st.guard, en.guard) == z3.unsat]
        if len(live) + len(dead) != len(sym.entries):
            return False
        return len(live) == len(nat) and all(equal(ex, s, st, a, b) for a, b in zip(live, nat))
    if isinstance(nat, tuple):
        if isinstance(sym, PyTuple):
            return len(sym.items) == len(nat) and all(equal(ex, s, st, a, b) for a, b in zip(sym.items, nat))
        if isinstance(sym, V):
            # tuple in the heap
            r = Val.r(sym.t)
            if s.check(st.guard, ex.list_len(st, r) != len(nat)) != z3.unsat:
                return False
            return all(equal(ex, s, st, V(ex.list_elem(st, r, z3.IntVal(i))), b) for i, b in enumerate(nat))
        return False
    if isinstance(sym, (PyTuple, GList)):
        return False
    if nat is None:
        want = NONE
    elif isinstance(nat, bool):
        want = mkB(nat)
    elif isinstance(nat, int):
        want = mkI(nat)
    elif isinstance(nat, str):
        want = mkS(nat)
    else:
        return False
    return s.check(st.guard, sym.t != want) == z3.unsat


if __name__ == '__main__':
    t0 = time.time()
    total, agree, problems = run(int(os.environ.get('VERIF_SEED', '0') or 0), rounds=int(sys.argv[1]) if len(sys.argv) > 1 else 6)
    print('cross-check: %d executions, %d agree, %d disagree/unsupported, %.1fs' % (total, agree, len(problems), time.time() - t0))
    for p in problems[:40]:
        print('  ', p)
    sys.exit(0 if not problems else 1)
