"""Symbolic executor (VC generator) for a subset of Python, run on the *real* function ASTs.

Forward symbolic execution with state merging at joins.  Exceptional / early exits are
collected as guarded exit states.  Calls to functions under contract are replaced by
assert-pre / havoc-modifies / assume-post; tiny helpers may be marked inline.
"""
import ast as pyast
import inspect
import textwrap
import types
import z3

from .vals import *    # noqa
from .model import *   # noqa
from . import model as M


class State(object):
    __slots__ = ('vars', 'heap', 'guard')

    def __init__(self, vars=None, heap=None, guard=None):
        self.vars = vars if vars is not None else {}
        self.heap = heap if heap is not None else {}
        self.guard = guard if guard is not None else z3.BoolVal(True)

    def copy(self):
        return State(dict(self.vars), dict(self.heap), self.guard)

    def dead(self):
        return z3.is_false(self.guard)


class Exit(object):
    __slots__ = ('kind', 'state', 'value', 'exc', 'line', 'loop')

    def __init__(self, kind, state, value=None, exc=None, line=0, loop=None):
        self.kind = kind          # 'return' | 'raise' | 'break' | 'continue'
        self.state = state
        self.value = value
        self.exc = exc            # python exception class for 'raise'
        self.line = line
        self.loop = loop


class Frame(object):
    def __init__(self, func_name, module, closure_env=None):
        self.exits = []
        self.func_name = func_name
        self.module = module
        self.closure_env = closure_env
        self.loop_stack = []
        self.loop_ordinal = 0


class Obligation(object):
    def __init__(self, name, guard, cond, n_assumes, info=''):
        self.name = name
        self.guard = guard
        self.cond = cond
        self.n_assumes = n_assumes
        self.info = info


UNBOUND = object()


class Engine(object):
    MAX_INLINE_DEPTH = 12

    def __init__(self, registry):
        self.registry = registry
        self.assumes = []
        self.obligations = []
        self.h0 = {}                  # initial heap arrays
        self.conc = {}                # id(pyobj) -> (ref int, obj)
        self.conc_next = -1
        self.alloc0 = z3.Int('ALLOC0')
        self.alloc_k = 0
        self.assumes.append(self.alloc0 > 0)
        self.frames = []
        self.used_inline = set()
        self.used_contracts = set()
        self.used_abstract = set()
        self.trusted = set()
        self.uf = {}
        self.depth = 0
        self.cur_contract = None
        self.string_consts = set()
        self.inputs = {}
        self._istr_seen = set()

    # ------------------------------------------------------------------ bookkeeping
    def assume(self, st, fact):
        if z3.is_true(fact):
            return
        self.assumes.append(z3.Implies(st.guard, fact) if not z3.is_true(st.guard) else fact)

    def oblige(self, st, name, cond, info=''):
        self.obligations.append(Obligation(name, st.guard, cond, len(self.assumes), info))

    def frame(self):
        return self.frames[-1]

    def trust(self, what):
        self.trusted.add(what)

    def get_uf(self, name, *sorts):
        key = (name, tuple(str(s) for s in sorts))
        if key not in self.uf:
            self.uf[key] = z3.Function(name, *sorts)
        return self.uf[key]

    # ------------------------------------------------------------------ heap
    def init_arr(self, field):
        if field not in self.h0:
            if field == '$LEN':
                self.h0[field] = z3.Const('H0_LEN', LenArr)
            elif field == '$OFF':
                self.h0[field] = z3.Const('H0_OFF', LenArr)
            elif field == '$ELEM':
                self.h0[field] = z3.Const('H0_ELEM', ElemArr)
            elif field == '$DMAP':
                self.h0[field] = z3.Const('H0_DMAP', DMapArr)
            elif field.startswith('$'):
                self.h0[field] = z3.Const('H0_' + field[1:], IntS)
            else:
                self.h0[field] = z3.Const('H0_' + field, FieldArr)
        return self.h0[field]

    def harr(self, st, field):
        a = st.heap.get(field)
        if a is None:
            a = self.init_arr(field)
        return a

    def load(self, st, ref, field):
        return z3.Select(self.harr(st, field), ref)

    def store(self, st, ref, field, val):
        st.heap[field] = z3.Store(self.harr(st, field), ref, val)

    def new_ref(self, st, cls):
        self.alloc_k += 1
        r = self.alloc0 + self.alloc_k
        rc = fresh('new_' + cls.__name__, IntS)
        self.assumes.append(rc == r)
        self.assumes.append(cls_of(rc) == UNIVERSE.cid(cls))
        return rc

    def assume_class_invariants(self, st, t, spec):
        """Assume the registered data invariants of the classes the value may be an instance of."""
        if spec is None or spec.kind != 'obj':
            return
        from .model import CLASS_INVARIANTS
        for c, items in CLASS_INVARIANTS.items():
            if any(issubclass(c, k) or issubclass(k, c) for k in spec.classes):
                cond = isinstance_term(t, (c,))
                for f, v in items:
                    self.assume(st, z3.Implies(cond, self.load(st, Val.r(t), f) == self.lift(v).t))

    def known_ref(self, st, t):
        """No-dangling-reference assumption for a loaded / input value."""
        self.assume(st, z3.Implies(Val.is_R(t), Val.r(t) <= self.alloc0 + self.alloc_k))

    def new_list(self, st, items, cls=list):
        r = self.new_ref(st, cls)
        st.heap['$LEN'] = z3.Store(self.harr(st, '$LEN'), r, z3.IntVal(len(items)))
        st.heap['$OFF'] = z3.Store(self.harr(st, '$OFF'), r, z3.IntVal(0))
        inner = z3.K(IntS, ABSENT)
        for i, it in enumerate(items):
            inner = z3.Store(inner, i, it.t)
        st.heap['$ELEM'] = z3.Store(self.harr(st, '$ELEM'), r, inner)
        return V(mkR(r), parse_spec('list' if cls is list else 'tuple'))

    def new_dict(self, st, cls=dict):
        r = self.new_ref(st, cls)
        # ownership regions are a ghost labelling of containers: a new container of a class that has a named
        # type with a region is labelled with it (it is distinct from every other object anyway)
        from .model import NAMED_SPECS, REGIONS, region_of
        for ns in NAMED_SPECS.values():
            if ns.kind in ('dict', 'set') and ns.region is not None and ns.classes == (cls,):
                self.assume(st, region_of(r) == REGIONS.setdefault(ns.region, len(REGIONS) + 1))
                break
        st.heap['$LEN'] = z3.Store(self.harr(st, '$LEN'), r, z3.IntVal(0))
        st.heap['$DMAP'] = z3.Store(self.harr(st, '$DMAP'), r, z3.K(Val, ABSENT))
        return V(mkR(r), parse_spec('dict' if issubclass(cls, dict) else 'set'))

    def list_len(self, st, r):
        return z3.Select(self.harr(st, '$LEN'), r)

    def spec_formula(self, st, spec, t):
        """the declared type of a value; a fixed-shape tuple type `tuple[A,B,C]` also fixes the length"""
        f = spec.assumption(t)
        if spec.kind == 'tuple' and isinstance(spec.elem, (list, tuple)):
            shape = self.list_len(st, Val.r(t)) == len(spec.elem)
            f = And(f, z3.Implies(Val.is_R(t), shape))
        return f

    def list_off(self, st, r):
        """lists are windows into their element array: element i lives at index OFF + i (pop(0) and slicing move
        the window instead of copying)"""
        return z3.Select(self.harr(st, '$OFF'), r)

    def list_elem(self, st, r, i):
        return z3.Select(z3.Select(self.harr(st, '$ELEM'), r), self.list_off(st, r) + i)

    def dict_get(self, st, r, k):
        return z3.Select(z3.Select(self.harr(st, '$DMAP'), r), k)

    def dict_set(self, st, r, k, v):
        dm = self.harr(st, '$DMAP')
        inner = z3.Select(dm, r)
        was_absent = z3.Select(inner, k) == ABSENT
        st.heap['$DMAP'] = z3.Store(dm, r, z3.Store(inner, k, v))
        ln = self.harr(st, '$LEN')
        st.heap['$LEN'] = z3.Store(ln, r, z3.If(was_absent, z3.Select(ln, r) + 1, z3.Select(ln, r)))

    def dict_del(self, st, r, k):
        dm = self.harr(st, '$DMAP')
        inner = z3.Select(dm, r)
        was_present = z3.Select(inner, k) != ABSENT
        st.heap['$DMAP'] = z3.Store(dm, r, z3.Store(inner, k, ABSENT))
        ln = self.harr(st, '$LEN')
        st.heap['$LEN'] = z3.Store(ln, r, z3.If(was_present, z3.Select(ln, r) - 1, z3.Select(ln, r)))

    # ------------------------------------------------------------------ lifting python objects
    def lift(self, o, st=None):
        if o is None:
            return V(NONE, parse_spec('none'))
        if isinstance(o, bool):
            return V(mkB(o), parse_spec('bool'))
        if isinstance(o, int):
            return V(mkI(o), parse_spec('int'))
        if isinstance(o, str):
            self.string_consts.add(o)
            return V(mkS(o), parse_spec('str'))
        if isinstance(o, (tuple, list)):
            return PyTuple([self.lift(x) for x in o])
        if isinstance(o, (types.ModuleType, types.FunctionType, types.BuiltinFunctionType, type,
                          types.MethodType, dict, set, frozenset, range)) or callable(o):
            return PyObj(o)
        if type(o) in UNIVERSE.ids:
            return self.lift_instance(o)
        return PyObj(o)

    def lift_instance(self, o):
        key = id(o)
        if key in self.conc:
            return V(mkR(self.conc[key][0]), TypeSpec('obj', (type(o),), exact=True))
        ref = self.conc_next
        self.conc_next -= 1
        self.conc[key] = (ref, o)
        self.assumes.append(cls_of(z3.IntVal(ref)) == UNIVERSE.cid(type(o)))
        attrs = {}
        if hasattr(o, '__dict__'):
            attrs.update(vars(o))
        for c in type(o).__mro__:
            for s in getattr(c, '__slots__', ()):
                if hasattr(o, s):
                    attrs[s] = getattr(o, s)
        for k, v in attrs.items():
            lv = None
            if v is None or isinstance(v, (bool, int, str)):
                lv = self.lift(v)
            elif type(v) in UNIVERSE.ids and type(v) not in (list, tuple, dict, set):
                lv = self.lift_instance(v)
            if lv is not None:
                self.assumes.append(z3.Select(self.init_arr(k), ref) == lv.t)
        return V(mkR(ref), TypeSpec('obj', (type(o),), exact=True))

    # ------------------------------------------------------------------ truthiness / equality
    def truthy(self, st, v):
        if isinstance(v, PyTuple):
            return z3.BoolVal(len(v.items) > 0)
        if isinstance(v, GList):
            return Or(*[e.guard for e in v.entries])
        if isinstance(v, (PyObj, Bound, Closure)):
            o = getattr(v, 'o', True)
            if isinstance(o, (dict, set, frozenset, list, tuple)):
                return z3.BoolVal(len(o) > 0)
            return z3.BoolVal(True)
        t = v.t
        h = v.hint
        if h is not None and not h.opt:
            if h.kind == 'str':
                return z3.Length(Val.s(t)) > 0
            if h.kind == 'bool':
                return Val.b(t)
            if h.kind == 'int':
                return Val.i(t) != 0
            if h.kind == 'none':
                return z3.BoolVal(False)
        t = simp(t)
        if z3.is_app(t) and t.num_args() <= 1 and t.decl().name() in ('N', 'B', 'I', 'S', 'Absent') and \
                (t.num_args() == 0 or z3.is_const(t.arg(0)) and t.arg(0).decl().kind() != z3.Z3_OP_UNINTERPRETED):
            pass
        r = Val.r(t)
        containers = Or(*[cls_of(r) == UNIVERSE.cid(c)
                          for c in UNIVERSE.classes if issubclass(c, (list, tuple, dict, set))])
        ref_truth = z3.If(containers, self.list_len(st, r) > 0, z3.BoolVal(True))
        return simp(z3.If(Val.is_N(t), z3.BoolVal(False),
                    z3.If(Val.is_B(t), Val.b(t),
                    z3.If(Val.is_I(t), Val.i(t) != 0,
                    z3.If(Val.is_S(t), z3.Length(Val.s(t)) > 0,
                    z3.If(Val.is_R(t), ref_truth, z3.BoolVal(False)))))))

    def static_classes(self, v):
        if isinstance(v, V) and v.hint is not None and v.hint.kind == 'obj':
            return v.hint.classes
        return None

    def find_special(self, v, name):
        """Resolve a special method (e.g. __eq__) statically for value v, or None.
        Returns a function, None, or a list of (function-or-None, [classes]) for dynamic dispatch."""
        classes = self.static_classes(v)
        if not classes:
            return None
        impls = {}
        for c in classes:
            for d in UNIVERSE.subclasses(c):
                f = None
                for k in d.__mro__:
                    if k is object:
                        break
                    if name in vars(k):
                        f = vars(k)[name]
                        break
                impls.setdefault(f, []).append(d)
        if len(impls) == 1:
            return next(iter(impls))
        return list(impls.items())

    def call_special(self, st, v, name, args, default):
        """Call special method `name` on v (dispatching on the dynamic class if necessary);
        `default(state)` computes the result when the class does not define it."""
        f = self.find_special(v, name)
        if f is None:
            return default(st)
        if not isinstance(f, list):
            return self.call_function(st, f, [v] + args, {}, inline=True)
        items = f

        def rec(s, i):
            fn, ds = items[i]
            run = (lambda s2: self.call_function(s2, fn, [v] + args, {}, inline=True)) if fn is not None else default
            if i == len(items) - 1:
                return run(s)
            c = Or(*[cls_of(Val.r(v.t)) == UNIVERSE.cid(d) for d in ds])
            return self.branch(s, c, run, lambda s2: rec(s2, i + 1))
        return rec(st, 0)

    def py_eq(self, st, a, b):
        """python a == b ; returns z3 Bool (may execute an inlined __eq__)."""
        if isinstance(a, PyTuple) and isinstance(b, PyTuple):
            if len(a.items) != len(b.items):
                return z3.BoolVal(False)
            return And(*[self.py_eq(st, x, y) for x, y in zip(a.items, b.items)])
        if isinstance(a, PyObj) and isinstance(b, PyObj):
            return z3.BoolVal(a.o == b.o)
        if isinstance(a, PyObj) or isinstance(b, PyObj):
            o, other = (a, b) if isinstance(a, PyObj) else (b, a)
            if isinstance(o.o, dict) and len(o.o) == 0 and isinstance(other, V):
                # x == {} : only for dict refs
                return And(Val.is_R(other.t), self.list_len(st, Val.r(other.t)) == 0)
            return z3.BoolVal(False)
        if isinstance(a, (PyTuple, GList)) or isinstance(b, (PyTuple, GList)):
            raise EngineError('comparison of aggregate with scalar')
        if isinstance(a, V) and isinstance(b, V):
            a, b = self.float_align(a, b)
        if self.find_special(a, '__eq__') is None and self.find_special(b, '__eq__') is not None:
            a, b = b, a
        res = self.call_special(st, a, '__eq__', [b], lambda s: V(mkB(a.t == b.t), parse_spec('bool')))
        return self.truthy(st, res)

    def as_v(self, st, x):
        """Force a python-side aggregate into a heap value."""
        if isinstance(x, V):
            return x
        if isinstance(x, PyTuple):
            return self.new_list(st, [self.as_v(st, i) for i in x.items], tuple)
        if isinstance(x, GList):
            if all(z3.is_true(e.guard) for e in x.entries):
                return self.new_list(st, [self.as_v(st, e.val) for e in x.entries], list)
            raise EngineError('guarded list escapes to the heap')
        raise EngineError('cannot store %r in the heap' % (x,))
