"""./check <property> [--tier quick|thorough] [--replay file]

Re-reads the functions under contract from /repo's working tree, generates verification
conditions, discharges them, writes evidence/<id>.json.
Exit: 0 held (known findings printed) / 1 VIOLATION / 2 undecided / 3 checker error.
"""
import importlib
import json
import multiprocessing
import os
import sys
import time
import traceback

ROOT = os.path.dirname(os.path.dirname(os.path.abspath(__file__)))
sys.path.insert(0, ROOT)

CONTRACT_MODULES = []


def load_contract_modules():
    from givc import harness
    harness.install()
    d = os.path.join(ROOT, 'contracts', 'py')
    mods = sorted(f[:-3] for f in os.listdir(d) if f.endswith('.py') and f not in ('__init__.py',))
    out = []
    for m in mods:
        out.append(importlib.import_module('contracts.py.' + m))
    return out


def obligation_belongs(name, prop):
    """Clause names starting with another property id are not counted for `prop`."""
    import re
    m = re.match(r'^(C\d\d(?:\+C\d\d)*)[._]', name)
    if m:
        return prop in m.group(1).split('+')      # `C01+C07.clause` is counted for both properties
    return True


def verify_one(args):
    qual, prop, tier, chunk, nchunks = args
    t0 = time.time()
    out = {'function': qual, 'obligations': [], 'error': None, 'wall_s': 0.0}
    try:
        load_contract_modules()
        from givc.contracts import REGISTRY
        from givc.verify import Executor
        from givc import solve, replay
        from givc.model import EngineError
        c = REGISTRY.get(qual)
        ex = Executor()
        try:
            ex.verify(c)
        except EngineError as e:
            out['error'] = 'undecided: %s' % (e,)
            out['wall_s'] = time.time() - t0
            return out
        obs = [o for o in ex.obligations if obligation_belongs(o.name, prop)]
        known = load_known()
        inc = solve.Incremental(ex)
        lo = (len(obs) * chunk) // nchunks
        hi = (len(obs) * (chunk + 1)) // nchunks
        for obi, ob in enumerate(obs):
            if not (lo <= obi < hi):
                continue
            r = inc.check(ob)
            rec = {'name': ob.name, 'status': r.status, 'backend': r.backend, 'seconds': round(r.seconds, 4),
                   'info': ob.info, 'reason': r.reason}
            if r.status == 'sat':
                kf = [k for k in known if k['property'] == prop and k['function'] == qual and k['obligation'] == ob.name]
                rec['known'] = None
                if kf:
                    # a listed finding: the obligation must hold outside the listed failing-input class
                    k = kf[0]
                    envk = dict(ex.top_env)
                    envk['result'] = ex.result
                    wd, where = ex.eval_spec(ex.post_state, k['where'], c, envk, ex.top_pre)
                    import z3
                    r2 = solve.check(ex.assumes[:ob.n_assumes] + [z3.Not(z3.And(wd, where))], ob.guard, ob.cond,
                                     ob.name, ob.info)
                    if r2.status == 'unsat':
                        rec['known'] = k['text']
                        rec['status'] = 'known-finding'
                    else:
                        r = r2 if r2.status == 'sat' else r
                if rec['status'] == 'sat':
                    rec['replay'] = replay.make_replay(ex, c, ob, r, prop)
            out['obligations'].append(rec)
        out['vacuity'] = solve.vacuity(ex) if chunk == nchunks - 1 else []
        out['inlined'] = sorted(ex.used_inline)
        out['callee_contracts'] = sorted(ex.used_contracts)
        out['trusted'] = sorted(ex.trusted)
        out['assumed_contracts'] = sorted(q for q in ex.used_contracts if REGISTRY.get(q).trusted)
        out['n_assumes'] = len(ex.assumes)
    except Exception:
        out['error'] = 'crash: ' + traceback.format_exc()
    out['wall_s'] = round(time.time() - t0, 3)
    return out


def load_known():
    path = os.path.join(ROOT, 'known_findings.txt')
    out = []
    if not os.path.exists(path):
        return out
    for line in open(path):
        line = line.strip()
        if not line or line.startswith('#') or line.startswith('fixed:'):
            continue
        # property=C05 function=<qual> obligation=<name> where=<expr> :: text
        head, _, text = line.partition(' :: ')
        rec = {'text': text}
        parts = head.split(' ')
        i = 0
        while i < len(parts):
            p = parts[i]
            if p.startswith('where='):
                rec['where'] = ' '.join([p[6:]] + parts[i + 1:])
                break
            k, _, v = p.partition('=')
            rec[k] = v
            i += 1
        rec.setdefault('where', 'True')
        out.append(rec)
    return out


def main(argv):
    import argparse
    ap = argparse.ArgumentParser()
    ap.add_argument('prop')
    ap.add_argument('--tier', default=os.environ.get('VERIF_TIER', 'quick'))
    ap.add_argument('--replay')
    ap.add_argument('--only')
    ap.add_argument('-j', type=int, default=int(os.environ.get('GIVC_JOBS', '16')))
    a = ap.parse_args(argv)
    prop = a.prop
    seed = int(os.environ.get('VERIF_SEED', '0') or 0)
    t0 = time.time()
    if a.replay:
        from givc import replay
        load_contract_modules()
        return replay.rerun(a.replay)
    load_contract_modules()
    from givc.contracts import REGISTRY
    from givc import extra
    quals = [q for q, c in REGISTRY.contracts.items() if prop in c.props and not c.trusted]
    if a.only:
        quals = [q for q in quals if a.only in q]
    jobs = []
    for q in quals:
        n = max(1, REGISTRY.get(q).chunks)
        jobs.extend((q, prop, a.tier, k, n) for k in range(n))
    results = []
    if jobs:
        with multiprocessing.Pool(min(a.j, len(jobs))) as pool:
            parts = pool.map(verify_one, jobs, chunksize=1)
        merged = {}
        for part in parts:
            m = merged.get(part['function'])
            if m is None:
                merged[part['function']] = part
            else:
                m['obligations'].extend(part['obligations'])
                m['wall_s'] = max(m['wall_s'], part['wall_s'])
                m['error'] = m['error'] or part['error']
        results = list(merged.values())
    extra_res = extra.run(prop, a.tier, seed)
    # CPython cross-check of the front end (validates the tool on every run; larger in the thorough tier)
    from givc import crosscheck
    total, agree, problems = crosscheck.run(seed, rounds=3 if a.tier == 'quick' else 40)
    extra_res['detail']['engine_crosscheck'] = {'executions': total, 'agree': agree, 'problems': [repr(p)[:300] for p in problems[:10]]}
    if problems:
        print('CHECKER-ERROR: the symbolic semantics disagrees with CPython on %d self-test executions' % len(problems))
        for p_ in problems[:5]:
            print('   ', p_)
        report(prop, a.tier, seed, results, extra_res, t0)
        return 3
    return report(prop, a.tier, seed, results, extra_res, t0)


def report(prop, tier, seed, results, extra_res, t0):
    violations = []
    undecided = []
    crashes = []
    known_lines = []
    n_ob = n_dis = 0
    solver_s = 0.0
    samples = []
    backends = {}
    for r in results:
        if r['error']:
            (crashes if r['error'].startswith('crash') else undecided).append((r['function'], r['error']))
            continue
        if not r['obligations']:
            undecided.append((r['function'], 'zero obligations generated'))
        for k, v in r.get('vacuity', []):
            if v != 'sat':
                undecided.append((r['function'], 'vacuity guard %s = %s' % (k, v)))
        for ob in r['obligations']:
            if ob['status'] != 'known-finding':
                n_ob += 1
            solver_s += ob['seconds']
            backends[ob['backend']] = backends.get(ob['backend'], 0) + 1
            if ob['status'] == 'unsat':
                n_dis += 1
            elif ob['status'] == 'known-finding':
                known_lines.append('KNOWN-FINDING: property=%s %s [%s %s]' % (prop, ob['known'], r['function'], ob['name']))
            elif ob['status'] == 'sat':
                violations.append((r['function'], ob))
            else:
                undecided.append((r['function'], 'obligation %s: solver unknown (%s)' % (ob['name'], ob['reason'])))
        if len(samples) < 6 and r['obligations']:
            ob = r['obligations'][0]
            samples.append({'function': r['function'], 'obligation': ob['name'], 'clause': ob['info'],
                            'status': ob['status'], 'backend': ob['backend'], 'seconds': ob['seconds']})
    for u in extra_res.get('undecided', []):
        undecided.append(('extra', u))
    for line in known_lines:
        print(line)
    for er in extra_res.get('known', []):
        print('KNOWN-FINDING: property=%s %s' % (prop, er))
    ev = {
        'property_id': prop, 'tier': tier, 'seed': seed, 'level': 'proof',
        'coverage': {
            'obligations': n_ob + extra_res.get('obligations', 0),
            'discharged': n_dis + extra_res.get('discharged', 0),
            'checker_cmd': './check %s --tier %s' % (prop, tier),
            'trusted_base': sorted(set(sum([r.get('trusted', []) for r in results], [])) |
                                   set('assumed contract: ' + q for r in results for q in r.get('assumed_contracts', [])) |
                                   set(extra_res.get('trusted', []))),
            'functions_under_contract': [r['function'] for r in results],
            'inlined_helpers': sorted(set(sum([r.get('inlined', []) for r in results], []))),
            'callee_contracts_used': sorted(set(sum([r.get('callee_contracts', []) for r in results], []))),
            'backends': backends,
            'solver_seconds': round(solver_s, 3),
            'known_findings': known_lines,
            'undecided': ['%s: %s' % u for u in undecided],
            'bounded_standins': extra_res.get('bounded', []),
            'extra': extra_res.get('detail', {}),
            'samples': samples + extra_res.get('samples', []),
            'per_function': [{'function': r['function'], 'wall_s': r['wall_s'],
                              'obligations': [{k: ob[k] for k in ('name', 'status', 'backend', 'seconds')}
                                              for ob in r['obligations']]} for r in results],
        },
        'assumptions': ASSUMPTIONS + extra_res.get('assumptions', []),
        'wall_s': round(time.time() - t0, 3),
        'violations': len(violations) + len(extra_res.get('violations', [])),
    }
    os.makedirs(os.path.join(ROOT, 'evidence'), exist_ok=True)
    with open(os.path.join(ROOT, 'evidence', prop + '.json'), 'w') as f:
        json.dump(ev, f, indent=1, sort_keys=True)
    print('%s: %d functions, %d obligations, %d discharged, %d known findings, %d violations, %d undecided, %.1fs' % (
        prop, len(results), ev['coverage']['obligations'], ev['coverage']['discharged'], len(known_lines),
        ev['violations'], len(undecided) + len(crashes), time.time() - t0))
    for fn, ob in violations:
        rp = ob.get('replay') or {}
        tail = '' if rp.get('confirmed') else ' no-failing-input-found'
        print('  failed obligation %s in %s: %s' % (ob['name'], fn, ob['info']))
        print('VIOLATION property=%s replay=%s%s' % (prop, rp.get('path', 'none'), tail))
    for v in extra_res.get('violations', []):
        print('  ' + v.get('text', ''))
        print('VIOLATION property=%s replay=%s%s' % (prop, v.get('replay', 'none'),
                                                    '' if v.get('confirmed') else ' no-failing-input-found'))
    for fn, msg in crashes:
        print('CHECKER-ERROR %s: %s' % (fn, msg))
    for fn, msg in undecided:
        print('UNDECIDED %s: %s' % (fn, msg))
    if violations or extra_res.get('violations'):
        return 1
    if crashes:
        return 3
    if undecided:
        return 2
    if ev['coverage']['obligations'] == 0:
        print('UNDECIDED: zero obligations')
        return 2
    return 0


ASSUMPTIONS = [
    'the VC generator (givc) itself and z3 / cvc5',
    'python int is mathematical; str is an SMT string over code points',
    'no monkey-patching, __getattr__, metaclasses or threads in the functions under contract',
    'instances are only of classes defined in the giscanner modules (closed class universe)',
    'class schemas (contracts/py/schema.py): field sorts are assumed at loads and checked at stores',
    'termination is not proved (partial correctness)',
    'exceptions modelled: AssertionError, ValueError, KeyError, IndexError, AttributeError/TypeError on None, SystemExit and explicitly raised classes',
    'stub for the absent C extension giscanner._giscanner (nothing under contract calls it)',
]

if __name__ == '__main__':
    sys.exit(main(sys.argv[1:]))
