"""Contract registry and the contract language.

A contract is keyed by the qualified name of the real function.  Clauses are python
expressions (strings); they are parsed by the same front end into SMT and can also be
evaluated natively on real objects (replay).
"""
import ast as pyast
import importlib
import inspect


class Contract(object):
    def __init__(self, qual, params=None, returns=None, requires=(), ensures=None, modifies=(),
                 raises=None, let=None, inline=(), loops=None, pure_keys=None, trusted=False,
                 props=(), note='', module=None, exc_ensures=None, fresh_result=False,
                 noexc=True, events=None, local_modes=None, var_types=None, casts=(), no_return=False, chunks=1, ghost=None, yield_spec=None, cfile=None, split_returns=False, witness=(), index_ghosts=None, ghost_args=None, assume_ensures=None, budget=1):
        self.qual = qual
        self.budget = budget   # factor on the solver time budget per obligation (only matters for obligations that are not discharged quickly)
        self.params = dict(params or {})
        self.returns = returns
        self.requires = list(requires)
        self.ensures = dict(ensures or {})
        self.modifies = list(modifies)
        self.raises = dict(raises or {})        # exception class name -> condition (pre-state expr) under which allowed
        self.exc_ensures = dict(exc_ensures or {})   # name -> (exc class name, expr) must hold on that exceptional exit
        self.let = dict(let or {})
        self.inline = set(inline)
        self.loops = dict(loops or {})
        self.pure_keys = pure_keys
        self.trusted = trusted                  # contract is assumed, not verified against the body
        self.props = tuple(props)
        self.note = note
        self.module = module
        self.fresh_result = fresh_result
        self.noexc = noexc
        self.events = events
        self.local_modes = dict(local_modes or {})
        self.var_types = dict(var_types or {})
        self.no_return = no_return
        self.chunks = chunks
        self.yield_spec = yield_spec
        self.cfile = cfile
        self.split_returns = split_returns   # postconditions are proved at every return statement separately
        self.assume_ensures = dict(assume_ensures or {})   # postconditions assumed at call sites but NOT proved against the body (listed as assumptions)
        self.ghost_args = dict(ghost_args or {})   # callee qual -> list of {callee ghost: expression} instantiations
        self.index_ghosts = index_ghosts   # ghost ints used as list indices (witness positions of sort / map facts)
        self.witness = list(witness)   # hints for the vacuity guard only: a region of the input space to look for a model in
        self.ghost = dict(ghost or {})   # universally quantified specification-only parameters
        self.casts = list(casts)     # (statement head text, variable, typespec): proved, then used as hint


class Registry(object):
    def __init__(self):
        self.contracts = {}
        self.inline = set()
        self.modules = []
        self.global_loops = {}     # (qualified name of an inlined helper, loop ordinal) -> loop spec

    def add(self, c):
        if c.qual in self.contracts:
            raise ValueError('duplicate contract for ' + c.qual)
        self.contracts[c.qual] = c
        return c

    def mark_inline(self, *quals):
        self.inline.update(quals)

    def get(self, q):
        return self.contracts.get(q)

    def mode_for(self, q, cur=None):
        if cur is not None:
            if q in cur.local_modes:
                return cur.local_modes[q]
            if q in cur.inline:
                return 'inline'
        if q in self.inline:
            return 'inline'
        if q in self.contracts:
            return 'contract'
        return None


REGISTRY = Registry()


def contract(qual, **kw):
    frm = inspect.stack()[1]
    mod = inspect.getmodule(frm[0])
    kw.setdefault('module', mod)
    return REGISTRY.add(Contract(qual, **kw))


def helper_loop(qual, ordinal, spec):
    """invariant of a loop inside a helper that is executed inline in its callers"""
    REGISTRY.global_loops[(qual, ordinal)] = spec


def inline(*quals):
    REGISTRY.mark_inline(*quals)


def resolve_function(qual):
    """'giscanner.maintransformer.MainTransformer._is_pointer_type' -> function object."""
    parts = qual.split('.')
    for i in range(len(parts), 0, -1):
        modname = '.'.join(parts[:i])
        try:
            mod = importlib.import_module(modname)
        except ImportError:
            continue
        obj = mod
        try:
            for p in parts[i:]:
                obj = inspect.getattr_static(obj, p) if inspect.isclass(obj) else getattr(obj, p)
        except AttributeError:
            return None
        if isinstance(obj, (classmethod, staticmethod)):
            obj = obj.__func__
        if isinstance(obj, property):
            obj = obj.fget
        return obj
    return None


_expr_cache = {}


def parse_expr(s):
    if s not in _expr_cache:
        _expr_cache[s] = pyast.parse(s.strip(), mode='eval').body
    return _expr_cache[s]
