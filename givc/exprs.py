"""Expression evaluation mixin."""
import ast as pyast
import builtins as pybuiltins
import inspect
import operator
import re
import types
import z3

from .vals import *    # noqa
from .model import *   # noqa
from .engine import State, Exit, UNBOUND


def _fmt_parts(fmt):
    """Split a %-format string into literal parts and conversion chars."""
    parts = []
    i = 0
    lit = ''
    while i < len(fmt):
        c = fmt[i]
        if c == '%':
            if i + 1 < len(fmt) and fmt[i + 1] == '%':
                lit += '%'
                i += 2
                continue
            conv = fmt[i + 1]
            if conv not in 'sdrf':
                raise EngineError('unsupported %%-format conversion %r' % conv)
            parts.append(('lit', lit))
            lit = ''
            parts.append(('conv', conv))
            i += 2
        else:
            lit += c
            i += 1
    parts.append(('lit', lit))
    return parts


class ExprMixin(object):

    # ------------------------------------------------------------------ raising
    def raise_exit(self, st, exc, cond=None, line=0, msg=None):
        """Record a guarded exceptional exit; the state continues where cond is false."""
        if cond is None:
            cond = z3.BoolVal(True)
        g = simp(And(st.guard, cond))
        if not z3.is_false(g):
            es = st.copy()
            es.guard = And(st.guard, cond)
            self.frame().exits.append(Exit('raise', es, value=msg, exc=exc, line=line))
        st.guard = And(st.guard, Not(cond)) if not z3.is_true(cond) else z3.BoolVal(False)

    # ------------------------------------------------------------------ conditional execution
    def merge_values(self, c, a, b):
        if a is b:
            return a
        if a is UNBOUND and b is UNBOUND:
            return UNBOUND
        if a is UNBOUND:
            return b
        if b is UNBOUND:
            return a
        if isinstance(a, V) and isinstance(b, V):
            if a.t.eq(b.t):
                if a.hint is b.hint or repr(a.hint) == repr(b.hint):
                    return a
                return V(a.t, self.join_hints(a.hint, b.hint))
            hint = a.hint if (a.hint is b.hint or repr(a.hint) == repr(b.hint)) else self.join_hints(a.hint, b.hint)
            return V(Ite(c, a.t, b.t), hint)
        if isinstance(a, PyTuple) and isinstance(b, PyTuple) and len(a.items) == len(b.items):
            return PyTuple([self.merge_values(c, x, y) for x, y in zip(a.items, b.items)],
                           fields=a.fields if a.fields == b.fields else None)
        if (isinstance(a, PyTuple) or (isinstance(a, PyObj) and isinstance(a.o, tuple) and a.o and a.o[0] == 'tuplechoice')) and \
                (isinstance(b, PyTuple) or (isinstance(b, PyObj) and isinstance(b.o, tuple) and b.o and b.o[0] == 'tuplechoice')):
            # constant tuples of different shapes chosen by a condition (class attributes overridden in subclasses):
            # only membership tests are supported on the result
            return PyObj(('tuplechoice', c, a, b))
        if isinstance(a, GList) and isinstance(b, GList):
            return self.merge_glists(c, a, b)
        if isinstance(a, PyObj) and isinstance(b, PyObj) and a.o is b.o:
            return a
        if isinstance(a, PyObj) and isinstance(b, PyObj) and inspect.isclass(a.o) and inspect.isclass(b.o):
            # a class chosen by a condition (klass = A if c else B): calling it branches on the condition
            return PyObj(('classchoice', c, a, b))
        if isinstance(a, Bound) and isinstance(b, Bound) and a.func is b.func:
            return Bound(self.merge_values(c, a.selfv, b.selfv), a.func, a.name)
        raise EngineError('unmergeable values %r / %r' % (a, b))

    def join_hints(self, h1, h2):
        from .model import join_specs
        return join_specs(h1, h2)

    def merge_glists(self, c, a, b):
        ea, eb = a.entries, b.entries
        ids_b = {id(e) for e in eb}
        ids_a = {id(e) for e in ea}
        out = []
        i = j = 0
        while i < len(ea) or j < len(eb):
            if i < len(ea) and j < len(eb) and ea[i] is eb[j]:
                out.append(ea[i]); i += 1; j += 1
            elif i < len(ea) and id(ea[i]) not in ids_b:
                out.append(GEntry(And(c, ea[i].guard), ea[i].val)); i += 1
            elif j < len(eb) and id(eb[j]) not in ids_a:
                out.append(GEntry(And(Not(c), eb[j].guard), eb[j].val)); j += 1
            else:
                raise EngineError('guarded lists reordered differently in two branches')
        return GList(out)

    def merge_states(self, c, sa, sb):
        """Merge two states: sa valid under c, sb under not c (guards already include them)."""
        if sa.dead():
            return sb
        if sb.dead():
            return sa
        out = State()
        out.guard = Or(sa.guard, sb.guard)
        sel = sa.guard   # select sa's values when sa.guard holds (guards are exclusive)
        names = list(dict.fromkeys(list(sa.vars) + list(sb.vars)))
        for n in names:
            x, y = sa.vars.get(n, UNBOUND), sb.vars.get(n, UNBOUND)
            if isinstance(x, V) and isinstance(y, (GList, PyTuple)):
                sb.vars[n] = self.as_v(sb, y)
            elif isinstance(y, V) and isinstance(x, (GList, PyTuple)):
                sa.vars[n] = self.as_v(sa, x)
        for n in names:
            out.vars[n] = self.merge_values(sel, sa.vars.get(n, UNBOUND), sb.vars.get(n, UNBOUND))
        fields = list(dict.fromkeys(list(sa.heap) + list(sb.heap)))
        for f in fields:
            x = sa.heap.get(f)
            y = sb.heap.get(f)
            if x is None:
                x = self.init_arr(f)
            if y is None:
                y = self.init_arr(f)
            out.heap[f] = Ite(sel, x, y)
        return out

    def run_branch(self, fn, s):
        """execute a branch; a construct outside the subset inside a branch that is infeasible under the current
        assumptions (e.g. excluded by a precondition) does not make the function undecided"""
        n_exits = len(self.frame().exits) if self.frames else 0
        n_obl = len(self.obligations)
        entry_guard = s.guard
        try:
            return fn(s)
        except EngineError:
            # is the branch infeasible?  decided in a forked child under a generous wall-clock budget (so that a loaded
            # machine does not turn an excluded branch into an "undecided" function), then by the CLI back ends
            from . import solve as _solve
            assumes = list(self.assumes)

            def infeasible():
                chk = z3.Solver()
                chk.set('timeout', 60000)
                for a in assumes:
                    chk.add(a)
                chk.add(entry_guard)
                return str(chk.check())
            verdict = _solve.run_forked(infeasible, 90, 'unknown')
            if verdict not in ('unsat', 'sat'):
                r2 = _solve.check_cli_only(assumes, entry_guard, z3.BoolVal(False), 'branch-feasibility')
                verdict = r2.status
            if verdict != 'unsat':
                raise
            if self.frames:
                del self.frame().exits[n_exits:]
            del self.obligations[n_obl:]
            s.guard = z3.BoolVal(False)
            return None

    def branch(self, st, cond, fn_then, fn_else):
        """Execute fn_then under cond and fn_else under not cond on copies of st; merge into st.
        Each fn takes a state and returns a value (or None).  Returns the merged value."""
        cond = simp(cond)
        if z3.is_true(cond):
            return fn_then(st)
        if z3.is_false(cond):
            return fn_else(st)
        if getattr(self, 'trace_branches', None) is not None and not any(getattr(f, 'spec_mode', False) for f in self.frames):
            self.trace_branches.append((getattr(self, 'cur_line', 0), self.frame().func_name if self.frames else '', cond, st.guard))
        sa = st.copy()
        sa.guard = And(st.guard, cond)
        sb = st.copy()
        sb.guard = And(st.guard, Not(cond))
        va = self.run_branch(fn_then, sa)
        vb = self.run_branch(fn_else, sb)
        m = self.merge_states(cond, sa, sb)
        st.vars, st.heap, st.guard = m.vars, m.heap, m.guard
        if va is None and vb is None:
            return None
        if sa.dead():
            return vb
        if sb.dead():
            return va
        if va is None or vb is None:
            raise EngineError('branch value missing')
        return self.merge_values(sa.guard, va, vb)

    # ------------------------------------------------------------------ names
    def lookup_name(self, st, name, node=None):
        if name in st.vars:
            v = st.vars[name]
            if v is UNBOUND:
                raise EngineError('unbound local %s' % name)
            return v
        fr = self.frame()
        env = fr.closure_env
        while env is not None:
            if name in env['vars']:
                return env['vars'][name]
            env = env.get('parent')
        extra = getattr(fr, 'extra_globals', None)
        if extra and name in extra:
            return self.lift(extra[name]) if not isinstance(extra[name], (V, PyTuple, PyObj, GList, Bound, Closure)) else extra[name]
        mod = fr.module
        if mod is not None and name in vars(mod):
            return self.lift(vars(mod)[name])
        if name.startswith('c_') and (getattr(fr, 'c_mode', False) or self.registry.get('c:' + name[2:]) is not None):
            from .cruntime import CFunction
            return PyObj(CFunction(name[2:]))
        if hasattr(pybuiltins, name):
            return PyObj(getattr(pybuiltins, name))
        raise EngineError('unknown name %s' % name)

    # ------------------------------------------------------------------ main dispatcher
    def eval(self, st, e):
        m = getattr(self, 'e_' + type(e).__name__, None)
        if m is None:
            raise EngineError('unsupported expression %s at line %s' % (type(e).__name__, getattr(e, 'lineno', '?')))
        return m(st, e)

    def e_Constant(self, st, e):
        if isinstance(e.value, (bytes, float, complex)) or e.value is Ellipsis:
            raise EngineError('unsupported constant %r' % (e.value,))
        return self.lift(e.value)

    def e_Name(self, st, e):
        return self.lookup_name(st, e.id, e)

    def e_Tuple(self, st, e):
        return PyTuple([self.eval(st, x) for x in e.elts])

    def e_List(self, st, e):
        return GList([GEntry(z3.BoolVal(True), self.eval(st, x)) for x in e.elts])

    def e_Set(self, st, e):
        return PyTuple([self.eval(st, x) for x in e.elts])

    def e_Dict(self, st, e):
        d = self.new_dict(st)
        for k, v in zip(e.keys, e.values):
            kv = self.eval(st, k)
            vv = self.as_v(st, self.eval(st, v))
            self.dict_set(st, Val.r(d.t), kv.t, vv.t)
        return d

    def e_Yield(self, st, e):
        """`yield` inside a @contextmanager generator: the with-body runs here.  Its effect is given by the
        contract's yield_spec: havoc `modifies`, assume `ensures`, and it may raise."""
        c = self.cur_contract
        ys = getattr(c, 'yield_spec', None)
        if ys is None or len(self.frames) != 1:
            raise EngineError('yield outside a context-manager contract')
        env = dict(self.top_env)
        env.update({k: v for k, v in st.vars.items() if v is not UNBOUND})
        pre = State(dict(env), dict(st.heap), st.guard)
        self.havoc(st, c, env, ys.get('modifies', []))
        may = fresh('body_raises', BoolS)
        self.raise_exit(st, Exception, may, getattr(e, 'lineno', 0))
        for ex_ in self.frame().exits[-1:]:
            pass
        for expr in ys.get('ensures', []):
            wd, truth = self.eval_spec(st, expr, c, env, pre)
            self.assume(st, And(wd, truth))
            # the same facts hold when the body raised (they describe balanced use of the writer)
        if self.frame().exits and self.frame().exits[-1].kind == 'raise' and self.frame().exits[-1].exc is Exception:
            es = self.frame().exits[-1].state
            es.heap = dict(st.heap)
            for expr in ys.get('ensures', []):
                wd, truth = self.eval_spec(es, expr, c, env, pre)
                self.assumes.append(z3.Implies(es.guard, And(wd, truth)))
        return self.lift(None)

    def e_Lambda(self, st, e):
        return Closure(e, {'vars': st.vars, 'parent': self.frame().closure_env}, self.frame().module, '<lambda>')

    def e_NamedExpr(self, st, e):
        v = self.eval(st, e.value)
        st.vars[e.target.id] = v
        return v

    def e_IfExp(self, st, e):
        c = self.truthy(st, self.eval(st, e.test))
        return self.branch(st, c, lambda s: self.eval(s, e.body), lambda s: self.eval(s, e.orelse))

    def e_BoolOp(self, st, e):
        is_and = isinstance(e.op, pyast.And)

        def rec(s, i):
            v = self.eval(s, e.values[i])
            if i == len(e.values) - 1:
                return v
            t = self.truthy(s, v)

            def cont(s2, positive):
                saved = dict(s2.vars)
                self.refine(s2, e.values[i], positive)
                try:
                    return rec(s2, i + 1)
                finally:
                    s2.vars.clear()
                    s2.vars.update(saved)
            if is_and:
                return self.branch(s, t, lambda s2: cont(s2, True), lambda s2: v)
            return self.branch(s, t, lambda s2: v, lambda s2: cont(s2, False))
        try:
            return rec(st, 0)
        except EngineError as ex:
            if 'unmergeable' not in str(ex):
                raise
            # value is used only for its truth: fall back to boolean result
            raise

    def e_UnaryOp(self, st, e):
        v = self.eval(st, e.operand)
        if isinstance(e.op, pyast.Not):
            return V(mkB(Not(self.truthy(st, v))), parse_spec('bool'))
        if isinstance(e.op, pyast.USub):
            return V(mkI(-Val.i(v.t)), parse_spec('int'))
        raise EngineError('unsupported unary op')

    def e_Compare(self, st, e):
        left = self.eval(st, e.left)
        result = None
        for op, rhs in zip(e.ops, e.comparators):
            right = self.eval(st, rhs)
            b = self.compare(st, op, left, right)
            result = b if result is None else And(result, b)
            left = right
        return V(mkB(result), parse_spec('bool'))

    def compare(self, st, op, a, b):
        if isinstance(op, pyast.Eq):
            return self.py_eq(st, a, b)
        if isinstance(op, pyast.NotEq):
            if isinstance(a, V) and isinstance(b, V) and self.find_special(a, '__ne__') is not None:
                res = self.call_special(st, a, '__ne__', [b], lambda s: V(mkB(a.t != b.t), parse_spec('bool')))
                return self.truthy(st, res)
            return Not(self.py_eq(st, a, b))
        if isinstance(op, pyast.Is):
            return self.identical(a, b)
        if isinstance(op, pyast.IsNot):
            return Not(self.identical(a, b))
        if isinstance(op, pyast.In):
            return self.contains(st, b, a)
        if isinstance(op, pyast.NotIn):
            return Not(self.contains(st, b, a))
        if isinstance(a, V) and isinstance(b, V):
            a, b = self.float_align(a, b)
            ai, bi = Val.i(a.t), Val.i(b.t)
            as_, bs = Val.s(a.t), Val.s(b.t)
            both_str = (a.hint is not None and a.hint.kind == 'str' and not a.hint.opt and
                        b.hint is not None and b.hint.kind == 'str' and not b.hint.opt)
            if both_str:
                if isinstance(op, pyast.Lt):
                    return as_ < bs
                if isinstance(op, pyast.LtE):
                    return as_ <= bs
                if isinstance(op, pyast.Gt):
                    return bs < as_
                if isinstance(op, pyast.GtE):
                    return bs <= as_
            if isinstance(op, pyast.Lt):
                return ai < bi
            if isinstance(op, pyast.LtE):
                return ai <= bi
            if isinstance(op, pyast.Gt):
                return ai > bi
            if isinstance(op, pyast.GtE):
                return ai >= bi
        raise EngineError('unsupported comparison')

    def identical(self, a, b):
        if isinstance(a, V) and isinstance(b, V):
            return a.t == b.t
        if isinstance(a, PyObj) and isinstance(b, PyObj):
            return z3.BoolVal(a.o is b.o)
        if isinstance(a, V) != isinstance(b, V):
            return z3.BoolVal(False)
        if a is b:
            return z3.BoolVal(True)
        raise EngineError('unsupported identity comparison')

    def contains(self, st, container, item):
        """python `item in container`."""
        # CPython evaluates `element == item` (the element is the left operand), after an identity test
        def same(x):
            try:
                idt = self.identical(x, item)
            except EngineError:
                idt = z3.BoolVal(False)
            return Or(idt, self.py_eq(st, x, item))
        if isinstance(container, PyTuple):
            return Or(*[same(x) for x in container.items])
        if isinstance(container, GList):
            return Or(*[And(en.guard, same(en.val)) for en in container.entries])
        if isinstance(container, PyObj):
            o = container.o
            if isinstance(o, tuple) and o and o[0] == 'tuplechoice':
                return z3.If(o[1], self.contains(st, o[2], item), self.contains(st, o[3], item))
            if isinstance(o, tuple) and len(o) == 2 and o[0] in (map, zip, enumerate, reversed, range, iter, filter):
                items = self.iter_items(st, container)
                if items is None:
                    raise EngineError('`in` on a lazy iterable over a symbolic sequence')
                return Or(*[same(x) for x in items])
            if isinstance(o, (dict, set, frozenset, list, tuple)):
                keys = list(o)
                return Or(*[same(self.lift(k)) for k in keys])
            raise EngineError('`in` on %r' % (o,))
        if isinstance(container, V):
            h = container.hint
            if h is not None and h.kind == 'str':
                return z3.Contains(Val.s(container.t), Val.s(item.t))
            if h is not None and h.kind in ('dict', 'set'):
                return self.dict_get(st, Val.r(container.t), item.t) != ABSENT
            if h is not None and h.kind == 'obj':
                f = self.find_special(container, '__contains__')
                if f is not None and not isinstance(f, list):
                    return self.truthy(st, self.call_function(st, f, [container, item], {}, inline=True))
                fi = self.find_special(container, '__iter__')
                if fi is not None and not isinstance(fi, list):
                    from .calls import func_ast
                    fnode = func_ast(inspect.unwrap(fi))
                    body = [b for b in fnode.body if not (isinstance(b, pyast.Expr) and isinstance(b.value, pyast.Constant))]
                    if len(body) == 1 and isinstance(body[0], pyast.Return) and isinstance(body[0].value, pyast.Call) \
                            and getattr(body[0].value.func, 'id', '') == 'iter' and len(body[0].value.args) == 1:
                        # membership falls back to iteration:  x in obj  <=>  x in <what __iter__ iterates>
                        s2 = State({fnode.args.args[0].arg: container}, dict(st.heap), st.guard)
                        from .engine import Frame
                        fr = Frame('<iter>', inspect.getmodule(fi), None)
                        self.frames.append(fr)
                        try:
                            inner = self.eval(s2, body[0].value.args[0])
                        finally:
                            self.frames.pop()
                        return self.contains(st, inner, item)
                raise EngineError('`in` on object %r' % (h,))
            if h is not None and h.kind in ('list', 'tuple') and not h.opt:
                # membership in a symbolic list: an uninterpreted predicate of (elements, offset, length, item) - the same list
                # state and item give the same answer - constrained only by: an empty list contains nothing, and an item equal
                # (by value, for scalars) to the first or last element is contained.  Sound over-approximation otherwise.
                r = Val.r(container.t)
                elems = z3.Select(self.harr(st, '$ELEM'), r)
                off = self.list_off(st, r)
                n = self.list_len(st, r)
                uf = self.get_uf('list_contains', elems.sort(), IntS, IntS, Val, z3.BoolSort())
                m = uf(elems, off, n, item.t)
                self.assume(st, z3.Implies(n <= 0, Not(m)))
                scalar = Or(Val.is_S(item.t), Val.is_I(item.t), Val.is_N(item.t))
                self.assume(st, z3.Implies(And(n > 0, scalar, self.list_elem(st, r, z3.IntVal(0)) == item.t), m))
                self.assume(st, z3.Implies(And(n > 0, scalar, self.list_elem(st, r, n - 1) == item.t), m))
                self.trust('`x in <symbolic list>`: uninterpreted predicate (empty list: False; equal to first / last element: True)')
                return m
        raise EngineError('`in` on value without static type: %r' % (container,))

    # ------------------------------------------------------------------ arithmetic / strings
    def to_str(self, st, v):
        """python str(v) as z3 String."""
        if isinstance(v, PyTuple):
            raise EngineError('str() of tuple')
        if isinstance(v, PyObj):
            if inspect.isclass(v.o):
                return z3.StringVal(str(v.o))
            raise EngineError('str() of python object %r' % (v.o,))
        t = v.t
        h = v.hint
        if h is not None and not h.opt:
            if h.kind == 'str':
                return Val.s(t)
            if h.kind == 'int':
                return self.int_to_str(Val.i(t))
        if h is not None and h.kind == 'obj':
            f = self.find_special(v, '__str__')
            if f is not None and not isinstance(f, list):
                r = self.call_function(st, f, [v], {}, inline=True)
                return Val.s(r.t)
        ufs = self.get_uf('str_of_ref', IntS, StrS)
        self.trust('str(object) uninterpreted')
        return z3.If(Val.is_S(t), Val.s(t),
               z3.If(Val.is_I(t), self.int_to_str(Val.i(t)),
               z3.If(Val.is_N(t), z3.StringVal('None'),
               z3.If(Val.is_B(t), z3.If(Val.b(t), z3.StringVal('True'), z3.StringVal('False')),
                     ufs(Val.r(t))))))

    def int_to_str(self, i):
        """str(int): an injective uninterpreted function istr with inverse sint (decimal digits are
        not modelled; injectivity is what the properties need)."""
        i = simp(i)
        if z3.is_int_value(i):
            return z3.StringVal(str(i.as_long()))
        istr = self.get_uf('istr', IntS, StrS)
        sint = self.get_uf('sint', StrS, IntS)
        t = istr(i)
        key = ('istr', i.get_id())
        if key not in self._istr_seen:
            self._istr_seen.add(key)
            self.assumes.append(sint(t) == i)
            self.assumes.append(z3.Length(t) > 0)
            self.trust('str(int)/%d: injective uninterpreted function with inverse (digit structure not modelled)')
        return t

    _istr_seen = set()

    def str_to_int(self, s):
        """int(str) for canonical decimal strings: inverse of istr; returns (value, is_canonical)."""
        istr = self.get_uf('istr', IntS, StrS)
        sint = self.get_uf('sint', StrS, IntS)
        s = simp(s)
        if z3.is_string_value(s):
            txt = s.as_string()
            try:
                return z3.IntVal(int(txt)), z3.BoolVal(str(int(txt)) == txt)
            except ValueError:
                return z3.IntVal(0), z3.BoolVal(False)
        # ground facts about the decimal notation of the one-digit numbers (instances of istr/sint being str()/int())
        for k in range(10):
            self.assumes.append(And(istr(z3.IntVal(k)) == z3.StringVal(str(k)), sint(z3.StringVal(str(k))) == k))
        return sint(s), istr(sint(s)) == s

    def e_JoinedStr(self, st, e):
        parts = []
        for p in e.values:
            if isinstance(p, pyast.Constant):
                parts.append(z3.StringVal(p.value))
            else:
                if p.format_spec is not None or p.conversion not in (-1, 115):
                    raise EngineError('f-string conversion')
                parts.append(self.to_str(st, self.eval(st, p.value)))
        return V(mkS(self.concat(parts)), parse_spec('str'))

    def concat(self, parts):
        parts = [p for p in parts if not (z3.is_string_value(p) and p.as_string() == '')]
        if not parts:
            return z3.StringVal('')
        if len(parts) == 1:
            return parts[0]
        return z3.Concat(*parts)

    def percent_format(self, st, fmt, args):
        if isinstance(args, PyTuple):
            items = list(args.items)
        else:
            items = [args]
        parts = []
        for kind, x in _fmt_parts(fmt):
            if kind == 'lit':
                parts.append(z3.StringVal(x))
            else:
                if not items:
                    raise EngineError('format argument count mismatch')
                a = items.pop(0)
                if x == 's':
                    parts.append(self.to_str(st, a))
                elif x == 'd':
                    parts.append(self.int_to_str(Val.i(a.t)))
                elif x == 'r':
                    uf = self.get_uf('repr_of', Val, StrS)
                    self.trust('repr() uninterpreted')
                    parts.append(uf(a.t) if isinstance(a, V) else z3.StringVal('<aggregate>'))
                elif x == 'f':
                    uf = self.get_uf('fmt_f', Val, StrS)
                    self.trust("'%f' formatting uninterpreted")
                    parts.append(uf(a.t))
        if items:
            raise EngineError('format argument count mismatch')
        return V(mkS(self.concat(parts)), parse_spec('str'))

    def e_BinOp(self, st, e):
        a = self.eval(st, e.left)
        b = self.eval(st, e.right)
        return self.binop(st, e.op, a, b)

    def const_int(self, v):
        if isinstance(v, V):
            t = simp(v.t)
            if z3.is_app(t) and t.decl().name() == 'I' and z3.is_int_value(t.arg(0)):
                return t.arg(0).as_long()
        return None

    def const_str(self, v):
        if isinstance(v, V):
            t = simp(v.t)
            if z3.is_app(t) and t.decl().name() == 'S' and z3.is_string_value(t.arg(0)):
                return t.arg(0).as_string()
        return None

    def float_align(self, a, b):
        """operands of a comparison where one side is a float (scaled representation): an int operand is scaled likewise"""
        fa = isinstance(a, V) and a.hint is not None and a.hint.kind == 'float'
        fb = isinstance(b, V) and b.hint is not None and b.hint.kind == 'float'
        if not (fa or fb) or (fa and fb):
            return a, b
        from .model import FLOAT_SCALE
        f, o = (a, b) if fa else (b, a)
        if f.hint.opt or not (isinstance(o, V) and o.hint is not None and o.hint.kind in ('int', 'bool') and not o.hint.opt):
            raise EngineError('comparison of a float with a value that is not statically an int')
        if o.hint.kind == 'bool':
            raise EngineError('comparison of a float with a bool')
        o2 = V(mkI(Val.i(o.t) * FLOAT_SCALE), parse_spec('float'))
        return (f, o2) if fa else (o2, f)

    def binop(self, st, op, a, b):
        for x in (a, b):
            if isinstance(x, V) and x.hint is not None and x.hint.kind == 'float':
                raise EngineError('arithmetic on float values is not modelled')
        if isinstance(op, pyast.Mod) and self.const_str(a) is not None:
            return self.percent_format(st, self.const_str(a), b)
        if isinstance(op, pyast.Add):
            if isinstance(a, PyTuple) and isinstance(b, PyTuple):
                return PyTuple(a.items + b.items)
            if isinstance(a, GList) and isinstance(b, GList):
                return GList(a.entries + b.entries)
            ka = a.hint.kind if a.hint is not None and not a.hint.opt else None
            kb = b.hint.kind if b.hint is not None and not b.hint.opt else None
            if ka == 'str' or kb == 'str':
                return V(mkS(self.concat([Val.s(a.t), Val.s(b.t)])), parse_spec('str'))
            if ka == 'int' or kb == 'int':
                return V(mkI(Val.i(a.t) + Val.i(b.t)), parse_spec('int'))
            return V(Ite(Val.is_S(a.t), mkS(z3.Concat(Val.s(a.t), Val.s(b.t))),
                         mkI(Val.i(a.t) + Val.i(b.t))))
        ai, bi = (Val.i(a.t), Val.i(b.t)) if isinstance(a, V) and isinstance(b, V) else (None, None)
        if isinstance(op, pyast.Sub):
            return V(mkI(ai - bi), parse_spec('int'))
        if isinstance(op, pyast.Mult):
            ka = a.hint.kind if a.hint is not None else None
            if ka == 'str':
                return self.str_repeat(st, a, b)
            if getattr(self, 'abstract_products', False) and self.const_int(a) is None and self.const_int(b) is None:
                # nonlinear product: kept uninterpreted (commutative by canonical argument order); only congruence is
                # available to the solver, which is what the offset-sum obligations need
                x, y = simp(ai), simp(bi)
                if str(x) > str(y):
                    x, y = y, x
                uf = self.get_uf('nlmul', IntS, IntS, IntS)
                self.trust('products of two non-constant integers are uninterpreted (congruence + commutativity only)')
                return V(mkI(uf(x, y)), parse_spec('int'))
            return V(mkI(ai * bi), parse_spec('int'))
        if isinstance(op, pyast.Pow):
            ca, cb = self.const_int(a), self.const_int(b)
            if ca is not None and cb is not None and cb >= 0:
                return V(mkI(ca ** cb), parse_spec('int'))
            if ca is not None and 0 < ca <= 16:
                # small constant base, symbolic exponent: exact for exponents 0..128, otherwise unsupported (TypeError exit)
                e = Val.i(b.t)
                self.raise_exit(st, TypeError, Not(Val.is_I(b.t)), 0)
                self.raise_exit(st, OverflowError, Or(e < 0, e > 128), 0)
                self.trust('constant ** symbolic exponent is exact for exponents 0..128 (larger ones are reported as OverflowError)')
                res = z3.IntVal(ca ** 128)
                for k in range(127, -1, -1):
                    res = z3.If(e == k, z3.IntVal(ca ** k), res)
                return V(mkI(res), parse_spec('int'))
            raise EngineError('symbolic power')
        if isinstance(op, pyast.Mod):
            cb = self.const_int(b)
            if cb is not None and cb > 0:
                return V(mkI(ai % bi), parse_spec('int'))   # z3 mod == python floor mod for positive divisor
            self.raise_exit(st, ZeroDivisionError, bi == 0, 0)
            return V(mkI(z3.If(bi > 0, ai % bi, -((-ai) % (-bi)))), parse_spec('int'))
        if isinstance(op, pyast.FloorDiv):
            cb = self.const_int(b)
            if cb is not None and cb > 0:
                return V(mkI(ai / bi), parse_spec('int'))
            self.raise_exit(st, ZeroDivisionError, bi == 0, 0)
            return V(mkI(z3.If(bi > 0, ai / bi, (-ai) / (-bi))), parse_spec('int'))
        if isinstance(op, pyast.BitAnd):
            cb = self.const_int(b)
            if cb is not None and cb > 0 and (cb & (cb - 1)) == 0:
                # x & 2^k  for x >= 0  ==  ((x div 2^k) mod 2) * 2^k ; python ints: also valid for negative x
                return V(mkI(((ai / cb) % 2) * cb), parse_spec('int'))
            if cb is not None and cb > 0 and ((cb + 1) & cb) == 0:
                return V(mkI(ai % (cb + 1)), parse_spec('int'))
            if cb is not None and cb > 0:
                # a general constant mask: the sum of its single-bit masks
                total = z3.IntVal(0)
                k = 1
                while k <= cb:
                    if cb & k:
                        total = total + ((ai / k) % 2) * k
                    k <<= 1
                return V(mkI(total), parse_spec('int'))
            if cb == 0:
                return V(mkI(0), parse_spec('int'))
            raise EngineError('symbolic bit-and')
        if isinstance(op, (pyast.BitOr, pyast.BitXor, pyast.LShift, pyast.RShift)):
            ca, cb = self.const_int(a), self.const_int(b)
            if ca is not None and cb is not None:
                import operator
                f = {pyast.BitOr: operator.or_, pyast.BitXor: operator.xor, pyast.LShift: operator.lshift,
                     pyast.RShift: operator.rshift}[type(op)]
                return self.lift(f(ca, cb))
            raise EngineError('symbolic %s' % type(op).__name__)
        raise EngineError('unsupported binary operator %s' % type(op).__name__)

    def str_repeat(self, st, s, n):
        cs = self.const_str(s)
        cn = self.const_int(n)
        if cs is not None and cn is not None:
            return self.lift(cs * cn)
        uf = self.get_uf('str_repeat', StrS, IntS, StrS)
        r = uf(Val.s(s.t), Val.i(n.t))
        self.trust('str * int: uninterpreted with length/character axioms')
        self.assume(st, z3.Length(r) == z3.If(Val.i(n.t) > 0, z3.Length(Val.s(s.t)) * Val.i(n.t), 0))
        self.assume(st, z3.Implies(z3.Length(Val.s(s.t)) == 0, r == z3.StringVal('')))
        return V(mkS(r), parse_spec('str'))

    # ------------------------------------------------------------------ attribute access
    def resolve_attr_static(self, classes, name, exact=False):
        """How do the given classes (and all their registered subclasses) resolve attribute `name`?
        Returns ('field',None) | ('property', prop) | ('method', func) | ('classattr', value) | mixed -> error."""
        kinds = {}
        for c in classes:
            for d in ([c] if exact else (UNIVERSE.subclasses(c) or [c])):
                try:
                    a = inspect.getattr_static(d, name)
                except AttributeError:
                    kinds.setdefault(('field', None), []).append(d)
                    continue
                if isinstance(a, property):
                    kinds.setdefault(('property', a), []).append(d)
                elif isinstance(a, (types.FunctionType,)):
                    kinds.setdefault(('method', a), []).append(d)
                elif isinstance(a, classmethod):
                    kinds.setdefault(('classmethod', a.__func__), []).append(d)
                elif isinstance(a, staticmethod):
                    kinds.setdefault(('static', a.__func__), []).append(d)
                elif isinstance(a, (types.MemberDescriptorType, types.GetSetDescriptorType)):
                    kinds.setdefault(('field', None), []).append(d)
                else:
                    kinds.setdefault(('classattr', id(a)), []).append(d)
        return kinds

    def e_Attribute(self, st, e):
        base = self.eval(st, e.value)
        return self.getattr(st, base, e.attr, getattr(e, 'lineno', 0))

    def getattr(self, st, base, name, line=0):
        if isinstance(base, PyTuple) and base.fields and name in base.fields:
            return base.items[list(base.fields).index(name)]      # namedtuple field
        if isinstance(base, V) and base.hint is not None and base.hint.kind == 'tuple' and getattr(base.hint, 'fields', None) \
                and name in base.hint.fields:
            return self.getitem(st, base, self.lift(list(base.hint.fields).index(name)), line)
        if isinstance(base, V) and name == '__class__':
            return PyObj(('classof', base))
        if isinstance(base, PyObj) and isinstance(base.o, tuple) and base.o and base.o[0] == 'classof' and name == '__name__':
            uf = self.get_uf('class_name', IntS, StrS)
            self.trust('obj.__class__.__name__: uninterpreted function of the class id')
            return V(mkS(uf(cls_of(Val.r(base.o[1].t)))), parse_spec('str'))
        if isinstance(base, PyObj):
            o = base.o
            if isinstance(o, (dict, set, frozenset, list, tuple, str)) or not hasattr(o, name):
                if hasattr(o, name):
                    return Bound(base, getattr(type(o), name), name)
                raise EngineError('attribute %s of %r' % (name, o))
            return self.lift(getattr(o, name))
        if isinstance(base, (PyTuple, GList)):
            return Bound(base, None, name)
        if isinstance(base, Closure):
            raise EngineError('attribute of closure')
        h = base.hint
        if h is not None and h.kind == 'opaque':
            uf = self.get_uf('opaque_attr_' + name, Val, Val)
            return V(uf(base.t), parse_spec('opaque'))
        if h is not None and h.kind in ('str', 'list', 'dict', 'set', 'tuple'):
            if h.opt:
                self.raise_exit(st, AttributeError, Val.is_N(base.t), line)
            if h.kind == 'dict' and h.classes and not hasattr(dict, name):
                return self.load_field(st, base, name, h.classes)
            return Bound(base, None, name)
        classes = self.static_classes(base)
        if classes:
            kinds = self.resolve_attr_static(classes, name, exact=bool(h.exact))
            if h.opt:
                self.raise_exit(st, AttributeError, Val.is_N(base.t), line)
            if len(kinds) == 1:
                (kind, a), _ = next(iter(kinds.items()))
                return self.getattr_kind(st, base, name, kind, a, classes, line)
            # dispatch on the dynamic class
            items = list(kinds.items())
            if all(k[0] == 'method' for k, _ in items):
                return Bound(base, ('dyn', [(k[1], ds) for k, ds in items]), name)

            def rec(s, i):
                (kind, a), ds = items[i]
                if i == len(items) - 1:
                    return self.getattr_kind(s, base, name, kind, a, ds, line)
                c = Or(*[cls_of(Val.r(base.t)) == UNIVERSE.cid(d) for d in ds])
                return self.branch(s, c, lambda s2: self.getattr_kind(s2, base, name, kind, a, ds, line),
                                   lambda s2: rec(s2, i + 1))
            return rec(st, 0)
        # no static class: plain field load (properties cannot be resolved)
        self.raise_exit(st, AttributeError, Not(Val.is_R(base.t)), line)
        return self.load_field(st, base, name, None)

    def getattr_kind(self, st, base, name, kind, a, classes, line):
        if kind == 'field':
            return self.load_field(st, base, name, classes, line)
        if kind == 'property':
            if a.fget is None:
                raise EngineError('write-only property')
            from .calls import qualname as _qn
            has_contract = isinstance(a.fget, types.FunctionType) and self.registry.get(_qn(a.fget)) is not None
            return self.call_function(st, a.fget, [base], {}, inline=not has_contract, line=line)
        if kind == 'method':
            return Bound(base, a, name)
        if kind == 'classmethod':
            return Bound(PyObj(classes[0]), a, name)
        if kind == 'static':
            return PyObj(a)
        if kind == 'classattr':
            # class-level attribute (may be shadowed by an instance attribute set in __init__)
            for c in classes:
                val = inspect.getattr_static(c, name)
                if callable(val) and not inspect.isclass(val):
                    return Bound(base, None, name)      # C-level method descriptor: by contract
                return self.lift(val)
        raise EngineError('attr kind ' + kind)

    def load_field(self, st, base, name, classes, line=0):
        r = Val.r(base.t)
        t = self.load(st, r, name)
        if classes:
            # attribute presence: objects of classes that do not define the attribute start without it
            # (value Absent); a store creates it.  Reading an absent attribute raises AttributeError.
            subs = []
            for c in classes:
                subs.extend(UNIVERSE.subclasses(c) or [c])
            subs = list(dict.fromkeys(subs))
            missing = [d for d in subs if d not in (list, tuple, dict, set) and not self.class_has_attr(d, name)]
            h0 = z3.Select(self.init_arr(name), r)
            if missing:
                self.assumes.append(z3.Implies(And(r <= self.alloc0, Or(*[cls_of(r) == UNIVERSE.cid(d) for d in missing])),
                                               h0 == ABSENT))
                self.assumes.append(z3.Implies(r > self.alloc0, h0 == ABSENT))
                having = [d for d in subs if d not in missing]
                spec0 = field_spec(having, name) if having else None
                if spec0 is not None and having:
                    self.assume(st, z3.Implies(Or(*[cls_of(r) == UNIVERSE.cid(d) for d in having]), spec0.assumption(t)))
                self.raise_exit(st, AttributeError, t == ABSENT, line)
                classes = having or classes
        spec = field_spec(classes, name) if classes else None
        if spec is not None:
            self.assume(st, spec.assumption(t))
            self.assume_class_invariants(st, t, spec)
        if spec is None or spec.kind in ('obj', 'list', 'dict', 'set', 'tuple', 'any', 'union'):
            self.known_ref(st, t)
        return V(t, spec)

    # ------------------------------------------------------------------ subscripts
    def e_Subscript(self, st, e):
        base = self.eval(st, e.value)
        line = getattr(e, 'lineno', 0)
        if isinstance(e.slice, pyast.Slice):
            return self.slice(st, base, e.slice, line)
        idx = self.eval(st, e.slice)
        return self.getitem(st, base, idx, line)

    def note_distinct_read(self, st, r, pos, n, t):
        """the list was declared pairwise distinct (precondition all_distinct): instances for this read position
        against every position read before"""
        dl = getattr(self, 'distinct_lists', None)
        if not dl:
            return
        key = simp(r).get_id()
        if key not in dl:
            return
        for (pos2,) in dl[key]:
            self.assumes.append(z3.Implies(And(0 <= pos, pos < n, 0 <= pos2, pos2 < n, pos != pos2),
                                           t != self.list_elem(st, r, pos2)))
        if not any(pos.eq(p2) for (p2,) in dl[key]):
            dl[key].append((pos,))

    def getitem(self, st, base, idx, line=0):
        if isinstance(base, PyTuple):
            ci = self.const_int(idx)
            if ci is None:
                # symbolic index into a concrete tuple
                out = None
                n = len(base.items)
                self.raise_exit(st, IndexError, Or(Val.i(idx.t) >= n, Val.i(idx.t) < -n), line)
                for k in range(n - 1, -1, -1):
                    c = Or(Val.i(idx.t) == k, Val.i(idx.t) == k - n)
                    out = base.items[k] if out is None else self.merge_values(c, base.items[k], out)
                return out
            if not (-len(base.items) <= ci < len(base.items)):
                self.raise_exit(st, IndexError, None, line)
                return self.lift(None)
            return base.items[ci]
        if isinstance(base, GList):
            ci = self.const_int(idx)
            if ci is not None and all(z3.is_true(en.guard) for en in base.entries):
                if not (-len(base.entries) <= ci < len(base.entries)):
                    self.raise_exit(st, IndexError, None, line)
                    return self.lift(None)
                return base.entries[ci].val
            raise EngineError('index into guarded list')
        if isinstance(base, PyObj) and isinstance(base.o, dict):
            return self.pydict_get(st, base.o, idx, None, line, subscript=True)
        h = base.hint
        if h is not None and h.kind == 'str':
            s = Val.s(base.t)
            i = Val.i(idx.t)
            n = z3.Length(s)
            self.raise_exit(st, IndexError, Or(i >= n, i < -n), line)
            pos = z3.If(i < 0, n + i, i)
            return V(mkS(z3.SubString(s, pos, 1)), parse_spec('str'))
        if h is not None and h.kind in ('list', 'tuple'):
            if h.opt:
                self.raise_exit(st, TypeError, Val.is_N(base.t), line)
            r = Val.r(base.t)
            n = self.list_len(st, r)
            i = Val.i(idx.t)
            self.raise_exit(st, IndexError, Or(i >= n, i < -n), line)
            pos = z3.If(i < 0, n + i, i)
            t = self.list_elem(st, r, pos)
            self.note_distinct_read(st, r, pos, n, t)
            es = h.elem
            if isinstance(es, (list, tuple)):
                ci = self.const_int(idx)
                es = es[ci] if ci is not None and -len(es) <= ci < len(es) else None
            if es is not None:
                self.assume(st, self.spec_formula(st, es, t))
                self.assume_class_invariants(st, t, es)
            self.known_ref(st, t)
            return V(t, es)
        if h is not None and h.kind == 'dict':
            r = Val.r(base.t)
            for gt, formulas in getattr(self, 'generalized_keys', []):
                # loop invariants generalised over a ghost key hold for the key that is read here
                if gt.sort() == idx.t.sort():
                    for f in formulas:
                        self.assumes.append(z3.substitute(f, (gt, idx.t)))
            t = self.dict_get(st, r, idx.t)
            self.raise_exit(st, KeyError, t == ABSENT, line)
            es = h.elem_for_key(self.const_str(idx)) if isinstance(idx, V) else h.elem
            if es is not None:
                self.assume(st, es.assumption(t))
            self.known_ref(st, t)
            return V(t, es)
        if h is not None and h.kind == 'obj':
            f = self.find_special(base, '__getitem__')
            if f is not None and not isinstance(f, list):
                return self.call_function(st, f, [base, idx], {}, inline=True)
        if h is None or h.kind in ('any', 'union'):
            # dynamic: sequence semantics, anything else is reported as TypeError
            ok = isinstance_term(base.t, (list, tuple))
            self.raise_exit(st, TypeError, Not(ok), line)
            return self.getitem(st, V(base.t, parse_spec('list')), idx, line)
        raise EngineError('subscript on value without static type (%r) line %s' % (h, line))

    def slice(self, st, base, sl, line):
        if sl.step is not None:
            raise EngineError('slice step')
        lo = self.eval(st, sl.lower) if sl.lower is not None else None
        hi = self.eval(st, sl.upper) if sl.upper is not None else None
        if isinstance(base, PyTuple):
            cl = self.const_int(lo) if lo is not None else None
            ch = self.const_int(hi) if hi is not None else None
            if (lo is not None and cl is None) or (hi is not None and ch is None):
                raise EngineError('symbolic slice of tuple')
            return PyTuple(base.items[cl:ch])
        if isinstance(base, GList):
            cl = self.const_int(lo) if lo is not None else None
            ch = self.const_int(hi) if hi is not None else None
            if all(z3.is_true(en.guard) for en in base.entries) and not ((lo is not None and cl is None) or (hi is not None and ch is None)):
                return GList(base.entries[cl:ch])
            raise EngineError('slice of guarded list')
        h = base.hint
        if h is not None and h.kind == 'str':
            s = Val.s(base.t)
            n = z3.Length(s)

            def norm(x, default):
                if x is None:
                    return default
                i = Val.i(x.t)
                i2 = z3.If(i < 0, n + i, i)
                return z3.If(i2 < 0, z3.IntVal(0), z3.If(i2 > n, n, i2))
            a = norm(lo, z3.IntVal(0))
            b = norm(hi, n)
            ln = z3.If(b > a, b - a, z3.IntVal(0))
            if getattr(self, 'string_lemmas', False) and hi is None:
                # valid instance: a string is its first a characters followed by s[a:]
                self.assume(st, And(s == z3.Concat(z3.SubString(s, 0, a), z3.SubString(s, a, ln)),
                                    z3.Length(z3.SubString(s, a, ln)) == ln, z3.SuffixOf(z3.SubString(s, a, ln), s)))
            return V(mkS(z3.SubString(s, a, ln)), parse_spec('str'))
        if h is not None and h.kind in ('list', 'tuple'):
            return self.list_slice(st, base, lo, hi)
        if h is None or h.kind in ('any', 'union'):
            ok = isinstance_term(base.t, (list, tuple))
            self.raise_exit(st, TypeError, Not(ok), line)
            return self.list_slice(st, V(base.t, parse_spec('list')), lo, hi)
        raise EngineError('slice on value without static type')

    def list_slice(self, st, base, lo, hi):
        r = Val.r(base.t)
        n = self.list_len(st, r)
        self.assume(st, n >= 0)

        def norm(x, default):
            if x is None:
                return default
            i = Val.i(x.t)
            i2 = z3.If(i < 0, n + i, i)
            return z3.If(i2 < 0, z3.IntVal(0), z3.If(i2 > n, n, i2))
        a = norm(lo, z3.IntVal(0))
        b = norm(hi, n)
        ln = z3.If(b > a, b - a, z3.IntVal(0))
        nr = self.new_ref(st, list)
        # the slice is a window into the same element array (a copy in python; sound as long as neither list is
        # stored into afterwards - stores go through $ELEM[ref], which is a separate copy per list reference)
        st.heap['$LEN'] = z3.Store(self.harr(st, '$LEN'), nr, ln)
        st.heap['$ELEM'] = z3.Store(self.harr(st, '$ELEM'), nr, z3.Select(self.harr(st, '$ELEM'), r))
        st.heap['$OFF'] = z3.Store(self.harr(st, '$OFF'), nr, self.list_off(st, r) + a)
        return V(mkR(nr), TypeSpec('list', (), False, base.hint.elem))

    def pydict_get(self, st, d, key, default, line=0, subscript=False):
        """Lookup of a symbolic key in a concrete python dict (e.g. ast.type_names)."""
        ck = self.const_str(key) if isinstance(key, V) else None
        if ck is not None:
            if ck in d:
                return self.lift(d[ck])
            if subscript:
                self.raise_exit(st, KeyError, None, line)
                return self.lift(None)
            return default if default is not None else self.lift(None)
        items = list(d.items())
        conds = [self.dict_key_match(st, self.lift(k), key) for k, _ in items]
        if subscript:
            self.raise_exit(st, KeyError, Not(Or(*conds)), line)
        out = default if default is not None else self.lift(None)
        for (k, v), cnd in reversed(list(zip(items, conds))):
            lv = self.lift(v)
            out = self.merge_values(cnd, lv, out)
        return out

    def dict_key_match(self, st, stored, key):
        """python dict lookup: same hash, then identity or stored == key.  hash() of a tuple of fields is modelled
        as injective (equal hashes <=> equal field tuples)."""
        if not (isinstance(stored, V) and isinstance(key, V)):
            return z3.BoolVal(False)
        hf = self.find_special(stored, '__hash__')
        if hf is None or isinstance(hf, list):
            return stored.t == key.t
        fn = inspect.unwrap(hf)
        from .calls import func_ast
        node = func_ast(fn)
        # supported shape:  return hash(<expr over self>)
        body = [b for b in node.body if not (isinstance(b, pyast.Expr) and isinstance(b.value, pyast.Constant))]
        if not (len(body) == 1 and isinstance(body[0], pyast.Return) and isinstance(body[0].value, pyast.Call)
                and getattr(body[0].value.func, 'id', '') == 'hash' and len(body[0].value.args) == 1):
            raise EngineError('__hash__ of %s is not of the shape `return hash(expr)`' % fn.__qualname__)
        arg = body[0].value.args[0]
        self.trust('dict lookup with object keys: hash() of the key tuple is injective')
        mod = inspect.getmodule(fn)

        def hashed(obj):
            s2 = State({node.args.args[0].arg: obj}, dict(st.heap), st.guard)
            from .engine import Frame
            fr = Frame('<hash>', mod, None)
            self.frames.append(fr)
            try:
                return self.eval(s2, arg)
            finally:
                self.frames.pop()
        h1, h2 = hashed(stored), hashed(key)
        same_hash = self.py_eq(st, h1, h2)
        return And(same_hash, Or(stored.t == key.t, self.py_eq(st, stored, key)))
