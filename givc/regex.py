"""Mechanical translation of a Python `re` pattern (sre parse tree) into a z3 regular expression.
Literal sub-patterns may be symbolic strings (placeholders).  Supported: literals, character
classes (incl. negation, ranges, \\d \\w \\s categories over ASCII), '.', groups, alternation,
optional / star / plus / bounded repeats, ^ at the start and $ at the end (dropped: the caller
states the anchoring).  Anything else raises ValueError (-> undecided)."""
import re
import z3
try:
    import re._parser as sre_parse
    import re._constants as sre_c
except ImportError:      # python < 3.11
    import sre_parse
    import sre_constants as sre_c

ANY = z3.AllChar(z3.ReSort(z3.StringSort()))


def char(c):
    return z3.Re(z3.StringVal(chr(c)))


def category(cat):
    if cat == sre_c.CATEGORY_DIGIT:
        return z3.Range('0', '9')
    if cat == sre_c.CATEGORY_SPACE:
        return z3.Union(*[char(ord(c)) for c in ' \t\n\r\f\v'])
    if cat == sre_c.CATEGORY_WORD:
        return z3.Union(z3.Range('a', 'z'), z3.Range('A', 'Z'), z3.Range('0', '9'), char(ord('_')))
    raise ValueError('unsupported category %r' % (cat,))


def class_re(items):
    neg = False
    parts = []
    for op, av in items:
        if op == sre_c.NEGATE:
            neg = True
        elif op == sre_c.LITERAL:
            parts.append(char(av))
        elif op == sre_c.RANGE:
            parts.append(z3.Range(chr(av[0]), chr(av[1])))
        elif op == sre_c.CATEGORY:
            parts.append(category(av))
        else:
            raise ValueError('unsupported class item %r' % (op,))
    u = parts[0] if len(parts) == 1 else z3.Union(*parts)
    if neg:
        return z3.Intersect(ANY, z3.Complement(u))
    return u


def translate(parsed, placeholders, flags=0, as_list=False):
    seq = []
    items = list(parsed)
    i = 0
    while i < len(items):
        op, av = items[i]
        if op == sre_c.AT:
            if av in (sre_c.AT_BEGINNING, sre_c.AT_BEGINNING_STRING) and i == 0:
                pass
            elif av in (sre_c.AT_END, sre_c.AT_END_STRING) and i == len(items) - 1:
                pass
            else:
                raise ValueError('anchor in the middle of a pattern')
        elif op == sre_c.LITERAL:
            # gather a run of literals; placeholders are recognised as literal runs
            run = ''
            j = i
            while j < len(items) and items[j][0] == sre_c.LITERAL:
                run += chr(items[j][1])
                j += 1
            i = j - 1
            rest = run
            while rest:
                hit = None
                for key in placeholders:
                    k = rest.find(key)
                    if k >= 0 and (hit is None or k < hit[0]):
                        hit = (k, key)
                if hit is None:
                    seq.append(z3.Re(z3.StringVal(rest)))
                    rest = ''
                else:
                    k, key = hit
                    if k:
                        seq.append(z3.Re(z3.StringVal(rest[:k])))
                    seq.append(z3.Re(placeholders[key]))
                    rest = rest[k + len(key):]
        elif op == sre_c.ANY:
            if flags & re.DOTALL:
                seq.append(ANY)
            else:
                seq.append(z3.Intersect(ANY, z3.Complement(char(10))))
        elif op == sre_c.IN:
            seq.append(class_re(av))
        elif op == sre_c.NOT_LITERAL:
            seq.append(z3.Intersect(ANY, z3.Complement(char(av))))
        elif op in (sre_c.MAX_REPEAT, sre_c.MIN_REPEAT):
            lo, hi, sub = av
            r = translate(sub, placeholders, flags)
            if lo == 0 and hi == sre_c.MAXREPEAT:
                seq.append(z3.Star(r))
            elif lo == 1 and hi == sre_c.MAXREPEAT:
                seq.append(z3.Plus(r))
            elif lo == 0 and hi == 1:
                seq.append(z3.Option(r))
            elif hi == sre_c.MAXREPEAT:
                seq.append(z3.Concat(*([r] * lo + [z3.Star(r)])) if lo else z3.Star(r))
            else:
                seq.append(z3.Loop(r, lo, hi))
        elif op == sre_c.SUBPATTERN:
            seq.append(translate(av[3], placeholders, flags))
        elif op == sre_c.BRANCH:
            seq.append(z3.Union(*[translate(b, placeholders, flags) for b in av[1]]))
        else:
            raise ValueError('unsupported regex construct %r' % (op,))
        i += 1
    if as_list:
        return seq
    if not seq:
        return z3.Re(z3.StringVal(''))
    if len(seq) == 1:
        return seq[0]
    return z3.Concat(*seq)


def pattern_to_z3(pattern_text, flags=0, placeholders=None):
    parsed = sre_parse.parse(pattern_text, flags)
    return translate(parsed, placeholders or {}, flags)


def pattern_components(pattern_text, flags=0, placeholders=None):
    """top-level concatenation components of the pattern (for decomposition-based lemmas)"""
    parsed = sre_parse.parse(pattern_text, flags)
    return translate(parsed, placeholders or {}, flags, as_list=True)
